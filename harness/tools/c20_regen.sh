#!/bin/bash
# regenerate the pinned site programs of Model/C20.v from the tree given as $1 (default /repo) and rebuild C20's Coq files
T=${1:-/repo}
cd /verif && PYTHONPATH=$T PYTHONHASHSEED=0 /venv/bin/python -W ignore harness/tools/c20_gen_sites.py 2>&1 | grep -v -i "warning\|regex = \|re.compile" > /verif/work/c20_sites.v.txt
python3 - <<'PY'
p='/verif/coq/theories/Model/C20.v'
s=open(p).read()
sites=open('/verif/work/c20_sites.v.txt').read()
a=s.index('(*SITES-BEGIN*)')+len('(*SITES-BEGIN*)'); b=s.index('(*SITES-END*)')
s=s[:a]+'\n'+sites+s[b:]
open(p,'w').write(s)
PY
cd /verif/coq && for f in Model/C20 Proofs/C20 Corr/C20 Proofs/C20_link Props/C20; do timeout 300 coqc -Q theories BNP theories/$f.v 2>&1 | grep -v "conda" | grep -v "^Closed under" ; done

import sys
sys.path.insert(0, '/verif')
from harness.props import c20
for sid in sorted(c20.SITES):
    e = c20.extract_site(sid)
    print('(* site %d: %s — %s *)' % (sid, c20.SITES[sid]['name'], '; '.join(p for p, _ in c20.SITES[sid]['steps'])))
    print('Definition site_%d : list instr :=\n  %s.' % (sid, c20.prog_to_coq(e['prog'])))
print('Definition site_table : list (Z * (nat * list instr)) :=\n  [%s].' % ';\n   '.join('(%d%%Z, (%d%%nat, site_%d))' % (sid, c20.SITES[sid]['np'], sid) for sid in sorted(c20.SITES)))

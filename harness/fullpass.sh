#!/bin/bash
# runs every claimed check once (tier $1, default quick) on /repo; prints one line per property
cd /verif
TIER=${1:-quick}
for id in $(/venv/bin/python -c "import json;print(' '.join(c['property_id'] for c in json.load(open('MANIFEST.json'))['checks']))" 2>/dev/null); do
  S=$(date +%s); OUT=$(./check $id --tier $TIER 2>/dev/null); RC=$?; E=$(( $(date +%s) - S ))
  echo "$id rc=$RC ${E}s :: $(echo "$OUT" | grep -c '^KNOWN-FINDING') known :: $(echo "$OUT" | grep '^VIOLATION' | head -2 | tr '\n' ' ') $(echo "$OUT" | tail -1)"
done

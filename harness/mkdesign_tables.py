"""Fills the generated regions of DESIGN.md from known_findings.json, evidence/, seeded/ and notes/alarms.md."""
import glob, json, os, re
ROOT = os.path.dirname(os.path.dirname(os.path.abspath(__file__)))
def load(p, d=None):
    try: return json.load(open(p))
    except Exception: return d
props = [json.loads(l) for l in open(os.path.join(ROOT, 'properties.jsonl'))]
kf = load(os.path.join(ROOT, 'known_findings.json'), {'findings': [], 'fixed': []})
reg = load(os.path.join(ROOT, 'harness', 'registry.json'), {'claimed': {}})

def region(s, name, body):
    a, b = '<!-- %s-BEGIN -->' % name, '<!-- %s-END -->' % name
    i, j = s.index(a) + len(a), s.index(b)
    return s[:i] + '\n' + body.rstrip('\n') + '\n' + s[j:]

# ---- as built
rows = ['| id | theorems (Props/) | tie | last quick run: cases / non-trivial | findings still open | repaired (fix: commits) |',
        '|----|------|-----|------|------|------|']
for p in props:
    i = p['id']
    ev = load(os.path.join(ROOT, 'evidence', i + '.json'), {})
    cov = ev.get('coverage', {})
    th = cov.get('theorems', [])
    nth = len(th)
    closed = sum(1 for t in th if t.get('assumptions') == [])
    open_f = [f['id'] for f in kf['findings'] if f['property'] == i]
    fixed = [x for x in kf['fixed'] if 'property=%s ' % i in x]
    claimed = i in reg['claimed']
    rows.append('| %s | %s | %s | %s | %s | %d |' % (
        i, ('%d (%d closed under the global context)' % (nth, closed)) if claimed else 'not claimed yet',
        (cov.get('tie') or 'correspondence')[:60], '%s / %s' % (cov.get('evaluations', '-'), cov.get('distinct_nontrivial', '-')),
        ', '.join(open_f) or '—', len(fixed)))
asbuilt = '\n'.join(rows) + '\n\nWhat each theorem set says (from `harness/registry.json`, also in MANIFEST.json):\n\n' + \
    '\n'.join('* **%s** — %s' % (i, reg['claimed'][i]['text']) for i in sorted(reg['claimed']))

# ---- findings
fx = ['**Repairs committed in /repo** (each an unguarded `fix:` commit; the pinned test-suite passes with it):\n']
for x in kf['fixed']:
    m = re.match(r'fixed: property=(\S+) (\S+) (.*)', x, re.S)
    fx.append('* %s `%s` — %s' % (m.group(1), m.group(2), m.group(3)) if m else '* ' + x)
fx.append('\n**Known findings** (genuine defects still in /repo HEAD; each has a witness in `corpus/<id>/` that is replayed first on every run):\n')
for f in kf['findings']:
    fx.append('* `%s` (%s) — %s' % (f['id'], f['property'], f['what']))
findings = '\n'.join(fx)

# ---- seeded
sr = ['| change | what was changed (author\'s summary) | needs | result of `./check` |', '|---|---|---|---|']
for d in sorted(glob.glob(os.path.join(ROOT, 'seeded', '*'))):
    m = load(os.path.join(d, 'meta.json'), {})
    res = open(os.path.join(d, 'result.txt')).read().strip().split('\n') if os.path.exists(os.path.join(d, 'result.txt')) else ['not run yet']
    verdict = next((l for l in res if l.startswith('caught') or l.startswith('MISSED') or 'does not apply' in l), res[0])
    if m.get('status_after_fixes'):
        verdict += ' — ' + m['status_after_fixes'][:160]
    def cell(x): return str(x).replace('|', '\\|').replace('\n', ' ')[:260]
    sr.append('| %s | %s | %s | %s |' % (os.path.basename(d), cell(m.get('summary', '')), cell(m.get('needs', '')), cell(verdict)))
seeded = '\n'.join(sr)

alarms = open(os.path.join(ROOT, 'notes', 'alarms.md')).read() if os.path.exists(os.path.join(ROOT, 'notes', 'alarms.md')) else '(none recorded)'
p = os.path.join(ROOT, 'DESIGN.md')
s = open(p).read()
s = region(s, 'ASBUILT', asbuilt)
s = region(s, 'FINDINGS', findings)
s = region(s, 'SEEDED', seeded)
s = region(s, 'ALARMS', alarms)
open(p, 'w').write(s)
print('DESIGN.md tables regenerated')

"""usage: regadd.py <ID> <text> <note> <technique>"""
import json, sys, os
ROOT = os.path.dirname(os.path.dirname(os.path.abspath(__file__)))
p = os.path.join(ROOT, 'harness', 'registry.json')
r = json.load(open(p))
r['claimed'][sys.argv[1]] = dict(text=sys.argv[2], note=sys.argv[3], technique=sys.argv[4])
json.dump(r, open(p, 'w'), indent=1)

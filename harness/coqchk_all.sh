#!/bin/bash
# independent re-check (coqchk) of every Props module; writes notes/coqchk.txt
cd /verif/coq
{ echo "coqchk -o -Q theories BNP BNP.Props.<ID>  (Coq 8.16.1) — $(date -u +%FT%TZ), /verif $(git -C /verif log --format=%h -1), /repo $(git -C /repo log --format=%h -1)"
for f in theories/Props/C*.v; do id=$(basename $f .v); echo "== $id"; timeout 1800 coqchk -o -Q theories BNP BNP.Props.$id 2>&1 | sed -n '/Modules were\|CONTEXT SUMMARY/,$p' | grep -v "^$\|====" ; done; } > /verif/notes/coqchk.txt 2>&1

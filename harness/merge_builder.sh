#!/bin/bash
# usage: merge_builder.sh <builder-tree> <ID> [<ID> ...]  — copy the files a builder owns for the given properties into /verif
SRC=$1; shift
for ID in "$@"; do
  id=$(echo $ID | tr A-Z a-z)
  for sub in Model Proofs Props Corr Bridge Base; do
    for f in $SRC/coq/theories/$sub/$ID*.v; do [ -f "$f" ] && cp -p "$f" /verif/coq/theories/$sub/; done
  done
  [ -f $SRC/translate/gen_$id.py ] && cp -p $SRC/translate/gen_$id.py /verif/translate/
  cp -p $SRC/harness/props/$id.py /verif/harness/props/
  [ -d $SRC/corpus/$ID ] && rsync -a --delete $SRC/corpus/$ID/ /verif/corpus/$ID/
  for f in $SRC/notes/$ID*; do [ -f "$f" ] && cp -p "$f" /verif/notes/; done
done
cd /verif && git status --short | head -40

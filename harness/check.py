import argparse, os, sys
from harness import lib
ap = argparse.ArgumentParser()
ap.add_argument('pid')
ap.add_argument('--tier', default=os.environ.get('VERIF_TIER', 'quick'))
ap.add_argument('--replay', default=None)
a = ap.parse_args()
sys.exit(lib.run_check(a.pid.upper(), a.tier, a.replay))

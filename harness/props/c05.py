"""C05 — lazy and eager reading are observationally equivalent.

A case is a file (format + per-record raw field texts + header/eol/extra-column decoration), a read mode (whole /
chunked with a minimum chunk size) and a register program over two registers, both initialised by reading the file.
observe() runs the same program on tables read with lazy=True and with lazy=False and records every step of both.
"""
import json
import os
import random
import shutil
import tempfile

from harness.lib import hx, zl, cz, cbool, clist

ID = 'C05'
RULE = ('files of BED3/BED6/FASTQ/two-line FASTA/VCF/SAM built from per-record field texts (canonical and non-canonical '
        'spellings, header lines, extra columns, gzip-compressed, CRLF) and BAM files (read-only); programs of 1..9 steps over two '
        'registers drawn from {len, get f, t[slice], t[mask], t[int list], t[i], concatenate, replace(f=array), tolist, write, sort_by f} x '
        '{whole read, chunked read}; every length<=2 (thorough: <=3) program over a fixed 13-step menu; every field replaced and '
        'written; integer-list selections with out-of-order interior bounded by first/last row, written unmodified; '
        'round 6: VCF files with header lines (also ##INFO) written from the table read() returned, FASTQ quality replaced and written, '
        'concatenate of lazily read with materialised tables (FASTQ / two-line FASTA); sort_by on int / text / SequenceID keys with ties on '
        'fresh, cached, replaced, selected, concatenated tables; '
        'non-trivial = the program has an index, concatenate or write after a field access or a replace')
EXHAUSTIVE = {'quick': False, 'thorough': False}
TIE = 'translator+correspondence'
ASSUMPTIONS = ['A-eager: the eager implementation is the eager model e_run6 of Model/C05.v (row lists + header context lost on derived tables + '
               'default VCF header); checked on every case by Corr.eager_ok (exact, written bytes included), proved equal to the row-list '
               'Spec under the per-step e_guard6 (C05_eager_is_spec_r6); not proved: that the parser/serialiser of /repo compute rows_of_file / s_write (C02/C03)',
               'written bytes are compared lazy-vs-eager only when every record of the file is canonically spelled (C04 owns pass-through of '
               'non-canonical text); Coq decides canonicity (rec_canon); C05_spec_roundtrip shows every table has such a file',
               'BAM is generated read-only (no replace / write: the BAM writer refuses modified data and compresses its output); chunk sizes of '
               'BAM reads are >= the largest record (below that the reader ends the stream early in BOTH modes, C16/C01 matter); '
               'float columns and Optional[int] with "." are not generated',
               'replacement arrays have the table length and the type the eager table itself holds for that field',
               'sort_by is generated for int, text (str) and SequenceID key fields only (not strand, quality, cigar lists; not BAM): the model orders '
               'integers numerically and texts bytewise, checked against np.argsort(kind=stable) on every generated case',
               't[i]: exact for lazily read tables of text formats with ragged columns (always raises); for materialised tables and for BAM '
               'the model states the row and an error of npstructures RaggedView2 under NumPy 2 is tolerated by model_ok; spec_ok reports '
               'it when only one mode fails']
PARTIAL = ['C05_lazy_is_eager_x_partial (programs over the ten operations + sort_by; Corr runs every case in this language) and '
           'C05_lazy_is_eager_partial (the ten operations): the property on the two CURRENT models m_xrun / e_xrun (m_run6 / e_run6) = the code after notes/C05.fix-4/5/6.diff holds '
           'under m_guard6 (no t[i] on a lazily read table with ragged columns [C05_at_ragged_r6_refuted]; replacement columns of table '
           'length; existing fields; no parser that raises) and the per-step e_guard6 (a written eager table still has its header context, '
           'or there is no header / default header to lose [C05_eager_header_lost_r6_refuted, C05_eager_default_header_refuted, '
           'C05_eager_needs_context_refuted])',
           'history, about the PINNED models of the code before round 6: C05_lazy_is_eager_pre6_partial, C05_refines_fixed / C05_file_level_fixed '
           '(guards m_guard_fixed / eager_guard; witnesses C05_concat_mixed_refuted, C05_write_replaced_refuted, C05_eager_write_fails_refuted), '
           'and C05_refines_partial / C05_file_level_partial about the concatenate BEFORE c5ab8ed (first-operand keys)',
           'written bytes are proved equal under canonical spelling only (C05_noncanonical_write_differs)']
PER_FILE = 40

# ----------------------------------------------------------------------------- formats
# kind: 'sid' SequenceID text, 'str' ragged text, 'int' integer, 'int1' integer written +1 (VCF position), 'qual' quality text,
#       'strand' one of + - .
FORMATS = {
    'bed3': dict(suffix='.bed', fields=[('chromosome', 'sid'), ('start', 'int'), ('stop', 'int')]),
    'bed6': dict(suffix='.bed', fields=[('chromosome', 'sid'), ('start', 'int'), ('stop', 'int'), ('name', 'sid'),
                                        ('score', 'int'), ('strand', 'strand')]),
    'fastq': dict(suffix='.fq', fields=[('name', 'sid'), ('sequence', 'str'), ('quality', 'qual')]),
    'fasta2': dict(suffix='.fa', fields=[('name', 'sid'), ('sequence', 'str')]),
    'vcf': dict(suffix='.vcf', fields=[('chromosome', 'sid'), ('position', 'int1'), ('id', 'str'), ('ref_seq', 'str'),
                                       ('alt_seq', 'str'), ('quality', 'str'), ('filter', 'str'), ('info', 'str')]),
    'sam': dict(suffix='.sam', fields=[('name', 'sid'), ('flag', 'int'), ('chromosome', 'sid'), ('position', 'int'),
                                       ('mapq', 'int'), ('cigar', 'str'), ('next_chromosome', 'str'),
                                       ('next_position', 'int'), ('length', 'int'), ('sequence', 'str'),
                                       ('quality', 'str'), ('extra', 'str')]),
}
FORMATS['bam'] = dict(suffix='.bam', fields=[('chromosome', 'sid'), ('name', 'sid'), ('flag', 'int'), ('position', 'int'), ('mapq', 'int'),
                                              ('cigar_op', 'str'), ('cigar_length', 'ilist'), ('sequence', 'str'), ('quality', 'qual')])
FMT_ORDER = ['bed3', 'bed6', 'fastq', 'fasta2', 'vcf', 'sam']          # text formats (all operation kinds)
TAGS = FMT_ORDER + ['bam']                                            # Coq format tags; BAM is read-only here
NOCONCAT = ('fastq', 'fasta2', 'bam')                                 # buffer classes without `concatenate`
BAM_REFS = [('chr1', 1000), ('chr2', 2000)]
BAM_SEQ = '=ACMGRSVTWYHKDBN'
BAM_CIG = 'MIDNSHP=X'
KIND_CODE = {'sid': 0, 'str': 0, 'strand': 0, 'qual': 0, 'int': 1, 'int1': 2}   # Coq: KStr | KInt 0 | KInt (-1)


def _buffer_type(fmt):
    import bionumpy as bnp
    from bionumpy.io.delimited_buffers import Bed6Buffer
    return {'bed6': Bed6Buffer, 'fasta2': bnp.TwoLineFastaBuffer}.get(fmt)


def _bam_header():
    import struct
    text = b'@HD\tVN:1.0\n'
    out = b'BAM\1' + struct.pack('<i', len(text)) + text + struct.pack('<i', len(BAM_REFS))
    for n, l in BAM_REFS:
        nb = n.encode() + b'\0'
        out += struct.pack('<i', len(nb)) + nb + struct.pack('<i', l)
    return out


def _bam_record(rec):
    """BAM alignment record (SAM spec 4.2) from the canonical field texts of C05's BAM rows."""
    import struct
    chrom, name, flag, pos, mapq, ops, lens, seq, qual = rec
    nameb = name.encode() + b'\0'
    cig = list(zip([BAM_CIG.index(c) for c in ops], [int(x) for x in lens.split(',')] if lens else []))
    cigb = b''.join(struct.pack('<I', (l << 4) | op) for op, l in cig)
    codes = [BAM_SEQ.index(c) for c in seq]
    L = len(codes)
    packed = bytes(((codes[i] << 4) | (codes[i + 1] if i + 1 < L else 0)) for i in range(0, L, 2))
    body = (struct.pack('<iiBBHHHiiii', [r[0] for r in BAM_REFS].index(chrom), int(pos), len(nameb), int(mapq), 0, len(cig), int(flag), L, -1, -1, 0)
            + nameb + cigb + packed + bytes(ord(c) - 33 for c in qual))
    return struct.pack('<i', len(body)) + body


def _header_bytes(case):
    return _bam_header() if case['fmt'] == 'bam' else case.get('header', '').encode('latin1')


def _record_bytes(case, rec):
    """Raw bytes of one record (the generator's ground truth of the file layout)."""
    fmt = case['fmt']
    if fmt == 'bam':
        return _bam_record(rec)
    eol = b'\r\n' if case.get('crlf') else b'\n'
    f = [x.encode('latin1') for x in rec]
    if fmt == 'fastq':
        return b'@' + f[0] + eol + f[1] + eol + b'+' + eol + f[2] + eol
    if fmt == 'fasta2':
        return b'>' + f[0] + eol + f[1] + eol
    if fmt == 'sam':
        # the 12th dataclass field is "everything after column 11"; an empty extra means 11 columns
        # (sam_tab: the tag-less rows are spelled with the separating tab, as the eager writer itself spells them)
        cols = f[:11] + ([f[11]] if (f[11] or case.get('sam_tab')) else [])
        return b'\t'.join(cols) + eol
    return b'\t'.join(f + [x.encode('latin1') for x in case.get('extra_cols', [])]) + eol


def _file_bytes(case):
    """The (uncompressed) byte stream of the input; on disk it is gzip-compressed for BAM and for gz cases."""
    return _header_bytes(case) + b''.join(_record_bytes(case, r) for r in case['recs'])


# ----------------------------------------------------------------------------- implementation side
def _cell(kind, x):
    import numpy as np
    if kind == 'ilist':
        return ','.join(str(int(v)) for v in np.asarray(x).ravel()).encode().hex()
    if kind in ('int', 'int1'):
        return int(np.asarray(x).ravel()[0]) if np.ndim(x) else int(x)
    if kind == 'qual':
        return bytes((np.asarray(x, dtype=np.int64) + 33).astype(np.uint8).tolist()).hex()
    if hasattr(x, 'to_string'):
        return x.to_string().encode('latin1').hex()
    if isinstance(x, bytes):
        return x.hex()
    return str(x).encode('latin1').hex()


def _column(kind, col):
    import numpy as np
    if kind == 'ilist':
        return [','.join(str(int(v)) for v in r).encode().hex() for r in col.tolist()]
    if kind in ('int', 'int1'):
        return [int(v) for v in np.asarray(col).ravel()]
    if kind == 'qual':
        return [bytes((np.asarray(r, dtype=np.int64) + 33).astype(np.uint8).tolist()).hex() for r in col.tolist()]
    out = []
    for v in col.tolist():
        if isinstance(v, bytes):
            out.append(v.hex())
        else:
            out.append(str(v).encode('latin1').hex())
    return out


def _rows_from_tolist(fields, lst):
    out = []
    for e in lst:
        row = []
        for name, kind in fields:
            v = getattr(e, name)
            if kind in ('int', 'int1'):
                row.append(int(v))
            elif kind == 'ilist':
                row.append(','.join(str(int(q)) for q in v).encode().hex())
            elif kind == 'qual':
                row.append(bytes([int(q) + 33 for q in v]).hex())
            else:
                row.append((v if isinstance(v, str) else str(v)).encode('latin1').hex())
        out.append(row)
    return out


def _new_values(kind, vals):
    import numpy as np
    import bionumpy as bnp
    if kind in ('int', 'int1'):
        return np.array(vals, dtype=int)
    if kind == 'qual':
        from npstructures import RaggedArray
        return RaggedArray([[ord(c) - 33 for c in v] for v in vals]) if vals else RaggedArray([], [])
    if kind == 'strand':
        from bionumpy.encodings import StrandEncoding
        return bnp.as_encoded_array(''.join(vals), StrandEncoding)
    if kind == 'sid':
        from bionumpy.string_array import as_string_array
        return as_string_array(list(vals)) if vals else as_string_array(np.array([], dtype='S1'))
    return bnp.as_encoded_array(list(vals))


def _index_of(spec):
    import numpy as np
    if spec[0] == 'slice':
        return slice(spec[1], spec[2], spec[3])
    if spec[0] == 'mask':
        return np.array(spec[1], dtype=bool)
    return np.array(spec[1], dtype=int)


def _run_mode(case, path, d, lazy):
    import numpy as np
    import bionumpy as bnp
    fmt = case['fmt']
    fields = FORMATS[fmt]['fields']
    bt = _buffer_type(fmt)
    steps = []
    chunk_lens = []

    def load():
        if case.get('chunk') is None:
            return bnp.open(path, buffer_type=bt, lazy=lazy).read()
        chunks = list(bnp.open(path, buffer_type=bt, lazy=lazy).read_chunks(min_chunk_size=case['chunk']))
        chunk_lens.append([len(c) for c in chunks])
        return np.concatenate(chunks)
    try:
        regs = [load(), load()]
    except Exception as e:
        return dict(load_error=type(e).__name__ + ':' + str(e)[:100])
    for n, op in enumerate(case['prog']):
        k, r = op[0], op[1]
        try:
            t = regs[r]
            if k == 'len':
                o = {'v': int(len(t))}
            elif k == 'get':
                name, kind = fields[op[2]]
                o = {'v': _column(kind, getattr(t, name))}
            elif k == 'slice':
                regs[r] = t[slice(op[2], op[3], op[4])]
                o = {'v': 'ok'}
            elif k == 'mask':
                regs[r] = t[np.array(op[2], dtype=bool)]
                o = {'v': 'ok'}
            elif k == 'take':
                regs[r] = t[np.array(op[2], dtype=int)] if op[2] else t[np.array([], dtype=int)]
                o = {'v': 'ok'}
            elif k == 'at':
                e = t[op[2]]
                o = {'v': [_cell(kind, getattr(e, name)) for name, kind in fields]}
            elif k == 'cat':
                regs[r] = np.concatenate([regs[j] for j in op[2]])
                o = {'v': 'ok'}
            elif k == 'rep':
                name, kind = fields[op[2]]
                regs[r] = bnp.replace(t, **{name: _new_values(kind, op[3])})
                o = {'v': 'ok'}
            elif k == 'tolist':
                o = {'v': _rows_from_tolist(fields, t.tolist())}
            elif k == 'sortby':
                regs[r] = t.sort_by(fields[op[2]][0])
                o = {'v': 'ok'}
            elif k == 'sel':
                regs[r] = regs[op[2]][_index_of(op[3])]
                o = {'v': 'ok'}
            elif k == 'wread':
                # write the table, then decode the written file (eagerly, in both runs): its rows
                out = os.path.join(d, 'wr_%d_%d%s' % (int(lazy), n, FORMATS[fmt]['suffix']))
                with bnp.open(out, 'w', buffer_type=bt) as f:
                    f.write(t)
                back = bnp.open(out, buffer_type=bt, lazy=False).read()
                o = {'v': _rows_from_tolist(fields, back.tolist())}
            elif k == 'write':
                out = os.path.join(d, 'out_%d_%d%s' % (int(lazy), n, FORMATS[fmt]['suffix']))
                with bnp.open(out, 'w', buffer_type=bt) as f:
                    f.write(t)
                o = {'v': open(out, 'rb').read().hex()}
            else:
                raise RuntimeError('unknown op ' + k)
        except Exception as e:
            o = {'e': type(e).__name__}
        steps.append(o)
    return dict(steps=steps, chunk_lens=chunk_lens)


def observe(case):
    d = tempfile.mkdtemp(prefix='c05_')
    try:
        import gzip
        zipped = case['fmt'] == 'bam' or case.get('gz')
        path = os.path.join(d, 'in' + FORMATS[case['fmt']]['suffix'] + ('.gz' if case.get('gz') else ''))
        open(path, 'wb').write(gzip.compress(_file_bytes(case)) if zipped else _file_bytes(case))
        return dict(lazy=_run_mode(case, path, d, True), eager=_run_mode(case, path, d, False))
    finally:
        shutil.rmtree(d, ignore_errors=True)


# ----------------------------------------------------------------------------- generator
INT_POOL = [0, 1, 7, 9, 10, 42, 99, 100, 999, 1000, 12345]
SEQS = ['A', 'AC', 'ACGT', 'GGTTA', 'TTTTTTTT', 'N', 'acgt']
QCH = '!#5I'


def _gen_cell(rng, fmt, name, kind, noncanon):
    if kind in ('int', 'int1'):
        v = rng.choice(INT_POOL) + (1 if kind == 'int1' else 0)
        s = str(v)
        if noncanon and rng.random() < 0.4:
            s = rng.choice(['0' + s, '00' + s, '+' + s])
        return s
    if kind == 'strand':
        return rng.choice('+-.')
    if kind == 'sid':
        if fmt in NOCONCAT:
            return rng.choice(['r1', 'read2 desc', 'x', 'seq_10/1'])
        return rng.choice(['chr1', 'chr2', 'chrX', 'c', 'scaffold_12'])
    if fmt == 'vcf':
        return {'id': ['.', 'rs1', 'rs22'], 'ref_seq': ['A', 'AC', 'G'], 'alt_seq': ['T', 'A', 'CG'],
                'quality': ['.', '30', '9'], 'filter': ['.', 'PASS'], 'info': ['.', 'DP=3', 'DP=4;AF=0.5']}[name][rng.randrange(2 + (name != 'filter'))]
    if fmt == 'sam':
        return {'cigar': ['4M', '2M1I1M', '*'], 'next_chromosome': ['*', '='], 'sequence': ['ACGT', 'AC', 'A'],
                'quality': ['IIII', '*', '#5'], 'extra': ['NM:i:0', 'NM:i:1\tXX:Z:a', '']}[name][rng.randrange(2 + (name in ('cigar', 'sequence', 'quality', 'extra')))]
    return rng.choice(SEQS)


def _gen_file(rng, fmt, nrec, clean):
    fields = FORMATS[fmt]['fields']
    noncanon = (not clean) and rng.random() < 0.4
    recs = []
    for _ in range(nrec):
        rec = [_gen_cell(rng, fmt, n, k, noncanon) for n, k in fields]
        if fmt == 'fastq':
            rec[2] = ''.join(rng.choice(QCH) for _ in rec[1])
        if fmt == 'sam' and clean and rec[11] == '':
            rec[11] = 'NM:i:0'
        recs.append(rec)
    case = dict(fmt=fmt, recs=recs, header='', extra_cols=[])
    if not clean:
        if rng.random() < 0.5:
            case['header'] = {'bed3': '#track x\n', 'bed6': '#a\n#b\n', 'vcf': '##fileformat=VCFv4.2\n#CHROM\tPOS\tID\tREF\tALT\tQUAL\tFILTER\tINFO\n',
                              'sam': '@HD\tVN:1.0\n@SQ\tSN:chr1\tLN:100000\n'}.get(fmt, '')
        if fmt in ('bed3', 'bed6') and rng.random() < 0.25:
            case['extra_cols'] = ['x', '9'][:rng.randint(1, 2)]
    return case


def _new_vals(rng, fmt, f, n):
    name, kind = FORMATS[fmt]['fields'][f]
    if kind in ('int', 'int1'):
        return [rng.choice(INT_POOL) + 50 for _ in range(n)]
    if kind == 'strand':
        return [rng.choice('+-.') for _ in range(n)]
    if kind == 'qual':
        return [''.join(rng.choice(QCH) for _ in range(rng.randint(1, 4))) for _ in range(n)]
    if kind == 'sid':
        return [rng.choice(['n1', 'name_b', 'zz']) for _ in range(n)]
    return [rng.choice(['T', 'GA', 'CCC', 'tag']) for _ in range(n)]


class _Sym:
    """Generator-side bookkeeping of one register: eager length, and the lazy object's kind and key sets."""
    def __init__(self, n):
        self.n, self.kind, self.setk, self.compk = n, 'lazy', set(), set()

    def copy(self):
        s = _Sym(self.n)
        s.kind, s.setk, s.compk = self.kind, set(self.setk), set(self.compk)
        return s


def _cat_clean(fmt, syms):
    # since c5ab8ed np.concatenate merges over the union of the replaced keys: any all-lazy operand list is fine;
    # since notes/C05.fix-5.diff lazy and materialised operands may be mixed (the result is materialised)
    return True


def _sym_apply(fmt, regs, op):
    """Advance the bookkeeping assuming the step succeeds (the clean profile only emits such steps)."""
    nf = len(FORMATS[fmt]['fields'])
    k, r = op[0], op[1]
    s = regs[r]
    if k in ('get', 'sortby') and s.kind == 'lazy' and op[2] not in s.setk:
        s.compk.add(op[2])        # sort_by reads its key through __getattr__ (cached), then indexes: same keys, same length
    elif k == 'slice':
        s.n = len(range(s.n)[slice(op[2], op[3], op[4])])
    elif k == 'mask':
        if len(op[2]) == s.n:
            s.n = sum(op[2])
    elif k == 'take':
        if all(-s.n <= j < s.n for j in op[2]):
            s.n = len(op[2])
    elif k == 'rep':
        if s.kind == 'lazy':
            s.setk.add(op[2])
            s.compk = set()
    elif k == 'tolist' and s.kind == 'lazy':
        s.compk |= set(range(nf)) - s.setk
    elif k == 'sel':
        new = regs[op[2]].copy()
        sp = op[3]
        if sp[0] == 'slice':
            new.n = len(range(new.n)[slice(sp[1], sp[2], sp[3])])
        elif sp[0] == 'mask':
            new.n = sum(sp[1])
        else:
            new.n = len(sp[1])
        regs[r] = new
    elif k == 'cat':
        src = [regs[j] for j in op[2]]
        new = _Sym(sum(x.n for x in src))
        if any(x.kind == 'eager' for x in src) or fmt in NOCONCAT:
            new.kind = 'eager'
        else:
            new.setk = set().union(*[x.setk for x in src])
            new.compk = set(src[0].compk).intersection(*[x.compk for x in src]) - new.setk
        regs[r] = new


def _gen_prog(rng, fmt, n0, length, clean, chunked):
    fields = FORMATS[fmt]['fields']
    nf = len(fields)
    ragged = any(k == 'str' for _, k in fields)
    regs = [_Sym(n0), _Sym(n0)]
    if chunked and fmt in NOCONCAT:
        regs[0].kind = regs[1].kind = 'eager'
    prog = []
    kinds = ['len', 'get', 'slice', 'mask', 'take', 'at', 'cat', 'rep', 'tolist', 'write']
    weights = [1, 3, 2, 1.5, 1.5, 1, 2.5, 2.5, 1.5, 2.5]
    if fmt == 'bam':                       # BAM is exercised read-only (no replace, no write)
        weights = [1, 3, 2, 1.5, 1.5, 1, 2.5, 0, 2, 0]
    tries = 0
    while len(prog) < length and tries < 200:
        tries += 1
        k = rng.choices(kinds, weights)[0]
        r = 0 if rng.random() < 0.7 else 1
        n = regs[r].n
        if k == 'len':
            op = ['len', r]
        elif k == 'get':
            op = ['get', r, rng.randrange(nf)]
        elif k == 'slice':
            a = rng.choice([None, None, 0, 1, 2, -1, -2, n, n + 1])
            b = rng.choice([None, None, 0, 1, 2, -1, n, n - 1, n + 2])
            s = rng.choice([1, 1, -1, 2, -2, None])
            op = ['slice', r, a, b, s]
        elif k == 'mask':
            m = [rng.random() < 0.6 for _ in range(n)]
            if not clean and rng.random() < 0.05:
                m = m + [True]
            op = ['mask', r, m]
        elif k == 'take':
            if n == 0:
                continue
            hi = n if (clean or rng.random() < 0.93) else n + 1
            op = ['take', r, [rng.randrange(-n, hi) for _ in range(rng.randint(0, n + 2))]]
        elif k == 'at':
            if clean and ragged:
                continue
            if n == 0 and clean:
                continue
            op = ['at', r, rng.randrange(-n, n) if n and rng.random() < 0.9 else n]
        elif k == 'cat':
            src = [r, 1 - r] if rng.random() < 0.55 else rng.choice([[r, r], [1 - r, r], [r, 1 - r, r], [r]])
            if clean and not _cat_clean(fmt, [regs[j] for j in src]):
                continue
            if sum(regs[j].n for j in src) > 12:
                continue
            op = ['cat', r, src]
            if not _cat_clean(fmt, [regs[j] for j in src]):
                # the lazy run is expected to fail here while the eager one goes on: later steps would only
                # compare two different tables, so the program ends with one observation of the register
                prog.append(op)
                prog.append(rng.choice([['len', r], ['tolist', r]] + ([] if fmt == 'bam' else [['write', r]])))
                return prog
        elif k == 'rep':
            f = rng.randrange(nf)       # every field: FASTQ quality and VCF info are writable since fix-4 / cb3a6ef
            op = ['rep', r, f, _new_vals(rng, fmt, f, n)]
        elif k == 'tolist':
            op = ['tolist', r]
        else:
            op = ['write', r]
        prog.append(op)
        _sym_apply(fmt, regs, op)
    # finish by observing the state the program built
    if prog and prog[-1][0] not in ('tolist', 'write', 'get') and rng.random() < 0.85:
        r = prog[-1][1]
        prog.append(['tolist', r] if (rng.random() < 0.5 or fmt == 'bam') else ['write', r])
    return prog


def _chunk_choice(rng, case):
    sizes = [len(_record_bytes(case, r)) for r in case['recs']]
    tot = sum(sizes)
    if case['fmt'] == 'bam':
        # below the size of a record the BAM reader silently ends the stream (both modes alike; C16/C01 own the reader)
        m = max(sizes)
        return rng.choice([m, m + 1, max(m, tot // 2), max(m, tot - 1), tot, tot + 1])
    return rng.choice([1, sizes[0], sizes[0] + 1, max(1, tot // 2), tot - 1, tot, tot + 1])


MENU = [['get', 0, 1], ['get', 1, 0], ['slice', 0, None, None, -1], ['take', 0, [2, 0]], ['mask', 1, None], ['at', 0, 1],
        ['cat', 0, [0, 1]], ['cat', 0, [1, 0]], ['rep', 0, 1, None], ['rep', 1, 1, None], ['tolist', 0], ['write', 0], ['len', 0]]


def _menu_prog(rng, fmt, n0, idxs):
    """A program from the fixed menu, with lengths filled in by the bookkeeping."""
    regs = [_Sym(n0), _Sym(n0)]
    prog = []
    diverged = False
    for i in idxs:
        op = [x for x in MENU[i]]
        r = op[1]
        if diverged and op[0] in ('rep', 'mask', 'take'):
            continue          # after a lazy-only failure the two runs hold tables of different length
        if op[0] == 'cat' and not _cat_clean(fmt, [regs[j] for j in op[2]]):
            diverged = True
        if op[0] == 'mask':
            op[2] = [(j % 2 == 0) for j in range(regs[r].n)]
        if op[0] == 'rep':
            op[3] = [200 + j for j in range(regs[r].n)] if FORMATS[fmt]['fields'][1][1] in ('int', 'int1') else ['S%d' % j for j in range(regs[r].n)]
        if op[0] == 'take':
            op[2] = [j for j in op[2] if j < regs[r].n]
        prog.append(op)
        _sym_apply(fmt, regs, op)
    if prog[-1][0] not in ('tolist', 'write', 'len', 'at', 'get'):
        prog.append(['tolist', prog[-1][1]])
        prog.append(['write', prog[-1][1]])
    return prog


def _finding_listed(fid):
    """read-only look at the findings lists (known_findings.json and the builder's extra file)"""
    root = os.path.dirname(os.path.dirname(os.path.dirname(os.path.abspath(__file__))))
    for p in (os.path.join(root, 'known_findings.json'), os.environ.get('VERIF_EXTRA_FINDINGS')):
        try:
            if p and any(f.get('id') == fid for f in json.load(open(p)).get('findings', [])):
                return True
        except Exception:
            pass
    return False


def _gen_bam(rng, nrec):
    recs = []
    for i in range(nrec):
        L = rng.choice([1, 2, 3, 4, 5, 8])
        seq = ''.join(rng.choice('ACGTN') for _ in range(L))
        ops, lens = rng.choice([('M', [L]), ('MIM', [1, 1, max(1, L - 2)]), ('SM', [1, max(1, L - 1)])]) if L > 1 else ('M', [1])
        recs.append([rng.choice(['chr1', 'chr2']), rng.choice(['r%d' % i, 'read_%d/1' % i, 'x']), str(rng.choice([0, 16, 99, 147])),
                     str(rng.choice([0, 5, 99, 999])), str(rng.choice([0, 30, 60])), ops, ','.join(str(x) for x in lens), seq,
                     ''.join(rng.choice(QCH) for _ in range(L))])
    return dict(fmt='bam', recs=recs, header='', extra_cols=[])


def _ordered_file(fmt, equal):
    """Five distinct canonical records; equal=True: all of one byte width; else widths differ except rows 1 and 2."""
    seqs = ['ACG', 'CGT', 'GTA', 'TAC', 'AAC']
    quals = ['I#5', '#5I', '5I#', 'II#', '##5']
    pad = ['', '', '', '', ''] if equal else ['', 'xx', 'yy', 'z', 'www']
    recs = []
    for i in range(5):
        sid = ('r%d' % i if fmt in ('fastq', 'fasta2', 'sam') else 'chr%d' % i) + pad[i]
        if fmt == 'bed3':
            rec = [sid, str(10 + i), str(20 + i)]
        elif fmt == 'bed6':
            rec = [sid, str(10 + i), str(20 + i), 'n%d' % i, str(5 + i % 4), '+-.+-'[i]]
        elif fmt == 'fastq':
            rec = [sid, seqs[i], quals[i]]
        elif fmt == 'fasta2':
            rec = [sid, seqs[i]]
        elif fmt == 'vcf':
            rec = [sid, str(10 + i), 'rs%d' % i, 'ACGTA'[i], 'CGTAC'[i], '.', '.', 'DP=%d' % i]
        else:
            rec = [sid, '0', 'chr1', str(10 + i), '60', '3M', '*', '0', '0', seqs[i], quals[i], 'NM:i:%d' % i]
        recs.append(rec)
    return dict(fmt=fmt, recs=recs, header='', extra_cols=[])


def generate(tier, seed):
    import itertools
    rng = random.Random(seed * 1000003 + 5)
    cases = []
    # (a) every program of length <= L over the fixed menu on a 3-record canonical file
    maxlen = 2 if tier == 'quick' else 3
    for fmt in (['bed6'] if tier == 'quick' else ['bed6', 'fastq', 'sam']):
        base = _gen_file(random.Random(seed + 11), fmt, 3, True)
        for L in range(1, maxlen + 1):
            for idxs in itertools.product(range(len(MENU)), repeat=L):
                if tier == 'thorough' and fmt != 'bed6' and L == 3 and rng.random() < 0.75:
                    continue
                c = dict(base)
                c['chunk'] = None
                c['prog'] = _menu_prog(rng, fmt, 3, idxs)
                cases.append(c)
    # (b) random files and programs, half of them in the clean profile (no known-finding trigger)
    n_rand = 900 if tier == 'quick' else 4000
    for i in range(n_rand):
        fmt = FMT_ORDER[i % len(FMT_ORDER)]
        clean = (i // len(FMT_ORDER)) % 2 == 0
        nrec = rng.choice([1, 2, 2, 3, 3, 4, 5])
        c = _gen_file(rng, fmt, nrec, clean)
        chunked = rng.random() < 0.35
        c['chunk'] = _chunk_choice(rng, c) if chunked else None
        c['prog'] = _gen_prog(rng, fmt, nrec, rng.randint(1, 7), clean, chunked)
        cases.append(c)
    # (c) every field of every format replaced, then read back, written, indexed and written again
    for k, fmt in enumerate(FMT_ORDER):
        for hdr in (False, True):
            base = _gen_file(random.Random(seed * 31 + k), fmt, 3, True)
            if hdr:
                base['header'] = {'bed3': '#track x\n', 'bed6': '#a\n', 'vcf': '##fileformat=VCFv4.2\n#CHROM\tPOS\tID\tREF\tALT\tQUAL\tFILTER\tINFO\n',
                                  'sam': '@HD\tVN:1.0\n'}.get(fmt, '')
                if not base['header']:
                    continue
            for f in range(len(FORMATS[fmt]['fields'])):
                c = dict(base)
                c['chunk'] = None
                c['prog'] = [['rep', 0, f, _new_vals(rng, fmt, f, 3)], ['get', 0, f], ['write', 0], ['slice', 0, 1, None, None],
                             ['write', 0], ['tolist', 0], ['get', 1, f], ['mask', 1, [True, False, True]], ['write', 1]]
                cases.append(c)
    # (d) integer-list selections whose first and last row bound a stretch exactly as long as the selection while the
    #     interior is out of file order (permutations with a shuffled interior; repeats of equal-width rows), on
    #     5-record canonical files with equal-width and with unequal-width rows, written without any replacement
    takes = [[0, 2, 1, 3], [1, 3, 2, 4], [0, 1, 1, 3], [1, 2, 2, 4], [0, 3, 2, 1, 4], [0, 2, 2, 4], [0, 2, 1, 3, 4], [3, 1, 2, 0]]
    for fmt in FMT_ORDER:
        for equal in (True, False):
            base = _ordered_file(fmt, equal)
            for tk in takes:
                for prog in ([['take', 0, tk], ['write', 0], ['tolist', 0], ['write', 0]],
                             [['get', 0, 0], ['take', 0, tk], ['write', 0]],
                             [['take', 1, tk], ['tolist', 1], ['write', 1], ['slice', 1, None, None, -1], ['write', 1]]):
                    c = dict(base)
                    c['chunk'] = None
                    c['prog'] = prog
                    cases.append(c)
    # (e) BAM, read-only (len, field access, every kind of index, t[i], concatenate, tolist), whole and chunked
    for i in range(60 if tier == 'quick' else 400):
        nrec = rng.choice([1, 2, 3, 3, 4, 5])
        c = _gen_bam(rng, nrec)
        chunked = rng.random() < 0.4
        c['chunk'] = _chunk_choice(rng, c) if chunked else None
        c['prog'] = _gen_prog(rng, 'bam', nrec, rng.randint(1, 6), i % 2 == 0, chunked)
        cases.append(c)
    # (h) BAM: field access (any subset, any order) before and after an UNMODIFIED write of the whole table, of a mask /
    #     integer-list / slice / reversed selection and of chained selections; two selections of one parent written in
    #     turn; the written file is re-read and decoded (replace-then-write stays out: the BAM writer refuses modified data)
    for i in range(14 if tier == 'quick' else 70):
        nrec = rng.choice([3, 4, 5, 5])
        base = _gen_bam(rng, nrec)
        nf = len(FORMATS['bam']['fields'])

        def fields_some():
            fs = list(range(nf))
            rng.shuffle(fs)
            return fs[:rng.randint(1, nf)]
        perm = list(range(nrec))
        rng.shuffle(perm)
        sels = [['mask', [j % 2 == 0 for j in range(nrec)]], ['mask', [rng.random() < 0.6 for _ in range(nrec)]],
                ['take', perm], ['take', [rng.randrange(nrec) for _ in range(rng.randint(1, nrec + 1))]],
                ['slice', 1, None, None], ['slice', None, None, -1], ['slice', None, -1, 2]]
        progs = [[['get', 0, f] for f in fields_some()] + [['wread', 0]] + [['get', 0, f] for f in fields_some()] + [['tolist', 0]]]
        for sp in sels:
            before, after = fields_some(), fields_some()
            progs.append([['sel', 0, 0, sp]] + [['get', 0, f] for f in before] + [['wread', 0]] + [['get', 0, f] for f in after] + [['tolist', 0]])
            progs.append([['get', 0, f] for f in before[:2]] + [['sel', 0, 0, sp], ['wread', 0]] + [['get', 0, f] for f in range(nf)] + [['wread', 0]])
        s1, s2 = rng.sample(sels, 2)
        f1, f2 = rng.randrange(nf), rng.randrange(nf)
        progs.append([['sel', 0, 1, s1], ['get', 0, f1], ['wread', 0], ['get', 0, f2], ['sel', 0, 1, s2], ['wread', 0], ['get', 0, f1],
                      ['get', 1, f2], ['wread', 1], ['get', 1, f1], ['tolist', 0]])
        progs.append([['sel', 0, 0, s1], ['get', 0, f1], ['sel', 0, 0, ['slice', None, None, -1]], ['wread', 0], ['get', 0, f1], ['get', 0, f2],
                      ['sel', 0, 0, ['slice', 0, 1, None]], ['wread', 0], ['tolist', 0]])
        for prog in progs:
            c = dict(base)
            c['chunk'] = None if rng.random() < 0.85 else _chunk_choice(rng, base)
            c['prog'] = prog
            cases.append(c)
    # (i) sessions with several live tables derived from ONE lazily read parent (register 1): basic slices (views of the
    #     parent's offset tables) with non-zero start, strided, reversed; an unmodified write of a derived table in the
    #     middle; afterwards first-time field reads / tolist / write of the PARENT and of sibling and nested slices
    slices = [['slice', 1, None, None], ['slice', 2, 4, None], ['slice', 1, None, 2], ['slice', None, None, -1],
              ['slice', -2, None, None], ['slice', 3, 0, -1]]
    for k, fmt in enumerate(FMT_ORDER):
        nf = len(FORMATS[fmt]['fields'])
        for equal in (True, False):
            base = _ordered_file(fmt, equal)
            for j, sp in enumerate(slices):
                if tier == 'quick' and (j + k + equal) % 2:
                    continue
                other = slices[(j + 2) % len(slices)]
                fs = list(range(nf))
                rng.shuffle(fs)
                progs = [
                    [['sel', 0, 1, sp], ['write', 0]] + [['get', 1, f] for f in fs] + [['tolist', 1], ['write', 1]],
                    [['get', 1, fs[0]], ['sel', 0, 1, sp], ['write', 0], ['get', 1, fs[-1]], ['sel', 0, 1, other], ['get', 0, fs[-1]],
                     ['tolist', 0], ['write', 0], ['tolist', 1], ['write', 1]],
                    [['sel', 0, 1, sp], ['get', 0, fs[0]], ['write', 0], ['tolist', 0], ['sel', 1, 1, ['slice', 1, None, None]],
                     ['tolist', 1], ['write', 1]],
                    [['sel', 0, 1, sp], ['sel', 0, 0, ['slice', 1, None, None]], ['write', 0], ['tolist', 1], ['get', 1, fs[0]],
                     ['sel', 0, 1, ['mask', [True, False, True, True, False]]], ['tolist', 0], ['write', 0]],
                ]
                for prog in progs:
                    c = dict(base)
                    c['chunk'] = None
                    c['prog'] = prog
                    cases.append(c)
    # (f) gzip-compressed and CRLF inputs of the text formats (the reader's prepend mode / carriage-return handling)
    for i in range(120 if tier == 'quick' else 600):
        fmt = FMT_ORDER[i % len(FMT_ORDER)]
        nrec = rng.choice([1, 2, 3, 4])
        c = _gen_file(rng, fmt, nrec, True)
        if (i // len(FMT_ORDER)) % 2 == 0:
            c['gz'] = True
        else:
            c['crlf'] = True
        chunked = rng.random() < 0.5
        c['chunk'] = _chunk_choice(rng, c) if chunked else None
        c['prog'] = _gen_prog(rng, fmt, nrec, rng.randint(1, 6), True, chunked)
        cases.append(c)
    # (g) SAM files with tag-less rows — spelled without the separating tab (canonical: what both writers print since
    #     81bde1f) and with it —, written, a field replaced, written again: lazy and eager must agree byte for byte
    for i in range(36 if tier == 'quick' else 150):
        nrec = rng.choice([1, 2, 3])
        c = _gen_file(rng, 'sam', nrec, True)
        for k, rec in enumerate(c['recs']):
            if k == 0 or rng.random() < 0.5:
                rec[11] = ''
        c['sam_tab'] = (i % 3 == 2)
        c['chunk'] = None
        f = rng.choice([1, 3, 4, 9, 11])
        vals = _new_vals(rng, 'sam', f, nrec)
        if f == 11 and i % 2:
            vals[0] = ''                       # a tags column replaced by an empty value
        c['prog'] = [['write', 0], ['rep', 0, f, vals], ['write', 0], ['tolist', 0], ['write', 1]]
        cases.append(c)
    # (j) round 6 — the classes of the three repaired findings, as ordinary cases:
    #  (j1) VCF files WITH header lines (canonical and not), whole read: the table read() returned is written directly, after
    #       field reads / tolist, twice, and next to a derived sibling that is only read (fix-6; a derived table written
    #       is still C05-header-lost-on-derived-eager-table)
    vcf_hdrs = ['##fileformat=VCFv4.2\n#CHROM\tPOS\tID\tREF\tALT\tQUAL\tFILTER\tINFO\n', '#CHROM\tPOS\tID\tREF\tALT\tQUAL\tFILTER\tINFO\n',
                '##fileformat=VCFv4.3\n##source=x\n##contig=<ID=chr1,length=1000>\n#CHROM\tPOS\tID\tREF\tALT\tQUAL\tFILTER\tINFO\n']
    for i in range(18 if tier == 'quick' else 90):
        nrec = rng.choice([1, 2, 3, 4])
        c = _gen_file(rng, 'vcf', nrec, i % 3 != 2)
        c['header'] = vcf_hdrs[i % len(vcf_hdrs)]
        c['chunk'] = None
        f1, f2 = rng.randrange(8), rng.randrange(8)
        c['prog'] = [[['write', 0]],
                     [['get', 0, f1], ['write', 0], ['get', 0, f2], ['write', 0]],
                     [['tolist', 1], ['write', 1], ['len', 1]],
                     [['sel', 0, 1, ['slice', None, None, -1]], ['get', 0, f1], ['tolist', 0], ['write', 1], ['get', 1, f2]],
                     [['write', 1], ['cat', 0, [0, 1]], ['get', 0, 1], ['write', 1]],
                     [['slice', 0, 0, 0, None], ['write', 1], ['len', 0]]][i % 6]
        cases.append(c)
    #  (j1b) the same with ##INFO header lines: the info column is then a nested (lazily parsed) table in BOTH modes, which
    #       this harness does not observe — the programs read the other fields only; the eager writer spells the info
    #       column back from the text it was read from (InfoBuffer.as_text, fix-6), also for selections
    info_hdr = ('##fileformat=VCFv4.2\n##INFO=<ID=DP,Number=1,Type=Integer,Description="d">\n'
                '##INFO=<ID=AF,Number=A,Type=Float,Description="a">\n#CHROM\tPOS\tID\tREF\tALT\tQUAL\tFILTER\tINFO\n')
    for i in range(12 if tier == 'quick' else 60):
        nrec = rng.choice([1, 2, 3, 4, 5])
        c = _gen_file(rng, 'vcf', nrec, True)
        c['header'] = info_hdr
        c['chunk'] = None
        f1, f2 = rng.randrange(7), rng.randrange(7)
        c['prog'] = [[['write', 0]],
                     [['get', 0, f1], ['write', 0], ['get', 0, f2], ['len', 0]],
                     [['sel', 0, 1, ['slice', None, None, -1]], ['get', 0, f1], ['write', 1], ['get', 1, f2]],
                     [['write', 1], ['get', 1, f1], ['write', 1]],
                     # a selection written: the eager file starts with the default header (listed finding), its body is compared
                     [['slice', 0, None, None, -1], ['write', 0], ['write', 1]],
                     [['mask', 0, [j % 2 == 0 for j in range(nrec)]], ['get', 0, f1], ['write', 0]]][i % 6]
        cases.append(c)
    #  (j2) FASTQ: the quality column replaced (by the RaggedArray of phred values the eager table itself holds) and written:
    #       directly, after reading it back, on a selection, together with another replaced column (fix-4)
    for i in range(18 if tier == 'quick' else 90):
        nrec = rng.choice([1, 1, 2, 3, 4])
        c = _gen_file(rng, 'fastq', nrec, True)
        c['chunk'] = None
        q = lambda n: [''.join(rng.choice(QCH) for _ in range(rng.randint(1, 4))) for _ in range(n)]
        m = nrec - 1
        c['prog'] = [[['rep', 0, 2, q(nrec)], ['write', 0]],
                     [['rep', 0, 2, q(nrec)], ['get', 0, 2], ['write', 0], ['tolist', 0]],
                     [['slice', 0, 1, None, None], ['rep', 0, 2, q(m)], ['write', 0], ['write', 1]],
                     [['rep', 0, 0, _new_vals(rng, 'fastq', 0, nrec)], ['rep', 0, 2, q(nrec)], ['write', 0], ['get', 0, 0]],
                     [['get', 1, 2], ['rep', 1, 2, q(nrec)], ['slice', 1, None, None, -1], ['write', 1], ['get', 1, 2]],
                     [['rep', 0, 2, q(nrec)], ['cat', 0, [0, 1]], ['write', 0], ['tolist', 0]]][i % 6]
        cases.append(c)
    #  (j3) FASTQ / two-line FASTA (buffer classes without `concatenate`): np.concatenate of a lazily read table with the
    #       materialised result of an earlier concatenate, in both operand orders, three operands, after a selection, then
    #       read / replaced / written (fix-5)
    for i in range(24 if tier == 'quick' else 120):
        fmt = ['fastq', 'fasta2'][i % 2]
        nrec = rng.choice([1, 2, 3])
        c = _gen_file(rng, fmt, nrec, True)
        c['chunk'] = None if i % 8 else _chunk_choice(rng, c)
        last = len(FORMATS[fmt]['fields']) - 1
        c['prog'] = [[['cat', 0, [0, 1]], ['cat', 0, [0, 1]], ['len', 0], ['tolist', 0], ['write', 0]],
                     [['cat', 0, [0, 1]], ['cat', 0, [1, 0]], ['get', 0, 0], ['write', 0]],
                     [['cat', 0, [0, 1]], ['cat', 1, [1, 0, 1]], ['get', 1, last], ['tolist', 1]],
                     [['cat', 0, [0, 0]], ['slice', 0, 1, None, None], ['cat', 0, [1, 0]], ['rep', 0, last, _new_vals(rng, fmt, last, 3 * nrec - 1)],
                      ['write', 0], ['write', 1]],
                     [['get', 1, 0], ['cat', 0, [0, 1]], ['cat', 0, [0, 1, 1]], ['slice', 0, None, None, -1], ['tolist', 0], ['get', 1, last]],
                     [['rep', 1, last, _new_vals(rng, fmt, last, nrec)], ['cat', 0, [0, 0]], ['cat', 0, [1, 0]], ['get', 0, last], ['write', 0]]][(i // 2) % 6]
        cases.append(c)
    # (k) round 6, part 2 — sort_by (stable argsort of a key column, then integer-list indexing) on integer, text and
    #     SequenceID fields with ties, on freshly read, cached, replaced, selected and concatenated tables; then read / written
    for i in range(84 if tier == 'quick' else 420):
        fmt = FMT_ORDER[i % len(FMT_ORDER)]
        flds = FORMATS[fmt]['fields']
        sortable = [j for j, (_, kd) in enumerate(flds) if kd in ('int', 'int1', 'str', 'sid')]
        if fmt == 'bam' or not sortable:
            continue
        nrec = rng.choice([2, 3, 4, 5, 5])
        c = _gen_file(rng, fmt, nrec, i % 5 != 4)
        if rng.random() < 0.5:                      # force ties in the key columns
            c['recs'][-1] = list(c['recs'][0][:])
        c['chunk'] = None if i % 7 else _chunk_choice(rng, c)
        f, g = rng.choice(sortable), rng.choice(sortable)
        h = rng.randrange(len(flds))
        c['prog'] = [[['sortby', 0, f], ['tolist', 0], ['write', 0]],
                     [['get', 0, f], ['sortby', 0, f], ['get', 0, h], ['sortby', 0, g], ['get', 0, g], ['write', 0]],
                     [['rep', 0, g, _new_vals(rng, fmt, g, nrec)], ['sortby', 0, g], ['get', 0, f], ['tolist', 0], ['write', 0]],
                     [['slice', 0, None, None, -1], ['sortby', 0, f], ['cat', 0, [0, 1]], ['sortby', 0, g], ['tolist', 0], ['get', 1, f]],
                     [['sortby', 1, f], ['sel', 0, 1, ['slice', 1, None, None]], ['sortby', 0, g], ['write', 0], ['tolist', 1]],
                     [['sortby', 0, f], ['sortby', 0, f], ['len', 0], ['get', 0, f], ['write', 1]]][(i // len(FMT_ORDER)) % 6]
        cases.append(c)
    cases.sort(key=lambda c: len(c['prog']) + len(c['recs']))
    seen, out = set(), []
    for c in cases:
        h = json.dumps(c, sort_keys=True)
        if h not in seen and c['prog']:
            seen.add(h)
            out.append(c)
    return out


def search(tier, seed, disagreeing):
    out = []
    for c in generate('quick', seed + 1):
        if not disagreeing or c['fmt'] in {d['fmt'] for d in disagreeing}:
            out.append(c)
    return out[:600]


# ----------------------------------------------------------------------------- Coq terms
def _val(v):
    if isinstance(v, bool):
        raise ValueError(v)
    if isinstance(v, int):
        return '(VI %s)' % cz(v)
    return '(VS %s)' % hx(bytes.fromhex(v))


def _vals(vs):
    return clist([_val(v) for v in vs], 'value')


def _opt(x):
    return '(@None Z)' if x is None else '(Some %s)' % cz(x)


def _op(case, op):
    if op[0] == 'sortby':
        return '(XSortBy %d %d)' % (op[1], op[2])
    return '(XB %s)' % _op_base(case, op)


def _op_base(case, op):
    k, r = op[0], op[1]
    fields = FORMATS[case['fmt']]['fields']
    if k == 'len':
        return '(OLen %d)' % r
    if k == 'get':
        return '(OGet %d %d)' % (r, op[2])
    if k == 'slice':
        return '(OIndex %d (ISlice %s %s %s))' % (r, _opt(op[2]), _opt(op[3]), cz(1 if op[4] is None else op[4]))
    if k == 'mask':
        return '(OIndex %d (IMask %s))' % (r, clist([cbool(b) for b in op[2]], 'bool'))
    if k == 'take':
        return '(OIndex %d (ITake %s))' % (r, zl(op[2]))
    if k == 'at':
        return '(OAt %d %s)' % (r, cz(op[2]))
    if k == 'cat':
        return '(OCat %d %s)' % (r, clist(['%d%%nat' % j for j in op[2]], 'nat'))
    if k == 'rep':
        kind = fields[op[2]][1]
        vs = [int(v) if kind in ('int', 'int1') else v.encode('latin1').hex() for v in op[3]]
        return '(ORep %d %d %s)' % (r, op[2], _vals(vs))
    if k == 'tolist':
        return '(OTolist %d)' % r
    if k == 'sel':
        sp = op[3]
        ix = ('(ISlice %s %s %s)' % (_opt(sp[1]), _opt(sp[2]), cz(1 if sp[3] is None else sp[3])) if sp[0] == 'slice'
              else '(IMask %s)' % clist([cbool(b) for b in sp[1]], 'bool') if sp[0] == 'mask' else '(ITake %s)' % zl(sp[1]))
        return '(OSel %d %d %s)' % (r, op[2], ix)
    if k == 'wread':
        return '(OWriteRead %d)' % r
    return '(OWrite %d)' % r


def _obs(op, o):
    if 'e' in o:
        return 'XErr'
    v = o['v']
    k = op[0]
    if k == 'len':
        return '(XLen %s)' % cz(v)
    if k == 'get':
        return '(XCol %s)' % _vals(v)
    if k == 'at':
        return '(XRow %s)' % _vals(v)
    if k in ('tolist', 'wread'):
        return '(XRows %s)' % clist([_vals(r) for r in v], 'list value')
    if k == 'write':
        return '(XBytes %s)' % hx(bytes.fromhex(v))
    return 'XOk'


def to_coq(case, o):
    fmt = case['fmt']
    recs = clist(['{| r_fields := %s; r_raw := %s |}' % (clist([hx(x.encode('latin1')) for x in r], 'list Z'), hx(_record_bytes(case, r)))
                  for r in case['recs']], 'rawrec')
    ok = 'steps' in o['lazy'] and 'steps' in o['eager']
    L = o['lazy'].get('steps', [])
    E = o['eager'].get('steps', [])
    prog = case['prog']
    chl = o['lazy'].get('chunk_lens', []) if ok else []
    che = o['eager'].get('chunk_lens', []) if ok else []
    return ('{| k_fmt := %s; k_header := %s; k_recs := %s; k_file := %s; k_chunked := %s; k_chunks := %s; k_chunks_eager := %s; '
            'k_prog := %s; k_lazy := %s; k_eager := %s |}' % (
                cz(TAGS.index(fmt)), hx(_header_bytes(case)), recs, hx(_file_bytes(case)),
                cbool(case.get('chunk') is not None),
                clist([zl(x) for x in chl], 'list Z'), clist([zl(x) for x in che], 'list Z'),
                clist([_op(case, p) for p in prog], 'xop'),
                clist([_obs(p, x) for p, x in zip(prog, L)], 'obs'), clist([_obs(p, x) for p, x in zip(prog, E)], 'obs')))


# ----------------------------------------------------------------------------- evidence helpers and findings
def nontrivial(case, o):
    seen = False
    for op in case['prog']:
        if op[0] in ('get', 'rep', 'tolist'):
            seen = True
        elif seen and op[0] in ('slice', 'mask', 'take', 'cat', 'write', 'at', 'sel', 'wread', 'sortby'):
            return True
    return False


def describe(case, o):
    return dict(fmt=case['fmt'], recs=case['recs'], header=case.get('header'), chunk=case.get('chunk'), prog=case['prog'],
                lazy=[('ERR ' + x['e']) if 'e' in x else (x['v'] if not isinstance(x['v'], str) or len(x['v']) < 60 else x['v'][:60] + '..')
                      for x in o['lazy'].get('steps', [])][:8])


def distribution(cases, obs):
    d = dict(formats={}, ops={}, prog_len={}, chunked=0, with_header=0, canonical_files=0, lazy_errors={}, eager_errors={})
    for c, o in zip(cases, obs):
        d['formats'][c['fmt']] = d['formats'].get(c['fmt'], 0) + 1
        d['prog_len'][str(len(c['prog']))] = d['prog_len'].get(str(len(c['prog'])), 0) + 1
        d['chunked'] += c.get('chunk') is not None
        d['with_header'] += bool(c.get('header'))
        d['canonical_files'] += _canonical(c)
        for op in c['prog']:
            d['ops'][op[0]] = d['ops'].get(op[0], 0) + 1
        for side, key in (('lazy', 'lazy_errors'), ('eager', 'eager_errors')):
            for x in (o or {}).get(side, {}).get('steps', []):
                if 'e' in x:
                    d[key][x['e']] = d[key].get(x['e'], 0) + 1
    return d


def _canonical(case):
    if case.get('extra_cols') or case.get('crlf'):
        return False
    for rec in case['recs']:
        for (name, kind), t in zip(FORMATS[case['fmt']]['fields'], rec):
            if kind in ('int', 'int1') and str(int(t)) != t:
                return False
        if case['fmt'] == 'sam' and rec[11] == '' and case.get('sam_tab'):
            return False          # a trailing tab before an empty tags field is not what the writers print (81bde1f)
    return case['fmt'] != 'bam'


def _strip_header(b, fmt):
    lines = b.split(b'\n')
    c = b'@' if fmt == 'sam' else b'#'
    while lines and lines[0][:1] == c and fmt not in ('fastq',):
        lines = lines[1:]
    return b'\n'.join(lines)


VCF_DEFAULT_HEADER = ('##fileformat=VCFv4.1\n' + '\t'.join('#CHROM POS ID REF ALT QUAL FILTER INFO FORMAT'.split()) + '\n').encode()


def _header_lost(case, lazy_hex, eager_hex):
    """Exactly the listed failure mode: lazy = file header + body, eager = the same body without it
    (headerless VCF: lazy = body, eager = default VCF header + body)."""
    lz, eg = bytes.fromhex(lazy_hex), bytes.fromhex(eager_hex)
    hdr = case.get('header', '').encode('latin1')
    if hdr and lz.startswith(hdr):
        body = lz[len(hdr):]
        return eg == body or (case['fmt'] == 'vcf' and eg == VCF_DEFAULT_HEADER + body)
    if not hdr and case['fmt'] == 'vcf':
        return eg == VCF_DEFAULT_HEADER + lz
    return False


def _explain_steps(case, o):
    """[(step, finding id or None)] for every step where the lazy and the eager run differ.  A step is attributed
    to a finding only when the observation is exactly that finding's failure mode (which side fails, with which
    exception, or which bytes differ); anything else stays unexplained."""
    fmt = case['fmt']
    fields = FORMATS[fmt]['fields']
    ragged = any(k == 'str' for _, k in fields)
    if 'steps' not in o.get('lazy', {}) or 'steps' not in o.get('eager', {}):
        return [(-1, None)]
    L, E = o['lazy']['steps'], o['eager']['steps']
    canon = _canonical(case)
    regs = [_Sym(len(case['recs'])), _Sym(len(case['recs']))]
    if case.get('chunk') is not None and fmt in NOCONCAT:
        regs[0].kind = regs[1].kind = 'eager'
    ectx = [case.get('chunk') is None and fmt != 'bam'] * 2      # the EAGER register has the file's header context (a BAM table never)
    out = []
    for i, op in enumerate(case['prog']):
        k, r = op[0], op[1]
        a, b = L[i], E[i]
        if k in ('slice', 'mask', 'take', 'sel', 'cat', 'rep', 'sortby') and 'e' not in b:
            ectx[r] = False
        if k == 'cat' and a != b:
            out.append((i, None))
            continue           # one register keeps its old content: bookkeeping unchanged
        diff = (a != b)
        if k == 'write' and 'v' in a and 'v' in b and not canon:
            diff = False
        if diff and k != 'cat':
            why = None
            if k in ('wread', 'write') and fmt == 'bam' and 'v' in a and b.get('e') == 'KeyError' and not ectx[r]:
                # BamBuffer.make_header reads the header context, which a derived eager table has lost
                why = 'C05-header-lost-on-derived-eager-table'
            elif k == 'at' and ragged and sorted([a.get('e', 'value'), b.get('e', 'value')]) == ['TypeError', 'value']:
                why = 'C05-int-index-ragged-column'
            elif k == 'write' and 'v' in a and 'v' in b and _header_lost(case, a['v'], b['v']):
                why = 'C05-header-lost-on-derived-eager-table'
            out.append((i, why))
        if 'e' not in a:
            _sym_apply(fmt, regs, op)
    return out


def finding(case, o):
    ex = _explain_steps(case, o)
    if ex and all(w for _, w in ex):
        return ex[0][1]
    return None


def signature(case, o):
    ex = [(i, w) for i, w in _explain_steps(case, o) if not w]
    if not ex or ex[0][0] < 0:
        return 'load' if ex else 'anchor:' + case['fmt']
    i = ex[0][0]
    a, b = o['lazy']['steps'][i], o['eager']['steps'][i]
    return '%s:%s:lazy=%s:eager=%s' % (case['fmt'], case['prog'][i][0], a.get('e', 'value'), b.get('e', 'value'))


def explain(case, o):
    ex = _explain_steps(case, o)
    steps = []
    for i, w in ex:
        if i >= 0:
            steps.append(dict(step=i, op=case['prog'][i][:3], lazy=o['lazy']['steps'][i], eager=o['eager']['steps'][i], explained_by=w))
    return dict(file=_file_bytes(case).decode('latin1'), differing_steps=steps,
                replay='bnp.open(path, lazy=True) vs lazy=False, then the steps of "prog" on two registers both holding the read table')

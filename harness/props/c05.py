"""C05 — lazy and eager reading are observationally equivalent.

A case is a file (format + per-record raw field texts + header/eol/extra-column decoration), a read mode (whole /
chunked with a minimum chunk size) and a register program over two registers, both initialised by reading the file.
observe() runs the same program on tables read with lazy=True and with lazy=False and records every step of both.
"""
import os
import random
import shutil
import tempfile

from harness.lib import hx, zl, cz, cbool, clist

ID = 'C05'
RULE = ('files of BED3/BED6/FASTQ/two-line FASTA/VCF/SAM built from per-record field texts (canonical and non-canonical '
        'spellings, header lines, extra columns); programs of 1..7 steps over two registers drawn from {len, get f, '
        't[slice], t[mask], t[int list], t[i], concatenate, replace(f=array), tolist, write} x {whole read, chunked read}; '
        'non-trivial = the program has an index, concatenate or write after a field access or a replace')
EXHAUSTIVE = {'quick': False, 'thorough': False}
TIE = 'correspondence (lazy three-store state machine evaluated in Coq on the same program; eager side compared with the row-list Spec)'
ASSUMPTIONS = ['written bytes are compared lazy-vs-eager only when every record of the file is canonically spelled (C04 owns pass-through of non-canonical text)',
               'BAM is not generated (no BAM encoder in this check); float columns are not generated',
               'replacement arrays have the table length and the field type (wrong-length arrays are outside the quantifier)']
PARTIAL = ['C05_refines_partial: concatenate guarded by "every operand has the same set/computed key sets" (current code takes the keys of the first operand only)',
           'C05_refines_partial: t[i] guarded to formats without ragged str columns (npstructures RaggedView2 row access raises under numpy 2)']
PER_FILE = 40

# ----------------------------------------------------------------------------- formats
# kind: 'sid' SequenceID text, 'str' ragged text, 'int' integer, 'int1' integer written +1 (VCF position), 'qual' quality text,
#       'strand' one of + - .
FORMATS = {
    'bed3': dict(suffix='.bed', fields=[('chromosome', 'sid'), ('start', 'int'), ('stop', 'int')]),
    'bed6': dict(suffix='.bed', fields=[('chromosome', 'sid'), ('start', 'int'), ('stop', 'int'), ('name', 'sid'),
                                        ('score', 'int'), ('strand', 'strand')]),
    'fastq': dict(suffix='.fq', fields=[('name', 'sid'), ('sequence', 'str'), ('quality', 'qual')]),
    'fasta2': dict(suffix='.fa', fields=[('name', 'sid'), ('sequence', 'str')]),
    'vcf': dict(suffix='.vcf', fields=[('chromosome', 'sid'), ('position', 'int1'), ('id', 'str'), ('ref_seq', 'str'),
                                       ('alt_seq', 'str'), ('quality', 'str'), ('filter', 'str'), ('info', 'str')]),
    'sam': dict(suffix='.sam', fields=[('name', 'sid'), ('flag', 'int'), ('chromosome', 'sid'), ('position', 'int'),
                                       ('mapq', 'int'), ('cigar', 'str'), ('next_chromosome', 'str'),
                                       ('next_position', 'int'), ('length', 'int'), ('sequence', 'str'),
                                       ('quality', 'str'), ('extra', 'str')]),
}
FMT_ORDER = ['bed3', 'bed6', 'fastq', 'fasta2', 'vcf', 'sam']
KIND_CODE = {'sid': 0, 'str': 0, 'strand': 0, 'qual': 0, 'int': 1, 'int1': 2}   # Coq: KStr | KInt 0 | KInt (-1)


def _buffer_type(fmt):
    import bionumpy as bnp
    from bionumpy.io.delimited_buffers import Bed6Buffer
    return {'bed6': Bed6Buffer, 'fasta2': bnp.TwoLineFastaBuffer}.get(fmt)


def _record_bytes(case, rec):
    """Raw bytes of one record (the generator's ground truth of the file layout)."""
    fmt = case['fmt']
    eol = b'\r\n' if case.get('crlf') else b'\n'
    f = [x.encode('latin1') for x in rec]
    if fmt == 'fastq':
        return b'@' + f[0] + eol + f[1] + eol + b'+' + eol + f[2] + eol
    if fmt == 'fasta2':
        return b'>' + f[0] + eol + f[1] + eol
    if fmt == 'sam':
        # the 12th dataclass field is "everything after column 11"; an empty extra means 11 columns
        cols = f[:11] + ([f[11]] if f[11] else [])
        return b'\t'.join(cols) + eol
    return b'\t'.join(f + [x.encode('latin1') for x in case.get('extra_cols', [])]) + eol


def _file_bytes(case):
    return case.get('header', '').encode('latin1') + b''.join(_record_bytes(case, r) for r in case['recs'])


# ----------------------------------------------------------------------------- implementation side
def _cell(kind, x):
    import numpy as np
    if kind in ('int', 'int1'):
        return int(np.asarray(x).ravel()[0]) if np.ndim(x) else int(x)
    if kind == 'qual':
        return bytes((np.asarray(x, dtype=np.int64) + 33).astype(np.uint8).tolist()).hex()
    if hasattr(x, 'to_string'):
        return x.to_string().encode('latin1').hex()
    if isinstance(x, bytes):
        return x.hex()
    return str(x).encode('latin1').hex()


def _column(kind, col):
    import numpy as np
    if kind in ('int', 'int1'):
        return [int(v) for v in np.asarray(col).ravel()]
    if kind == 'qual':
        return [bytes((np.asarray(r, dtype=np.int64) + 33).astype(np.uint8).tolist()).hex() for r in col.tolist()]
    out = []
    for v in col.tolist():
        if isinstance(v, bytes):
            out.append(v.hex())
        else:
            out.append(str(v).encode('latin1').hex())
    return out


def _rows_from_tolist(fields, lst):
    out = []
    for e in lst:
        row = []
        for name, kind in fields:
            v = getattr(e, name)
            if kind in ('int', 'int1'):
                row.append(int(v))
            elif kind == 'qual':
                row.append(bytes([int(q) + 33 for q in v]).hex())
            else:
                row.append((v if isinstance(v, str) else str(v)).encode('latin1').hex())
        out.append(row)
    return out


def _new_values(kind, vals):
    import numpy as np
    import bionumpy as bnp
    if kind in ('int', 'int1'):
        return np.array(vals, dtype=int)
    if kind == 'qual':
        from npstructures import RaggedArray
        return RaggedArray([[ord(c) - 33 for c in v] for v in vals]) if vals else RaggedArray([], [])
    if kind == 'strand':
        from bionumpy.encodings import StrandEncoding
        return bnp.as_encoded_array(''.join(vals), StrandEncoding)
    return bnp.as_encoded_array(list(vals))


def _run_mode(case, path, d, lazy):
    import numpy as np
    import bionumpy as bnp
    fmt = case['fmt']
    fields = FORMATS[fmt]['fields']
    bt = _buffer_type(fmt)
    steps = []
    chunk_lens = []

    def load():
        if case.get('chunk') is None:
            return bnp.open(path, buffer_type=bt, lazy=lazy).read()
        chunks = list(bnp.open(path, buffer_type=bt, lazy=lazy).read_chunks(min_chunk_size=case['chunk']))
        chunk_lens.append([len(c) for c in chunks])
        return np.concatenate(chunks)
    try:
        regs = [load(), load()]
    except Exception as e:
        return dict(load_error=type(e).__name__ + ':' + str(e)[:100])
    for n, op in enumerate(case['prog']):
        k, r = op[0], op[1]
        try:
            t = regs[r]
            if k == 'len':
                o = {'v': int(len(t))}
            elif k == 'get':
                name, kind = fields[op[2]]
                o = {'v': _column(kind, getattr(t, name))}
            elif k == 'slice':
                regs[r] = t[slice(op[2], op[3], op[4])]
                o = {'v': 'ok'}
            elif k == 'mask':
                regs[r] = t[np.array(op[2], dtype=bool)]
                o = {'v': 'ok'}
            elif k == 'take':
                regs[r] = t[np.array(op[2], dtype=int)] if op[2] else t[np.array([], dtype=int)]
                o = {'v': 'ok'}
            elif k == 'at':
                e = t[op[2]]
                o = {'v': [_cell(kind, getattr(e, name)) for name, kind in fields]}
            elif k == 'cat':
                regs[r] = np.concatenate([regs[j] for j in op[2]])
                o = {'v': 'ok'}
            elif k == 'rep':
                name, kind = fields[op[2]]
                regs[r] = bnp.replace(t, **{name: _new_values(kind, op[3])})
                o = {'v': 'ok'}
            elif k == 'tolist':
                o = {'v': _rows_from_tolist(fields, t.tolist())}
            elif k == 'write':
                out = os.path.join(d, 'out_%d_%d%s' % (int(lazy), n, FORMATS[fmt]['suffix']))
                with bnp.open(out, 'w', buffer_type=bt) as f:
                    f.write(t)
                o = {'v': open(out, 'rb').read().hex()}
            else:
                raise RuntimeError('unknown op ' + k)
        except Exception as e:
            o = {'e': type(e).__name__}
        steps.append(o)
    return dict(steps=steps, chunk_lens=chunk_lens)


def observe(case):
    d = tempfile.mkdtemp(prefix='c05_')
    try:
        path = os.path.join(d, 'in' + FORMATS[case['fmt']]['suffix'])
        open(path, 'wb').write(_file_bytes(case))
        return dict(lazy=_run_mode(case, path, d, True), eager=_run_mode(case, path, d, False))
    finally:
        shutil.rmtree(d, ignore_errors=True)

"""C11 — streamed evaluation equals in-memory evaluation for every chunking."""
import itertools
import random

from harness.lib import zl, cz, cbool, clist

ID = 'C11'
RULE = ('flat cases: a data set of n sorted entries (group key, start, DNA sequence) cut into consecutive non-empty chunks '
        '(all 2^(n-1) cuts for every n <= 7 in quick and every n <= 10 in thorough, sampled cut sets for n up to 40, plus streams with an '
        'EMPTY chunk at the start / middle / end); on every chunking: chunk_entries / chunk_lines for '
        'several n, sum_and_n / mean / bincount / histogram (explicit bins+range) / count_kmers (k=1,2,3) on the stream, and '
        'groupby on four kinds of key column (StringArray, EncodedRaggedArray, int, StringEncoding-encoded). genome cases: '
        'genomes of 1..4 chromosomes, chunked interval streams through Genome.get_intervals(stream) and bnp.compute for '
        'pileup, mask, pileup sum, histogram, (histogram,sum), values under windows, and mean(axis=0) / sum(axis=0) / sum(axis=-1) / np.sum of '
        'those (every sum as function and as method, axis as keyword, positional or absent; layouts with chromosomes without windows and windows of unequal length built on purpose); values under STRANDED windows (strand symbols + - . , a . or + window placed over a non-palindromic signal) and their '
        'mean(axis=0); arithmetic on the streamed pileup (30 expressions: - ** // % and comparisons with the plain value on the left '
        'and on the right, node-with-node in both orders) queried by get_data / sum / histogram / values under windows; '
        'windows around the interval starts in every keyword form (get_windows(flank=0..3), get_windows(window_size=1..6), odd and even): '
        'the windows, the values under them, their mean(axis=0); keyword/positional forms of bincount(minlength=), histogram(bins=edges | '
        'bins, range positional | keywords), mean(axis=None|0|1), count_kmers(k=, axis=None), merged(distance=), clip(), '
        'get_location(where=) compared streamed vs in-memory; ONE data set whose single chunk holds 1,100,015 k-mers (k=1, run-length '
        'encoded reads) in two chunkings, as one chunk and in memory; get_reverse_complement as a streamable function without reduction. '
        'non-trivial = more than one chunk and some cut falls inside a group (flat) / inside a chromosome (genome)')
EXHAUSTIVE = {'quick': False, 'thorough': False}
TIE = ('translator+correspondence: translate/gen_c11.py regenerates the loop conditions, slice bounds, counter updates, '
       'component-wise additions, change-point comparison, shortcut test, group bounds and buffer-index tests from the source '
       '(Gen/C11.v), Bridge/C11.v proves them equal to the model kernels (theorem C11_source_tie); chunk_entries, chunk_lines, the streamable reductions, groupby+join_groupbys, iter_chromosomes walk and '
       'the computation-graph pull machine are evaluated inside Coq on the same chunking as the library')
ASSUMPTIONS = ['keyword-form sweep (case kind kw): merged / clip / get_location belong to C08/C10; there the check only compares the '
               'streamed with the in-memory observation (no model side)',
               'the size-threshold case is evaluated by Coq on the expanded 1.1-million-element list (about 1 s per evaluation)',
               'arithmetic on tracks: intermediate GenomicArrayNodes each create an own chromosome-name stream node; the model keeps one '
               '(node 6) — it only feeds get_data with the chromosome name',
               'np.histogram with integer data and exactly representable edges (bins divides hi-lo, or bins a power of two) '
               'bins by floor((x-lo)*bins/(hi-lo)) with the last edge inclusive (checked against the library on every case)',
               'per-chromosome operations (pileup, mask, slicing a track) are modelled by their dense meaning; their RLE '
               'algorithms are the subject of C08/C09',
               'count_kmers is exercised for k in {1,2,3} (k=1 since the window-of-one repair recorded under C13)',
               'floats (mean, histogram edges) are compared as exact rationals: streamed == in-memory, and within 2^-52 '
               'relative of the exact quotient']
PARTIAL = ['pipeline_guard in C11_pipeline_spec is True for every pipeline of the current code (np.sum / sum(axis=0) / sum(axis=-1) of the '
           'values under windows are stated without guard in C11_pipeline_sum_spec since fix-3); it is non-trivial only for the two '
           'history constructors PValuesSumPinned / PValuesSum0Pinned that keep reductions_map[np.sum] = operator.add as it was '
           '(C11_pipeline_sum_refuted), like C11_pipeline_spec_pinned / C11_pipeline_mean_refuted for the pinned mean_reduction',
           'C11_rechunk_partial / C11_rechunk_refuted speak about chunk_entries_pinned (the `if` of the pinned commit); the current '
           'code is covered by the full C11_rechunk_fixed']
PER_FILE = 24
TAGS = ['a', 'b', 'ab', 'ac', 'abc', 'bb', 'c', 'ca', 'abcd', 'd', 'e', 'f', 'g']
DNA = 'ACGT'
HISTS = [(4, 0, 8), (3, 1, 10), (2, 0, 5)]
# arithmetic on the streamed pileup p: terms ['track'] | ['const', c] | [op, left, right]; operand order is part of the term
_P, _C = ['track'], (lambda c: ['const', c])
EXPRS = [
    ['sub', _C(10), _P], ['sub', _P, _C(10)], ['pow', _C(3), _P], ['pow', _P, _C(2)],
    ['floordiv', _P, _C(2)], ['floordiv', _C(7), ['add', _P, _C(1)]], ['mod', _P, _C(2)], ['mod', _C(7), ['add', _P, _C(1)]],
    ['gt', _C(2), _P], ['gt', _P, _C(2)], ['lt', _C(1), _P], ['lt', _P, _C(1)], ['ge', _C(1), _P], ['ge', _P, _C(1)],
    ['le', _C(2), _P], ['le', _P, _C(2)], ['eq', _C(1), _P], ['eq', _P, _C(1)], ['ne', _C(1), _P], ['ne', _P, _C(0)],
    ['sub', ['add', _P, _C(3)], ['mul', _P, _C(2)]], ['sub', ['mul', _P, _C(2)], ['add', _P, _C(3)]],
    ['mul', ['sub', _C(1), _P], _P], ['sub', _P, ['mul', _P, _P]], ['add', _C(1), _P], ['mul', _C(2), _P],
    ['sub', ['mul', _C(2), _C(3)], _P], ['floordiv', ['sub', _C(0), _P], _C(2)], ['mod', ['sub', _C(1), _P], _C(3)],
    ['sub', ['gt', _P, _C(1)], ['mul', _C(2), _P]],
]
COMPARISONS = ('gt', 'lt', 'ge', 'le', 'eq', 'ne')
EXPR_HIST = (4, -2, 6)
# call forms of the sums of the values x under the windows (np is passed in so that the table can live at module level)
SUM_FORMS = {
    'sumall': lambda np, x: np.sum(x), 'sumall_m': lambda np, x: x.sum(), 'sumall_k': lambda np, x: np.sum(x, axis=None),
    'sum0': lambda np, x: x.sum(axis=0), 'sum0_np': lambda np, x: np.sum(x, axis=0), 'sum0_pos': lambda np, x: np.sum(x, 0),
    'sum1': lambda np, x: x.sum(axis=-1), 'sum1_np': lambda np, x: np.sum(x, axis=-1), 'sum1_pos': lambda np, x: np.sum(x, -1),
}
SUM_PIPE = dict(sumall='PValuesSum', sum0='PValuesSum0', sum1='PValuesSum1')
WARGS = [['flank', 0], ['flank', 1], ['flank', 2], ['flank', 3], ['window_size', 1], ['window_size', 2], ['window_size', 3],
         ['window_size', 4], ['window_size', 5], ['window_size', 6]]


# ----------------------------------------------------------------------------- generation
def compositions(n):
    """all ways of cutting n entries into consecutive non-empty chunks, as size lists"""
    out = []
    for mask in range(1 << (n - 1)):
        sizes, cur = [], 1
        for i in range(n - 1):
            if mask >> i & 1:
                sizes.append(cur)
                cur = 1
            else:
                cur += 1
        sizes.append(cur)
        out.append(sizes)
    return out


def random_composition(rng, n, p):
    sizes, cur = [], 1
    for _ in range(n - 1):
        if rng.random() < p:
            sizes.append(cur)
            cur = 1
        else:
            cur += 1
    sizes.append(cur)
    return sizes


def _dataset(rng, n):
    ngroups = rng.randint(1, max(1, min(n, 4)))
    gids = sorted(rng.sample(range(len(TAGS)), ngroups))
    keys = sorted(rng.choice(gids) for _ in range(n))
    entries = []
    for g in keys:
        entries.append([g, rng.randint(0, 11), ''.join(rng.choice(DNA) for _ in range(rng.choice([1, 2, 3, 4, 5, 6])))])
    # sorted entries: by key, then start
    entries.sort(key=lambda e: (e[0], e[1]))
    return entries


def _rechunk_ns(n):
    return sorted(set(x for x in (1, 2, 3, n - 1, n, n + 1) if x >= 1))[:6] if n <= 12 else [1, 2, 3, 7, n]


def _flat(entries, sizes):
    return dict(kind='flat', entries=entries, sizes=sizes)


def _rechunk(sizes):
    return dict(kind='rechunk', sizes=sizes, ns=_rechunk_ns(sum(sizes)))


def _genome_data(rng, nchrom, equal_windows):
    sizes = [rng.randint(5, 12) for _ in range(nchrom)]

    def ivs(maxper, fixed_len=None):
        out = []
        for c, s in enumerate(sizes):
            k = rng.choice([0, 1, 1, 2, 3][:maxper + 2])
            per = []
            for _ in range(k):
                if fixed_len:
                    a = rng.randint(0, s - fixed_len)
                    per.append((a, a + fixed_len))
                else:
                    a = rng.randint(0, s - 1)
                    per.append((a, rng.randint(a + 1, s)))
            out += [[c, a, b] for a, b in sorted(per)]
        return out
    a = ivs(3)
    while not a:
        a = ivs(3)
    b = ivs(2, fixed_len=rng.randint(1, 4) if equal_windows else None)
    while not b:
        b = ivs(2, fixed_len=rng.randint(1, 4) if equal_windows else None)
    return sizes, a, b


def _cov_slice(a, c, x, y):
    return [sum(1 for cc, s, e in a if cc == c and s <= p < e) for p in range(x, y)]


def _gen(sizes, a, b, sa, sb, kind='gen'):
    return dict(kind=kind, sizes=sizes, a=a, b=b, sa=sa, sb=sb, hist=[3, 0, 3])


def _n_of(c):
    if c['kind'] == 'big':
        return 3
    if c['kind'] in ('flat', 'kw'):
        return len(c['entries'])
    return sum(c['sizes']) if c['kind'] == 'rechunk' else len(c['a'])


def generate(tier, seed):
    rng = random.Random(seed * 104729 + 11)
    cases = []
    quick = tier == 'quick'
    # --- flat: exhaustive chunkings of small data sets
    max_exh = 7 if quick else 10
    for n in range(1, max_exh + 1):
        for rep in range(1 if quick else 3):
            ds = _dataset(rng, n)
            for sizes in compositions(n):
                cases.append(_flat(ds, sizes))
                if rep == 0:
                    cases.append(_rechunk(sizes))
    # --- flat: n = 8..10 (quick) sampled cut sets incl. the boundary classes
    for n in ([8, 9, 10] if quick else []):
        ds = _dataset(rng, n)
        chosen = [[n], [1] * n, [n - 1, 1], [1, n - 1]]
        chosen += [random_composition(rng, n, p) for p in (0.2, 0.5, 0.8) for _ in range(8)]
        for sizes in chosen:
            cases.append(_flat(ds, sizes))
            cases.append(_rechunk(sizes))
    # --- an empty chunk somewhere in the stream (first, middle, last, two in a row)
    for n in (1, 2, 4, 6):
        ds = _dataset(rng, n)
        for base in ([n], [1] * n, random_composition(rng, n, 0.5)):
            for pos in sorted(set([0, len(base) // 2, len(base)])):
                sizes = base[:pos] + [0] + base[pos:]
                cases.append(_flat(ds, sizes))
                cases.append(_rechunk(sizes))
            cases.append(_flat(ds, [0, 0] + base))
    # --- flat: larger n, sampled
    for _ in range(12 if quick else 150):
        n = rng.randint(11, 40)
        ds = _dataset(rng, n)
        for p in (0.1, 0.5):
            cases.append(_flat(ds, random_composition(rng, n, p)))
            cases.append(_rechunk(random_composition(rng, n, p)))
        cases.append(_flat(ds, [n]))
        cases.append(_rechunk([n]))
    # --- genome pipelines
    for nchrom in (1, 2, 3, 4):
        for rep in range(3 if quick else 18):
            equal = rep % 3 != 2
            sizes, a, b = _genome_data(rng, nchrom, equal)
            comps_a = compositions(len(a)) if len(a) <= (4 if quick else 7) else \
                [[len(a)], [1] * len(a)] + [random_composition(rng, len(a), 0.5) for _ in range(10 if quick else 40)]
            for i, sa in enumerate(comps_a):
                sb = [len(b)] if i % 3 == 0 else ([1] * len(b) if i % 3 == 1 else random_composition(rng, len(b), 0.5))
                cases.append(_gen(sizes, a, b, sa, sb))
                for kind in ('genmean', 'gensum', 'gensum0', 'gensum1'):
                    cases.append(_gen(sizes, a, b, sa, sb, kind=kind))
                if i % 2 == 0 or not quick:
                    # stranded windows: the windows of b with a strand symbol each ('.' included), same chunking
                    strands = [rng.choice('+-.') for _ in b]
                    # a '.' (and a '+') window over a signal that is not its own mirror image, whenever one exists
                    asym = [j for j, (c, x, y) in enumerate(b) if _cov_slice(a, c, x, y) != _cov_slice(a, c, x, y)[::-1]]
                    if asym:
                        strands[asym[i % len(asym)]] = '.'
                        if len(asym) > 1:
                            strands[asym[(i + 1) % len(asym)]] = '+-'[i % 2]
                    c = _gen(sizes, a, b, sa, sb, kind='genstrand' if i % 4 else 'genstrandmean')
                    c['strands'] = strands
                    cases.append(c)
                    c = _gen(sizes, a, b, sa, sb, kind='genexpr')
                    c['exprs'] = [EXPRS[(len(cases) + 5 * j) % len(EXPRS)] for j in range(4)]
                    cases.append(c)
                    # windows around the interval starts, in every keyword form (flank=, window_size= odd and even)
                    c = _gen(sizes, a, b, sa, sb, kind='genwin')
                    c['wargs'] = [WARGS[(len(cases) + 3 * j) % len(WARGS)] for j in range(3)]
                    cases.append(c)
    # --- the layouts on which the reductions of np.sum used to fail, built on purpose: windows only on the first / the last /
    #     the outer chromosomes, the longest window on a later / an earlier chromosome, one window per chromosome
    a3 = [[0, 1, 5], [1, 2, 6], [1, 3, 7], [2, 0, 4]]
    for b3 in ([[0, 1, 3], [0, 0, 4]], [[2, 1, 3], [2, 0, 4]], [[0, 1, 3], [2, 0, 5]], [[1, 2, 6]],
               [[0, 2, 3], [1, 1, 4], [2, 0, 6]], [[0, 0, 6], [1, 1, 4], [2, 2, 3]], [[0, 1, 3], [1, 2, 4], [2, 0, 2]],
               [[0, 0, 2], [0, 1, 6], [1, 2, 3], [2, 0, 5], [2, 1, 2]]):
        for sa, sb in (([4], [len(b3)]), ([1, 1, 1, 1], [1] * len(b3)), ([2, 2], random_composition(rng, len(b3), 0.5))):
            for kind in ('genmean', 'gensum', 'gensum0', 'gensum1'):
                cases.append(_gen([8, 8, 6], a3, b3, sa, sb, kind=kind))
    # small cases first
    # --- keyword forms of the flat reductions and of the streamed interval operations (observation equality)
    for rep in range(3 if quick else 20):
        n = rng.randint(3, 9)
        ds = _dataset(rng, n)
        sizes_, a_, b_ = _genome_data(rng, rng.randint(1, 4), True)
        cases.append(dict(kind='kw', entries=ds, sizes=random_composition(rng, n, 0.5), gsizes=sizes_, a=a_,
                          sa=random_composition(rng, len(a_), 0.5)))
    # --- ONE data set with a chunk of more than 10^6 k-mers (k = 1): run-length encoded reads, two chunkings
    big_reads = [[[0, 400000], [1, 300000]], [[2, 250000], [3, 150003]], [[0, 1], [1, 1], [2, 1], [3, 1]] * 3]
    cases.append(dict(kind='big', reads=big_reads, sizes=[1, 1, 1]))          # every chunk below the block size
    cases.append(dict(kind='big', reads=big_reads, sizes=[2, 1]))             # first chunk 1,100,003 values
    order = dict(rechunk=0, flat=1, kw=1, big=1, gen=2, genmean=3, gensum=4, gensum0=5, gensum1=5, genstrand=6, genstrandmean=7, genexpr=8, genwin=9)
    cases.sort(key=lambda c: (order[c['kind']], _n_of(c), len(c['sa'] if 'sa' in c else c['sizes'])))
    return cases


# ----------------------------------------------------------------------------- observation
def _cut(obj, sizes):
    out, pos = [], 0
    for s in sizes:
        out.append(obj[pos:pos + s])
        pos += s
    return out


def _ratio(x):
    x = float(x)
    if x != x or x in (float('inf'), float('-inf')):
        return None
    p, q = x.as_integer_ratio()
    return [p, q]


def _err(e):
    return {'error': type(e).__name__, 'msg': str(e)[:120]}


def _observe_flat(case):
    import numpy as np
    import bionumpy as bnp
    from bionumpy.bnpdataclass import bnpdataclass
    from bionumpy.typing import SequenceID
    from bionumpy.streams import NpDataclassStream, groupby
    from bionumpy.streams.chunk_entries import chunk_entries
    from bionumpy.streams import reductions
    from bionumpy.io.parser import chunk_lines
    from bionumpy.sequence import count_kmers
    from bionumpy.datatypes import Interval
    from bionumpy.encodings.string_encodings import StringEncoding

    @bnpdataclass
    class Entry:
        chromosome: SequenceID
        start: int
        uid: int
        tag: str
        ikey: int
        sequence: str

    ents = case['entries']
    n = len(ents)
    def make(es, uids):
        return Entry(['chr%d' % e[0] for e in es], [e[1] for e in es], list(uids),
                     [TAGS[e[0]] for e in es], [e[0] for e in es], [e[2] for e in es])
    allrows = make(ents, range(n))
    labels = ['chr%d' % g for g in sorted(set(e[0] for e in ents), reverse=True)]   # code order != data order
    enc = StringEncoding(labels)
    allenc = Interval(enc.encode(['chr%d' % e[0] for e in ents]), list(range(n)), list(range(1, n + 1)))

    def stream(obj=allrows, cls=Entry):
        return NpDataclassStream(iter(_cut(obj, case['sizes'])), dataclass=cls)

    def guard(f):
        try:
            return f()
        except Exception as e:  # an exception is an observation: no spec accepts it
            return _err(e)
    out = {}
    out['sum_n'] = guard(lambda: [int(x) for x in reductions.sum_and_n(stream().start)])
    out['mean'] = guard(lambda: [_ratio(x) for x in np.atleast_1d(bnp.mean(stream().start))])
    out['mean_mem'] = guard(lambda: [_ratio(x) for x in np.atleast_1d(np.mean(allrows.start))])
    out['bincount'] = guard(lambda: [int(x) for x in bnp.bincount(stream().start)])

    def hist(k, lo, hi):
        h, e = bnp.histogram(stream().start, bins=k, range=(lo, hi))
        return [[int(x) for x in h], [_ratio(x) for x in e]]
    out['hist'] = [[k, lo, hi, guard(lambda: hist(k, lo, hi))] for k, lo, hi in HISTS]
    out['kmers'] = [[k, guard(lambda: [int(x) for x in count_kmers(stream().sequence, k).counts])] for k in (1, 2, 3)]

    out['revcomp'] = guard(lambda: [[[DNA.index(ch) for ch in row.to_string()] for row in chunk]
                                    for chunk in bnp.sequence.get_reverse_complement(stream().sequence)])

    def groups(field, obj=allrows, cls=Entry, fld='uid', fresh=False):
        res = []
        st = stream(obj, cls)
        if fresh:
            # chunks built from lists instead of slices of one table: indexing row -1 of a *sliced* ragged column raises
            # TypeError inside npstructures 0.2.19 (see notes/C11.md, "seen outside the anchored code")
            parts = _cut(list(range(n)), case['sizes'])
            st = NpDataclassStream(iter([make([ents[i] for i in p], p) for p in parts]), dataclass=Entry)
        for key, g in groupby(st, field):
            res.append([str(key), getattr(g, fld).tolist()])
        return res
    out['groups'] = [
        ['chromosome', False, guard(lambda: groups('chromosome'))],
        ['tag', True, guard(lambda: groups('tag', fresh=True))],
        ['ikey', False, guard(lambda: groups('ikey'))],
        ['encoded', True, guard(lambda: groups('chromosome', allenc, Interval, 'start'))],
    ]
    return out


def _observe_rechunk(case):
    import numpy as np
    from bionumpy.streams import NpDataclassStream
    from bionumpy.streams.chunk_entries import chunk_entries
    from bionumpy.io.parser import chunk_lines
    from bionumpy.datatypes import Interval
    n = sum(case['sizes'])
    table = Interval(['chr1'] * n, list(range(n)), list(range(1, n + 1)))
    out = {'entries': [], 'lines': []}
    for ne in case['ns']:
        for key, f in (('entries', lambda: chunk_entries(NpDataclassStream(iter(_cut(table, case['sizes'])), dataclass=Interval), ne)),
                       ('lines', lambda: chunk_lines(iter(_cut(table, case['sizes'])), ne))):
            try:
                out[key].append([ne, [c.start.tolist() for c in f()]])
            except Exception as e:
                out[key].append([ne, _err(e)])
    return out


def _observe_gen(case):
    import numpy as np
    import bionumpy as bnp
    from bionumpy.streams import NpDataclassStream
    from bionumpy.datatypes import Interval
    sizes = case['sizes']
    names = ['chr%d' % (i + 1) for i in range(len(sizes))]
    idx = {n: i for i, n in enumerate(names)}
    genome = bnp.Genome.from_dict(dict(zip(names, sizes)))

    def table(rows):
        return Interval([names[c] for c, _, _ in rows], [a for _, a, _ in rows], [b for _, _, b in rows])
    ta, tb = table(case['a']), table(case['b'])
    k, lo, hi = case['hist']

    def sa():
        return genome.get_intervals(NpDataclassStream(iter(_cut(ta, case['sa'])), dataclass=Interval))

    def sb():
        return genome.get_intervals(NpDataclassStream(iter(_cut(tb, case['sb'])), dataclass=Interval))
    ma, mb = genome.get_intervals(ta), genome.get_intervals(tb)

    def chrom_ids(col):
        return [idx[x] for x in col.tolist()]

    def track_rows(d):
        return [list(r) for r in zip(chrom_ids(d.chromosome), d.start.tolist(), d.stop.tolist(), [int(v) for v in d.value.tolist()])]

    def mask_rows(d):
        return [list(r) for r in zip(chrom_ids(d.chromosome), d.start.tolist(), d.stop.tolist())]

    def ragged(v):
        return [[int(x) for x in np.asarray(r).ravel()] for r in v]

    def ratios(v):
        return [_ratio(x) for x in np.asarray(v).ravel()]

    def ints(v):
        return [int(x) for x in np.asarray(v).ravel()]

    def hs(t):
        h, s = t
        return [[int(x) for x in h[0]], int(s)]
    pipes = [
        ('pileup', lambda: track_rows(bnp.compute(sa().get_pileup().get_data())), lambda: track_rows(ma.get_pileup().get_data())),
        ('mask', lambda: mask_rows(bnp.compute(sa().get_mask().get_data())), lambda: mask_rows(ma.get_mask().get_data())),
        ('sum', lambda: int(bnp.compute(sa().get_pileup().sum())), lambda: int(ma.get_pileup().sum())),
        ('hist', lambda: [int(x) for x in bnp.compute(np.histogram(sa().get_pileup(), bins=k, range=(lo, hi)))[0]],
         lambda: [int(x) for x in np.histogram(ma.get_pileup(), bins=k, range=(lo, hi))[0]]),
        ('hist_sum', lambda: hs(bnp.compute((lambda p: (np.histogram(p, bins=k, range=(lo, hi)), p.sum()))(sa().get_pileup()))),
         lambda: hs((lambda p: (np.histogram(p, bins=k, range=(lo, hi)), p.sum()))(ma.get_pileup()))),
        ('values', lambda: ragged(bnp.compute(sa().get_pileup()[sb()])), lambda: ragged(ma.get_pileup()[mb])),
        ('mean0', lambda: ratios(bnp.compute(sa().get_pileup()[sb()].mean(axis=0))), lambda: ratios(ma.get_pileup()[mb].mean(axis=0))),
    ]
    # np.sum of the values under the windows in every call form: function / method, axis as keyword / positional / absent
    for name, f in SUM_FORMS.items():
        pipes.append((name, (lambda f=f: ints(bnp.compute(f(np, sa().get_pileup()[sb()])))), (lambda f=f: ints(f(np, ma.get_pileup()[mb])))))
    own = dict(genmean=['mean0'], gensum=[n for n in SUM_FORMS if n.startswith('sumall')],
               gensum0=[n for n in SUM_FORMS if n.startswith('sum0')], gensum1=[n for n in SUM_FORMS if n.startswith('sum1')])
    owned = set(sum(own.values(), []))
    if case['kind'] in ('genstrand', 'genstrandmean'):
        return _observe_stranded(case, genome, names, ta, ma, sa, ragged, ratios)
    if case['kind'] == 'genwin':
        return _observe_windows(case, genome, idx, sa, ma, ragged, ratios)
    if case['kind'] == 'genexpr':
        return _observe_expr(case, genome, ta, tb, sa, sb, ma, mb, track_rows, mask_rows, ragged)
    out = {}
    for name, fs, fm in pipes:
        if (name in owned) != (case['kind'] in own) or (case['kind'] in own and name not in own[case['kind']]):
            continue
        r = []
        for f in (fs, fm):
            try:
                r.append(f())
            except Exception as e:
                r.append(_err(e))
        out[name] = r
    return out


def _observe_stranded(case, genome, names, ta, ma, sa, ragged, ratios):
    import numpy as np
    import bionumpy as bnp
    from bionumpy.streams import NpDataclassStream
    from bionumpy.datatypes import StrandedInterval
    rows = case['b']
    tw = StrandedInterval([names[c] for c, _, _ in rows], [a for _, a, _ in rows], [b for _, _, b in rows], case['strands'])

    def sw():
        return genome.get_intervals(NpDataclassStream(iter(_cut(tw, case['sb'])), dataclass=StrandedInterval), stranded=True)
    mw = genome.get_intervals(tw, stranded=True)
    if case['kind'] == 'genstrand':
        pipes = [('svalues', lambda: ragged(bnp.compute(sa().get_pileup()[sw()])), lambda: ragged(ma.get_pileup()[mw]))]
    else:
        pipes = [('smean0', lambda: ratios(bnp.compute(sa().get_pileup()[sw()].mean(axis=0))),
                  lambda: ratios(ma.get_pileup()[mw].mean(axis=0)))]
    out = {}
    for name, fs, fm in pipes:
        r = []
        for f in (fs, fm):
            try:
                r.append(f())
            except Exception as e:
                r.append(_err(e))
        out[name] = r
    return out


def _observe_windows(case, genome, idx, sa, ma, ragged, ratios):
    import numpy as np
    import bionumpy as bnp

    def iv_rows(w):
        d = w.get_data() if hasattr(w, 'get_data') else w
        ch = d.chromosome
        names_ = ch.tolist() if hasattr(ch, 'tolist') and not hasattr(ch, 'encoding') else [x.to_string() for x in ch]
        return [list(r) for r in zip([idx[str(x)] for x in names_], np.asarray(d.start).tolist(), np.asarray(d.stop).tolist())]
    out = {'wruns': []}
    for key, val in case['wargs']:
        kw = {key: val}

        def streamed(q):
            gi = sa()
            if q == 'windows':
                return iv_rows(bnp.compute(gi.get_location('start').get_windows(**kw)))
            v = gi.get_pileup()[gi.get_location('start').get_windows(**kw)]
            return ragged(bnp.compute(v)) if q == 'values' else ratios(bnp.compute(np.mean(v, axis=0)))

        def memory(q):
            w = ma.get_location('start').get_windows(**kw)
            if q == 'windows':
                return iv_rows(w)
            v = ma.get_pileup()[w]
            return ragged(v) if q == 'values' else ratios(np.mean(v, axis=0))
        for q in ('windows', 'values', 'mean0'):
            r = []
            for f in (streamed, memory):
                try:
                    r.append(f(q))
                except Exception as ex:
                    r.append(_err(ex))
            out['wruns'].append([[key, val], q, r[0], r[1]])
    return out


def _observe_big(case):
    import bionumpy as bnp
    from bionumpy.streams import NpDataclassStream
    from bionumpy.datatypes import SequenceEntry
    from bionumpy.sequence import count_kmers
    reads = [''.join(DNA[x] * n for x, n in r) for r in case['reads']]
    table = SequenceEntry(['r%d' % i for i in range(len(reads))], reads)

    def counts(sizes):
        st = NpDataclassStream(iter(_cut(table, sizes)), dataclass=SequenceEntry)
        return [int(x) for x in count_kmers(st.sequence, 1).counts]
    out = {}
    for name, f in (('stream', lambda: counts(case['sizes'])), ('single', lambda: counts([len(reads)])),
                    ('mem', lambda: [int(x) for x in count_kmers(table.sequence, 1).counts])):
        try:
            out[name] = f()
        except Exception as e:
            out[name] = _err(e)
    return out


def _observe_kw(case):
    """keyword / positional forms of the streamed operations; each item: [label, streamed, in-memory] as lists of int lists"""
    import numpy as np
    import bionumpy as bnp
    from bionumpy.streams import BnpStream, NpDataclassStream
    from bionumpy.datatypes import Interval
    from bionumpy.sequence import count_kmers
    ents = case['entries']
    x = np.array([e[1] for e in ents])
    m2 = np.array([[e[1], e[0]] for e in ents])
    seqs = bnp.as_encoded_array([e[2] for e in ents], bnp.DNAEncoding)

    def st(obj):
        return BnpStream(iter(_cut(obj, case['sizes'])))

    def fl(v):
        return [int(a) for a in np.asarray(v).ravel()]

    def rat(v):
        return [z for a in np.asarray(v, dtype=float).ravel() for z in (_ratio(a) or [0, 0])]
    sizes = case['gsizes']
    names = ['chr%d' % (i + 1) for i in range(len(sizes))]
    idx = {n: i for i, n in enumerate(names)}
    genome = bnp.Genome.from_dict(dict(zip(names, sizes)))
    ta = Interval([names[c] for c, _, _ in case['a']], [a for _, a, _ in case['a']], [b for _, _, b in case['a']])

    def sa():
        return genome.get_intervals(NpDataclassStream(iter(_cut(ta, case['sa'])), dataclass=Interval))
    ma = genome.get_intervals(ta)

    def iv_rows(w):
        d = w.get_data() if hasattr(w, 'get_data') else w
        ch = d.chromosome
        names_ = ch.tolist() if hasattr(ch, 'tolist') and not hasattr(ch, 'encoding') else [c.to_string() for c in ch]
        return [[idx[str(c)], int(a), int(b)] for c, a, b in zip(names_, np.asarray(d.start).tolist(), np.asarray(d.stop).tolist())]
    edges = [0, 2, 4, 8, 12]
    items = [
        ('bincount(minlength=15)', lambda: [fl(bnp.bincount(st(x), minlength=15))], lambda: [fl(np.bincount(x, minlength=15))]),
        ('histogram(bins=edges)', lambda: [fl(a) for a in bnp.histogram(st(x), bins=edges)], lambda: [fl(a) for a in np.histogram(x, bins=edges)]),
        ('histogram(x, 4, (0, 8))', lambda: [fl(bnp.histogram(st(x), 4, (0, 8))[0])], lambda: [fl(np.histogram(x, 4, (0, 8))[0])]),
        ('histogram(range=, bins=)', lambda: [fl(bnp.histogram(st(x), range=(1, 10), bins=3)[0])], lambda: [fl(np.histogram(x, range=(1, 10), bins=3)[0])]),
        ('mean(axis=None)', lambda: [rat(bnp.mean(st(x), axis=None))], lambda: [rat(np.mean(x, axis=None))]),
        ('mean(2-D, axis=0)', lambda: [rat(bnp.mean(st(m2), axis=0))], lambda: [rat(np.mean(m2, axis=0))]),
        ('mean(2-D, axis=1)', lambda: [rat(np.concatenate([np.atleast_1d(c) for c in bnp.mean(st(m2), axis=1)]))], lambda: [rat(np.mean(m2, axis=1))]),
        ('count_kmers(k=2)', lambda: [fl(count_kmers(st(seqs), k=2).counts)], lambda: [fl(count_kmers(seqs, k=2).counts)]),
        ('count_kmers(2, axis=None)', lambda: [fl(count_kmers(st(seqs), 2, axis=None).counts)], lambda: [fl(count_kmers(seqs, 2, axis=None).counts)]),
        ('merged()', lambda: iv_rows(bnp.compute(sa().merged())), lambda: iv_rows(ma.merged())),
        ('merged(distance=1)', lambda: iv_rows(bnp.compute(sa().merged(distance=1))), lambda: iv_rows(ma.merged(distance=1))),
        ('merged(3)', lambda: iv_rows(bnp.compute(sa().merged(3))), lambda: iv_rows(ma.merged(3))),
        ('clip()', lambda: iv_rows(bnp.compute(sa().clip())), lambda: iv_rows(ma.clip())),
        ("get_location('start').position", lambda: [fl(bnp.compute(sa().get_location('start').position))], lambda: [fl(ma.get_location('start').position)]),
        ("get_location(where='start').position", lambda: [fl(bnp.compute(sa().get_location(where='start').position))],
         lambda: [fl(ma.get_location(where='start').position)]),
    ]
    out = {'items': []}
    for label, fs, fm in items:
        r = []
        for f in (fs, fm):
            try:
                r.append(f())
            except Exception as e:
                r.append(_err(e))
        out['items'].append([label, r[0], r[1]])
    return out


def _py_eval(e, p):
    import operator
    import numpy as np
    if e[0] == 'track':
        return p
    if e[0] == 'const':
        return e[1]
    x, y = _py_eval(e[1], p), _py_eval(e[2], p)
    arith = dict(add=operator.add, sub=operator.sub, mul=operator.mul, pow=operator.pow, floordiv=operator.floordiv, mod=operator.mod)
    if e[0] in arith:
        return arith[e[0]](x, y)                       # `10 - p`: Python hands (10, p) to np.subtract in this order
    # comparisons through the ufunc itself, so that a scalar written on the left is the ufunc's first operand
    ufunc = dict(gt=np.greater, lt=np.less, ge=np.greater_equal, le=np.less_equal, eq=np.equal, ne=np.not_equal)[e[0]]
    return ufunc(x, y)


def _expr_is_bool(e):
    return e[0] in COMPARISONS


def _observe_expr(case, genome, ta, tb, sa, sb, ma, mb, track_rows, mask_rows, ragged):
    import numpy as np
    import bionumpy as bnp
    k, lo, hi = EXPR_HIST
    out = {'exprs': []}
    for e in case['exprs']:
        isb = _expr_is_bool(e)
        queries = ['track', 'values', 'sum'] + ([] if isb else ['hist'])

        def streamed(q):
            p = sa().get_pileup()
            w = sb() if q == 'values' else None
            t = _py_eval(e, p)
            if q == 'track':
                d = bnp.compute(t.get_data())
                return mask_rows(d) if isb else track_rows(d)
            if q == 'values':
                return ragged(bnp.compute(t[w]))
            if q == 'sum':
                return int(bnp.compute(t.sum()))
            return [int(x) for x in bnp.compute(np.histogram(t, bins=k, range=(lo, hi)))[0]]

        def memory(q):
            t = _py_eval(e, ma.get_pileup())
            if q == 'track':
                return mask_rows(t.get_data()) if isb else track_rows(t.get_data())
            if q == 'values':
                return ragged(t[mb])
            if q == 'sum':
                return int(t.sum())
            return [int(x) for x in np.histogram(t, bins=k, range=(lo, hi))[0]]
        for q in queries:
            r = []
            for f in (streamed, memory):
                try:
                    r.append(f(q))
                except Exception as ex:
                    r.append(_err(ex))
            out['exprs'].append([e, q, r[0], r[1]])
    return out


def observe(case):
    return dict(flat=_observe_flat, rechunk=_observe_rechunk, big=_observe_big, kw=_observe_kw).get(case['kind'], _observe_gen)(case)


# ----------------------------------------------------------------------------- python-side reference (explain / finding signature only)
def _is_err(x):
    return isinstance(x, dict) and 'error' in x


def _sizes_ok(lo, n, sizes):
    if not sizes:
        return True
    return all(s == n for s in sizes[:-1]) and lo <= sizes[-1] <= n


def _if_defect_applies(sizes, n):
    """the pinned `if`: does some incoming chunk leave n or more entries in the buffer after one yield?"""
    buf = 0
    for s in sizes:
        buf += s
        if buf >= n:
            buf -= n
            if buf >= n:
                return True
    return False


def _per_chrom_max(case):
    m = {}
    for c, a, b in case['b']:
        m[c] = max(m.get(c, 0), b - a)
    return m


def failing_components(case, o):
    """names of the observed components that are not what the property demands (coarse, Python side)"""
    bad = []
    if case['kind'] == 'flat':
        n = len(case['entries'])
        ids = list(range(n))
        starts = [e[1] for e in case['entries']]
        if o['sum_n'] != [sum(starts), n]:
            bad.append('sum_n')
        if _is_err(o['mean']) or o['mean'] != o['mean_mem']:
            bad.append('mean')
        bc = [starts.count(v) for v in range(max(starts) + 1)]
        if o['bincount'] != bc:
            bad.append('bincount')
        for k, lo, hi, h in o['hist']:
            def b(x):
                return None if x < lo or x > hi else (k - 1 if x == hi else (x - lo) * k // (hi - lo))
            bins = [b(x) for x in starts]
            if _is_err(h) or h[0] != [bins.count(i) for i in range(k)]:
                bad.append('hist')
        for k, c in o['kmers']:
            ref = [0] * 4 ** k
            for e in case['entries']:
                s = [DNA.index(ch) for ch in e[2]]
                for i in range(len(s) - k + 1):
                    ref[sum(v * 4 ** j for j, v in enumerate(s[i:i + k]))] += 1
            if c != ref:
                bad.append('kmers')
        rc = [[3 - DNA.index(ch) for ch in reversed(e[2])] for e in case['entries']]
        if _is_err(o['revcomp']) or sum(o['revcomp'], []) != rc or [len(c) for c in o['revcomp']] != case['sizes']:
            bad.append('revcomp')
        ref = [[g, [i for i, e in enumerate(case['entries']) if e[0] == g]] for g in sorted(set(e[0] for e in case['entries']))]
        for name, fast, gs in o['groups']:
            if _is_err(gs) or [x[1] for x in gs] != [x[1] for x in ref]:
                bad.append('groupby:' + name)
    elif case['kind'] == 'rechunk':
        ids = list(range(sum(case['sizes'])))
        for key, lo in (('entries', 1), ('lines', 0)):
            for ne, out in o[key]:
                if _is_err(out) or sum(out, []) != ids or not _sizes_ok(lo, ne, [len(c) for c in out]):
                    bad.append('chunk_%s' % key)
    elif case['kind'] == 'big':
        want = [sum(n for r in case['reads'] for x, n in r if x == c) for c in range(4)]
        for name in ('stream', 'single', 'mem'):
            if o[name] != want:
                bad.append('big:' + name)
    elif case['kind'] == 'kw':
        for label, s, m in o['items']:
            if _is_err(s) or _is_err(m) or s != m:
                bad.append('kw:' + label)
    elif case['kind'] == 'genwin':
        for (key, val), q, s, m in o['wruns']:
            if _is_err(s) or _is_err(m) or s != m:
                bad.append('win:%s=%s:%s' % (key, val, q))
    elif case['kind'] == 'genexpr':
        for e, q, s, m in o['exprs']:
            if _is_err(s) or _is_err(m) or s != m:
                bad.append('expr:%s:%s' % (e[0], q))
    else:
        for name, (s, m) in o.items():
            if _is_err(s) or _is_err(m) or s != m:
                bad.append(name)
    return sorted(set(bad))


def explain(case, o):
    return dict(failing_components=failing_components(case, o))


def _chrom_rows(case):
    """values under the windows, per chromosome: the ground truth the Coq spec computes too"""
    out = []
    for c, size in enumerate(case['sizes']):
        cov = [sum(1 for cc, a, b in case['a'] if cc == c and a <= p < b) for p in range(size)]
        out.append([cov[a:b] for cc, a, b in case['b'] if cc == c])
    return out


def finding(case, o):
    """no known finding is left for C11: C11-sum-values-per-window and C11-sum-axis0-ragged-columns were repaired by fix-3
    (the reduction of np.sum is chosen by its axis), their former witnesses are ordinary regression cases in corpus/C11"""
    return None


def signature(case, o):
    return case['kind'] + ':' + ','.join(failing_components(case, o))


# ----------------------------------------------------------------------------- Coq terms
def _zll(xs):
    return clist([zl(x) for x in xs], 'list Z')


def _pair(a, b):
    return '(%s, %s)' % (cz(a), cz(b))


def _rat(r):
    return _pair(0, 0) if r is None else _pair(r[0], r[1])


def _flat_to_coq(case, o):
    chunks = _cut(case['entries'], case['sizes'])
    cchunks = clist([clist(['(%s, %s, %s)' % (cz(g), cz(s), zl([DNA.index(ch) for ch in q])) for g, s, q in c]) for c in chunks],
                    'list entry')

    sum_n = [-1, -1] if _is_err(o['sum_n']) else o['sum_n']
    mean = None if _is_err(o['mean']) or len(o['mean']) != 1 else o['mean'][0]
    mean_mem = None if _is_err(o['mean_mem']) or len(o['mean_mem']) != 1 else o['mean_mem'][0]
    bincount = [-7] if _is_err(o['bincount']) else o['bincount']
    hist = []
    for k, lo, hi, h in o['hist']:
        counts, edges = ([-7], []) if _is_err(h) else h
        hist.append('(%s, %s, %s, %s, %s)' % (cz(k), cz(lo), cz(hi), zl(counts), clist([_rat(e) for e in edges], 'ratio')))
    kmers = ['(%s, %s)' % (cz(k), zl([-7] if _is_err(c) else c)) for k, c in o['kmers']]
    groups = []
    gid_of = {}
    for e in case['entries']:
        gid_of['chr%d' % e[0]] = e[0]
        gid_of[TAGS[e[0]]] = e[0]
        gid_of[str(e[0])] = e[0]
    for name, fast, gs in o['groups']:
        if _is_err(gs):
            gl = ['(%s, %s)' % (cz(-7), zl([]))]
        else:
            gl = ['(%s, %s)' % (cz(gid_of.get(key, -7) if name != 'ikey' else (int(key) if key.lstrip('-').isdigit() else -7)), zl(ids))
                  for key, ids in gs]
        groups.append('(%s, %s)' % (cbool(fast), clist(gl, '(Z * list Z)')))
    return ('CFlat {| f_chunks := %s; f_sum_n := %s; f_mean := %s; f_mean_mem := %s; '
            'f_bincount := %s; f_hist := %s; f_kmers := %s; f_revcomp := %s; f_groups := %s |}' % (
                cchunks, _pair(*sum_n), _rat(mean), _rat(mean_mem), zl(bincount),
                clist(hist, '(Z * Z * Z * list Z * list ratio)'), clist(kmers, '(Z * list Z)'),
                clist([_zll(c) for c in ([[[-7]]] if _is_err(o['revcomp']) else o['revcomp'])], 'list (list Z)'),
                clist(groups, '(bool * list (Z * list Z))')))


def _rechunk_to_coq(case, o):
    def rc(lst):
        return clist(['(%s, %s)' % (cz(ne), _zll([[-7]] if _is_err(out) else out)) for ne, out in lst], '(Z * list (list Z))')
    return 'CRechunk {| r_sizes := %s; r_entries := %s; r_lines := %s |}' % (zl(case['sizes']), rc(o['entries']), rc(o['lines']))


def _pobs(name, v):
    if _is_err(v):
        return 'OError'
    if name == 'pileup':
        return 'OTrack %s' % clist(['(%s, %s, %s, %s)' % tuple(cz(x) for x in r) for r in v], '(Z * Z * Z * Z)')
    if name == 'mask':
        return 'OMask %s' % clist(['(%s, %s, %s)' % tuple(cz(x) for x in r) for r in v], '(Z * Z * Z)')
    if name == 'sum':
        return 'OSum %s' % cz(v)
    if name == 'hist':
        return 'OHist %s' % zl(v)
    if name == 'hist_sum':
        return 'OHistSum %s %s' % (zl(v[0]), cz(v[1]))
    if name == 'values':
        return 'OValues %s' % _zll(v)
    if name in SUM_FORMS:
        return 'OList %s' % zl(v)
    if name == 'ivs':
        return 'OIvs %s' % clist(['(%s, %s, %s)' % tuple(cz(x) for x in r) for r in v], '(Z * Z * Z)')
    if name == 'mean0':
        if any(r is None for r in v):
            return 'OError'
        return 'OMean0 %s' % clist([_rat(r) for r in v], 'ratio')
    raise ValueError(name)


def _gen_to_coq(case, o):
    def chunks(rows, sizes):
        return clist([clist(['(%s, (%s, %s))' % (cz(c), cz(a), cz(b)) for c, a, b in ch]) for ch in _cut(rows, sizes)],
                     'list (Z * iv)')
    k, lo, hi = case['hist']
    pipe = dict(pileup='PPileup', mask='PMask', sum='PPileupSum', hist='(PPileupHist %s %s %s)' % (cz(k), cz(lo), cz(hi)),
                hist_sum='(PHistAndSum %s %s %s)' % (cz(k), cz(lo), cz(hi)), values='PValues', mean0='PValuesMean0',
                **{n: SUM_PIPE[n.split('_')[0]] for n in SUM_FORMS})
    runs = ['(%s, %s, %s)' % (pipe[name], _pobs(name, o[name][0]), _pobs(name, o[name][1]))
            for name in ('pileup', 'mask', 'sum', 'hist', 'hist_sum', 'values', 'mean0') + tuple(SUM_FORMS) if name in o]
    code = {'+': 0, '-': 1, '.': 2}
    wchunks, sruns, eruns = [], [], []
    if case['kind'] in ('genstrand', 'genstrandmean'):
        rows = [(c, a, b, code[st]) for (c, a, b), st in zip(case['b'], case['strands'])]
        wchunks = [clist(['(%s, ((%s, %s), %s))' % (cz(c), cz(a), cz(b), cz(st)) for c, a, b, st in ch]) for ch in _cut(rows, case['sb'])]
        for name, pn in (('svalues', 'SValues'), ('smean0', 'SValuesMean0')):
            if name in o:
                sruns.append('(%s, %s, %s)' % (pn, _pobs('values' if name == 'svalues' else 'mean0', o[name][0]),
                                               _pobs('values' if name == 'svalues' else 'mean0', o[name][1])))
    if case['kind'] == 'genexpr':
        ek, elo, ehi = EXPR_HIST
        qn = dict(track='QTrack', values='QValues', sum='QSum', hist='(QHist %s %s %s)' % (cz(ek), cz(elo), cz(ehi)))
        for e, q, st, m in o['exprs']:
            kind = dict(track='mask' if _expr_is_bool(e) else 'pileup', values='values', sum='sum', hist='hist')[q]
            eruns.append('(%s, %s, %s, %s)' % (_texpr(e), qn[q], _pobs(kind, _boolrows(st) if q == 'values' else st),
                                               _pobs(kind, _boolrows(m) if q == 'values' else m)))
    wruns = []
    if case['kind'] == 'genwin':
        for (key, val), q, st, m in o['wruns']:
            arg = '(%s %s)' % ('WFlank' if key == 'flank' else 'WSize', cz(val))
            kind = dict(windows='ivs', values='values', mean0='mean0')[q]
            wruns.append('(%s, %s, %s, %s)' % (arg, dict(windows='WWindows', values='WValues', mean0='WMean0')[q], _pobs(kind, st), _pobs(kind, m)))
    return ('CGen {| g_sizes := %s; g_a := %s; g_b := %s; g_runs := %s; g_w := %s; g_sruns := %s; g_eruns := %s; g_wruns := %s |}' % (
        zl(case['sizes']), chunks(case['a'], case['sa']), chunks(case['b'], case['sb']), clist(runs, '(pipeline * pobs * pobs)'),
        clist(wchunks, 'list (Z * swin)'), clist(sruns, '(spipeline * pobs * pobs)'), clist(eruns, '(texpr * query * pobs * pobs)'),
        clist(wruns, '(warg * wquery * pobs * pobs)')))


def _big_to_coq(case, o):
    def runs(r):
        return clist(['(%s, %s)' % (cz(x), cz(n)) for x, n in r], '(Z * Z)')
    chunks = clist([clist([runs(r) for r in ch], 'runs_t') for ch in _cut(case['reads'], case['sizes'])], 'list runs_t')
    vals = [zl([-7] if _is_err(o[k]) else o[k]) for k in ('stream', 'single', 'mem')]
    return 'CBig {| b_chunks := %s; b_stream := %s; b_single := %s; b_mem := %s |}' % (chunks, vals[0], vals[1], vals[2])


def _kw_to_coq(case, o):
    items = []
    for i, (label, s, m) in enumerate(o['items']):
        # an exception on either side is a difference: encode it as lists that cannot be equal
        items.append('(%s, %s)' % (_zll([[-7, i, 0]] if _is_err(s) else s), _zll([[-7, i, 1]] if _is_err(m) else m)))
    return 'CKw %s' % clist(items, '(list (list Z) * list (list Z))')


def _boolrows(v):
    return v if _is_err(v) else [[int(x) for x in r] for r in v]


def _texpr(e):
    if e[0] == 'track':
        return 'TTrack'
    if e[0] == 'const':
        return '(TConst %s)' % cz(e[1])
    op = dict(add='BAdd', sub='BSub', mul='BMul', pow='BPow', floordiv='BFloorDiv', mod='BMod', gt='BGt', lt='BLt', ge='BGe',
              le='BLe', eq='BEq', ne='BNe')[e[0]]
    return '(TBin %s %s %s)' % (op, _texpr(e[1]), _texpr(e[2]))


def to_coq(case, o):
    return dict(flat=_flat_to_coq, rechunk=_rechunk_to_coq, big=_big_to_coq, kw=_kw_to_coq).get(case['kind'], _gen_to_coq)(case, o)


# ----------------------------------------------------------------------------- evidence helpers
def _cut_inside_group(keys, sizes):
    pos = 0
    for s in sizes[:-1]:
        pos += s
        if 0 < pos < len(keys) and keys[pos - 1] == keys[pos]:
            return True
    return False


def nontrivial(case, o):
    if case['kind'] in ('big', 'kw'):
        return True
    if case['kind'] == 'rechunk':
        return len(case['sizes']) > 1 and any(sum(case['sizes']) % ne for ne in case['ns'])
    if case['kind'] == 'flat':
        return len(case['sizes']) > 1 and _cut_inside_group([e[0] for e in case['entries']], case['sizes'])
    return len(case['sa']) > 1 and _cut_inside_group([r[0] for r in case['a']], case['sa'])


def describe(case, o):
    if case['kind'] == 'flat':
        return dict(kind='flat', entries=case['entries'], chunk_sizes=case['sizes'],
                    sum_n=o.get('sum_n'), groups=o.get('groups'))
    if case['kind'] == 'rechunk':
        return dict(kind='rechunk', chunk_sizes=case['sizes'], chunk_entries=o.get('entries'), chunk_lines=o.get('lines'))
    if case['kind'] in ('big', 'kw'):
        return dict(kind=case['kind'], chunk_sizes=case['sizes'], observed=o)
    return dict(kind=case['kind'], chrom_sizes=case['sizes'], intervals=case['a'], windows=case['b'], chunks_a=case['sa'],
                chunks_b=case['sb'], sum=o.get('sum'), mean0=o.get('mean0'))


def distribution(cases, obs):
    d = dict(flat=0, rechunk=0, gen=0, genmean=0, gensum=0, gensum0=0, gensum1=0, genstrand=0, genstrandmean=0, genexpr=0, genwin=0, kw=0, big=0, n_entries={}, n_chunks={}, single_entry_chunks=0, cut_inside_group=0, chromosomes={},
             streamed_errors={})
    for c, o in zip(cases, obs):
        d[c['kind']] += 1
        if c['kind'] == 'flat':
            n, sizes, keys = len(c['entries']), c['sizes'], [e[0] for e in c['entries']]
        elif c['kind'] in ('big', 'kw'):
            continue
        elif c['kind'] == 'rechunk':
            n, sizes, keys = sum(c['sizes']), c['sizes'], [0] * sum(c['sizes'])
        else:
            n, sizes, keys = len(c['a']), c['sa'], [r[0] for r in c['a']]
            k = str(len(c['sizes']))
            d['chromosomes'][k] = d['chromosomes'].get(k, 0) + 1
            if isinstance(o, dict):
                for name, v in o.items():
                    if isinstance(v, list) and v and _is_err(v[0]):
                        d['streamed_errors'][name] = d['streamed_errors'].get(name, 0) + 1
        d['n_entries'][str(n)] = d['n_entries'].get(str(n), 0) + 1
        d['n_chunks'][str(len(sizes))] = d['n_chunks'].get(str(len(sizes)), 0) + 1
        d['single_entry_chunks'] += 1 in sizes
        d['cut_inside_group'] += _cut_inside_group(keys, sizes)
    return d


def search(tier, seed, disagreeing):
    """neighbourhood search: every chunking of the disagreeing data sets (bounded), plus fresh thorough-style cases"""
    out = []
    for c in disagreeing[:4]:
        if c['kind'] in ('big', 'kw'):
            continue
        if c['kind'] in ('flat', 'rechunk'):
            n = _n_of(c)
            comps = compositions(n) if n <= 9 else [random_composition(random.Random(seed + i), n, 0.5) for i in range(200)]
            out += [_flat(c['entries'], s) if c['kind'] == 'flat' else _rechunk(s) for s in comps]
        else:
            n = len(c['a'])
            comps = compositions(n) if n <= 8 else [[n], [1] * n]
            out += [dict(c, sa=s) for s in comps]
    return out[:1500]

"""C16 — BAM records decode to the values the BAM specification defines."""
import gzip
import os
import random
import shutil
import struct
import tempfile
import zlib

from harness.lib import zl, cz, cbool, clist
from harness.lib import hx as _hx1


def hx(b):
    """bytes -> Coq list Z; long strings are split so that no single string literal exceeds 4 kB"""
    b = bytes(b)
    if len(b) <= 4096:
        return _hx1(b)
    return '(' + ' ++ '.join(_hx1(b[i:i + 4096]) for i in range(0, len(b), 4096)) + ')'

ID = 'C16'
RULE = ('BAM files produced by the spec-level encoder (Python twin of Coq Model.C16.encode_file, agreement checked in '
        'Coq on every case) from random alignment records: 0..3 references, names 1..254, 0..9 CIGAR ops of all nine '
        'kinds, l_seq 0..19 odd and even over all 16 codes, qualities 0..93, optional tag bytes, mapped and unmapped; '
        'plain-gzip and BGZF containers with block boundaries inside records; whole read, BamIntervalBuffer, '
        'alignment_to_interval, chunked reads for chunk sizes >= the largest record (incl. exact record multiples, '
        'stream size -1/0/+1/+2), whole / filtered / reordered / chunk-stream writes re-read, incl. index lists that start with the earliest and end '
        'with the latest record of a run and have its total size but are not in file order (inner permutations, equal-'
        'length replacement, on sub-spans, after chained selections, on a chunk); multi-step: the same entries re-read '
        'after alignment_to_interval, columns read before a write and all columns of the written object after it in '
        'random orders, interval call before the write; two-file sessions: the file read while a second BAM '
        'with a different reference dictionary is open, in every interleaving (whole, chunked in turn, intervals).  Round 6: auxiliary '
        'areas built from typed fields of every value type A c C s S i I f Z H B (B with all subtypes) and of every length 0, 4..66, '
        'the same record with and without its area in one file; every read-name length 1..254; position -1 / 2^31-1, refID -1 with '
        'a mapped mate, negative next_refID / next_pos / tlen, each of the 12 flag bits alone and all together, 0 next to 65535 '
        'CIGAR operations; files made of explicit gzip members (BGZF blocks, plain gzip members of other compression levels, empty '
        'members / EOF blocks in the middle, with or without a final EOF block) whose borders lie on record borders, inside the 4 '
        'block_size bytes, next to record borders, inside the header, one-byte members, with chunk sizes whose chunk borders '
        'coincide with member borders.  Sessions on ONE read table (about 45 % of the cases): a random interleaving of decode column X '
        'of object A / take selection B of A by mask, index list with repeats, permutation, slice (also of a selection) / decode '
        'column Y of B or again of A / alignment_to_interval on objects / str(object) before decoding / two selections decoded '
        'alternately; every column of every object must be the spec value of exactly that object\'s records in its order.  '
        'non-trivial = at least two '
        'records that differ in name length, CIGAR count or l_seq parity')
EXHAUSTIVE = {'quick': False, 'thorough': False}
TIE = 'translator+correspondence'   # translate/gen_c16.py -> Gen/C16.v, Bridge/C16.v, theorem C16_source_tie; plus the
# correspondence (header parse, block chain, field offsets, nibble unpack, CIGAR split, reference interval,
# prepend-mode chunk reader and writer evaluated in Coq on the decompressed file bytes)
ASSUMPTIONS = ['A-GZIP: Python gzip/zlib decompress a (multi-member) gzip/BGZF file to the concatenation of the member '
               'payloads and file.read(n) returns n bytes unless the stream ends (BGZF framing / inflate are not modelled; the written '
               "file's container is observed only: it ends with the 28-byte EOF block and gunzips).  Round 6: the read(n) half is "
               'modelled (raw_read = _GzipReader.read, buffered_read = BufferedReader.read over a list of member payloads) and '
               'C16_gzip_members_read / C16_gzip_members_file prove that for every split into members, empty ones included, it '
               'equals reading the concatenated stream; that CPython behaves like raw_read / buffered_read stays an assumption, '
               'exercised by the multi-member files of the generator',
               'A-VIEW: ndarray.view(dtype) on the (little-endian) host reads n bytes as sum b_i*256^i and np.int32 as the '
               "two's-complement value; C16_read_field_little_endian states what read_field computes under that reading",
               'the BAM header text is passed through uninterpreted',
               '"none" for an unmapped record is accepted as the name "*" or the empty name; its interval is still '
               'position .. position + reference-consuming CIGAR lengths (C16_unmapped_interval)',
               'element-wise NumPy expressions are read per element by the translator (one record / byte / CIGAR word)']
PARTIAL = ['current = repaired (fix-1 3cd2e75, fix-2 2cce06d are in /repo): the unguarded theorems are about the code as it is',
           'C16_decode_fields_partial / C16_reference_interval_partial / C16_reference_name_partial / '
           'C16_model_satisfies_spec_partial and the two _refuted theorems are about the variant `pinned` (the code before '
           'the two fixes) and are kept as history of the findings',
           'C16_model_ok_implies_spec_ok needs in_scope c (chunk sizes >= largest record, index lists in range, blocks fit '
           '32 bits - true of every generated case by construction) and takes the EOF-block observation as a hypothesis']
PER_FILE = 8
EOF_MARKER = bytes.fromhex('1f8b08040000000000ff0600424302001b0003000000000000000000')
SEQ_LETTERS = '=ACMGRSVTWYHKDBN'
CIGAR_LETTERS = 'MIDNSHP=X'


# ----------------------------------------------------------------------------- spec-level encoder (Python twin)
def _cigar(r):
    return [tuple(c) for c in r['cigar']] * r.get('cigar_repeat', 1)


def enc_rec(r):
    name = bytes.fromhex(r['name']) + b'\0'
    cig = _cigar(r)
    cigb = b''.join(struct.pack('<I', (l << 4) | op) for op, l in cig)
    seq = r['seq']
    L = len(seq)
    packed = bytes(((seq[i] << 4) | (seq[i + 1] if i + 1 < L else 0)) for i in range(0, L, 2))
    body = (struct.pack('<iiBBHHHiiii', r['ref'], r['pos'], len(name), r['mapq'], r['bin'], len(cig), r['flag'], L,
                        r['nref'], r['npos'], r['tlen'])
            + name + cigb + packed + bytes(r['qual']) + bytes.fromhex(r['tags']))
    return struct.pack('<i', len(body)) + body


def enc_header(text, refs):
    out = b'BAM\1' + struct.pack('<i', len(text)) + text + struct.pack('<i', len(refs))
    for n, l in refs:
        nb = n.encode() + b'\0'
        out += struct.pack('<i', len(nb)) + nb + struct.pack('<i', l)
    return out


def stream_bytes(case):
    return enc_header(bytes.fromhex(case['text']), case['refs']) + b''.join(enc_rec(r) for r in case['recs'])


def _bgzf_block(data):
    c = zlib.compressobj(6, zlib.DEFLATED, -15)
    comp = c.compress(data) + c.flush()
    return (b'\x1f\x8b\x08\x04\0\0\0\0\0\xff\x06\0BC\x02\0' + struct.pack('<H', len(comp) + 25) + comp
            + struct.pack('<II', zlib.crc32(data), len(data)))


def container_bytes(case, data):
    kind = case['container']['kind']
    if kind == 'gzip':
        return gzip.compress(data)
    if kind == 'members':
        # an explicit list of gzip members [size, how]: how = 'b' BGZF block, 'g' plain gzip member (gzip.compress),
        # 'z' zlib-made gzip member with another compression level, 'e' the 28-byte BGZF EOF block (an EMPTY member,
        # also in the middle of the file), size 0 = an empty member of that kind
        out = b''
        pos = 0
        for n, how in case['container']['members']:
            part = data[pos:pos + n]
            pos += n
            if how == 'e':
                out += EOF_MARKER
                pos -= n
            elif how == 'b':
                out += _bgzf_block(part)
            elif how == 'g':
                out += gzip.compress(part, 9)
            else:
                c = zlib.compressobj(1, zlib.DEFLATED, 31)
                out += c.compress(part) + c.flush()
        if pos < len(data):
            out += _bgzf_block(data[pos:])
        return out + (EOF_MARKER if case['container'].get('eof', True) else b'')
    out = b''
    pos = 0
    for n in case['container']['blocks']:
        if pos >= len(data):
            break
        out += _bgzf_block(data[pos:pos + n])
        pos += n
    while pos < len(data):
        out += _bgzf_block(data[pos:pos + 60000])
        pos += 60000
    return out + EOF_MARKER


# ----------------------------------------------------------------------------- generator
def _rec(rng, nrefs, name_len=None, n_cigar=None, l_seq=None, unmapped=None, tags=None, end10=False):
    if unmapped is None:
        unmapped = nrefs == 0 or rng.random() < 0.07
    if name_len is None:
        name_len = rng.choice([1, 2, 3, 4, 5, 7, 8, 11, 12, 30, 253, 254]) if rng.random() < 0.5 else rng.randint(1, 20)
    if n_cigar is None:
        n_cigar = rng.choice([0, 1, 1, 2, 3, 5, 9]) if rng.random() < 0.95 else rng.choice([17, 40, 64])
    if l_seq is None:
        l_seq = rng.randint(0, 19) if rng.random() < 0.93 else rng.choice([75, 76, 150, 151, 255, 256, 301])
    name = bytes(rng.choice(b'abcXYZ0189_.:/#!~') for _ in range(name_len))
    cig = [[rng.randrange(9), rng.choice([0, 1, 2, 15, 16, 17, 255, 256, 4095, 4096, 65535, 65536, 2 ** 28 - 1])
            if rng.random() < 0.3 else rng.randint(1, 60)] for _ in range(n_cigar)]
    if n_cigar >= 9 and rng.random() < 0.7:
        ops = list(range(9))
        rng.shuffle(ops)
        for i in range(9):
            cig[i][0] = ops[i]
    seq = [rng.randrange(16) for _ in range(l_seq)]
    qual = [rng.choice([0, 1, 10, 33, 40, 92, 93]) if rng.random() < 0.4 else rng.randint(0, 93) for _ in range(l_seq)]
    if tags is None:
        tags = rng.random() < 0.4
    tagb = b''
    if isinstance(tags, (bytes, bytearray)):
        tagb = bytes(tags)
    elif tags:
        tagb = _aux_area(rng) if rng.random() < 0.5 else rng.choice([b'NMC\x03', b'XSZab\0', b'NMC\x00MDZ10A5\0', b'ZZB' + b'c\x02\0\0\0\x01\x0a', b'XAi\x0a\0\0\0'])
    if end10:
        if tagb:
            tagb = tagb[:-1] + b'\n'
        elif qual:
            qual[-1] = 10
        else:
            tagb = b'XNC\n'
    flag = rng.choice([0, 16, 4, 20, 1 + 2 + 32 + 64, 16 + 1 + 128, 2048, 65535, 0x10, 0xffef]) if rng.random() < 0.7 else rng.randrange(65536)
    if unmapped:
        flag |= 4
    return dict(ref=-1 if unmapped else rng.randrange(nrefs),
                pos=rng.choice([-1, 0]) if unmapped else rng.choice([0, 1, 255, 256, 65535, 65536, 2 ** 31 - 1 - 2 ** 29, rng.randrange(2 ** 24)]),
                mapq=rng.choice([0, 1, 60, 254, 255]), bin=rng.choice([0, 4680, 4681, 65535, rng.randrange(65536)]), flag=flag,
                name=name.hex(), cigar=cig, seq=seq, qual=qual,
                nref=-1 if nrefs == 0 or rng.random() < 0.5 else rng.randrange(nrefs),
                npos=rng.choice([-1, 0, 12345]), tlen=rng.choice([0, -300, 300, -2 ** 31, 2 ** 31 - 1]), tags=tagb.hex())


# ----------------------------------------------------------------------------- auxiliary (TAG) area, SAMv1 4.2.4
def _aux(rng, ty=None):
    """one typed auxiliary field: tag[2] val_type[1] value; all of A c C s S i I f Z H B (B with every subtype)"""
    tag = bytes([rng.choice(b'ABCMNXYZabxyz'), rng.choice(b'ABDMSZabz0129')])
    ty = ty or rng.choice('AcCsSiIfZHB')
    if ty == 'A':
        return tag + b'A' + bytes([rng.choice(b'!~aZ09\n')])
    if ty in 'cCsSiI':
        fmt = {'c': '<b', 'C': '<B', 's': '<h', 'S': '<H', 'i': '<i', 'I': '<I'}[ty]
        lo, hi = {'c': (-128, 127), 'C': (0, 255), 's': (-2 ** 15, 2 ** 15 - 1), 'S': (0, 2 ** 16 - 1),
                  'i': (-2 ** 31, 2 ** 31 - 1), 'I': (0, 2 ** 32 - 1)}[ty]
        return tag + ty.encode() + struct.pack(fmt, rng.choice([lo, hi, 0, 10, rng.randint(lo, hi)]))
    if ty == 'f':
        return tag + b'f' + struct.pack('<f', rng.choice([0.0, -1.5, 3.25e10, 1e-30]))
    if ty == 'Z':
        return tag + b'Z' + bytes(rng.choice(b' !10A5^ACgt~:;') for _ in range(rng.choice([0, 1, 2, 5, 13, 40]))) + b'\0'
    if ty == 'H':
        return tag + b'H' + bytes(rng.choice(b'0123456789ABCDEF') for _ in range(2 * rng.choice([0, 1, 2, 7]))) + b'\0'
    sub = rng.choice('cCsSiIf')
    n = rng.choice([0, 1, 2, 3, 7])
    if sub == 'f':
        vals = b''.join(struct.pack('<f', rng.choice([0.0, 2.5, -1e9])) for _ in range(n))
    else:
        fmt = {'c': '<b', 'C': '<B', 's': '<h', 'S': '<H', 'i': '<i', 'I': '<I'}[sub]
        lo, hi = {'c': (-128, 127), 'C': (0, 255), 's': (-2 ** 15, 2 ** 15 - 1), 'S': (0, 2 ** 16 - 1),
                  'i': (-2 ** 31, 2 ** 31 - 1), 'I': (0, 2 ** 32 - 1)}[sub]
        vals = b''.join(struct.pack(fmt, rng.choice([lo, hi, 10, rng.randint(lo, hi)])) for _ in range(n))
    return tag + b'B' + sub.encode() + struct.pack('<i', n) + vals


def _aux_area(rng, types=None, n=None):
    if types is None:
        types = [rng.choice('AcCsSiIfZHB') for _ in range(n if n is not None else rng.choice([1, 1, 2, 3, 5]))]
    return b''.join(_aux(rng, t) for t in types)


def _aux_of_len(n):
    """an auxiliary area of exactly n bytes (n = 0 or n >= 4): one Z field, or a C field followed by a Z field"""
    if n == 0:
        return b''
    assert n >= 4
    return b'XLZ' + bytes(65 + (i * 7) % 26 for i in range(n - 4)) + b'\0'


FLAG_BITS12 = [1 << i for i in range(12)]


def _limit_rec(rng, nrefs, **kw):
    """a record at the limits of the fixed fields; the variable parts stay small unless asked for"""
    r = _rec(rng, nrefs, name_len=kw.pop('name_len', rng.randint(1, 6)), n_cigar=kw.pop('n_cigar', rng.randint(0, 3)),
             l_seq=kw.pop('l_seq', rng.randint(0, 6)), unmapped=kw.pop('unmapped', False), tags=kw.pop('tags', False))
    r.update(kw)
    return r


def _no_ref_len(r):
    """make the reference length of r zero (only I, S, H, P operations) so that pos + length stays inside int32"""
    r['cigar'] = [[c[0] if c[0] in (1, 4, 5, 6) else (1, 4, 5, 6)[c[0] % 4], c[1]] for c in r['cigar']]
    return r


def _members(rng, case, how):
    """split the decompressed stream of `case` into gzip members: borders on / next to record borders, inside the 4
    block_size bytes, inside the header, empty members in between"""
    data = stream_bytes(case)
    hdr = len(enc_header(bytes.fromhex(case['text']), case['refs']))
    bounds, acc = [], hdr
    for r in case['recs']:
        bounds.append(acc)
        acc += len(enc_rec(r))
    bounds.append(acc)
    tot = acc
    cuts = set()
    if how == 'on':               # every member holds whole records
        cuts = set(bounds)
    elif how == 'in_size':        # every border lies inside a block_size field (1..3 bytes of it in the old member)
        cuts = {b + rng.choice([1, 2, 3]) for b in bounds[:-1]}
    elif how == 'near':           # one byte before / after a record border, 4 and 36 bytes into a record
        cuts = {min(tot, max(0, b + rng.choice([-1, 1, 4, 35, 36, 37]))) for b in bounds}
    elif how == 'bytes':          # one-byte members over the first records (and the header)
        cuts = set(range(0, min(tot, hdr + 70)))
    elif how == 'header':         # borders inside the header only: magic, l_text, text, n_ref, names
        cuts = set(rng.sample(range(1, hdr + 1), min(hdr, rng.randint(1, 6))))
    else:                         # random borders
        cuts = set(rng.sample(range(1, tot + 1), min(tot, rng.randint(1, 9))))
    cuts = sorted(c for c in cuts if 0 < c < tot) + [tot]
    members, pos = [], 0
    for c in cuts:
        members.append([c - pos, rng.choice('bbgz')])
        pos = c
        if rng.random() < 0.25:
            members.append([0, rng.choice('ebgz')])     # an empty member (e.g. an EOF block in the middle)
    if rng.random() < 0.3:
        members.insert(0, [0, rng.choice('eb')])
    return dict(kind='members', members=members, eof=rng.random() < 0.8)


def _member_ks(rng, case):
    """chunk sizes whose chunk borders fall on / next to member borders"""
    sz = _sizes(case)
    if not sz:
        return [7]
    big = max(sz)
    hdr = len(enc_header(bytes.fromhex(case['text']), case['refs']))
    ks = {big, big + 1}
    pos = 0
    for n, _ in case['container']['members']:
        pos += n
        if pos - hdr >= big:
            ks |= {pos - hdr, pos - hdr + 1, pos - hdr - 1}
        for d in (2, 3):
            if pos - hdr > 0 and (pos - hdr) % d == 0 and (pos - hdr) // d >= big:
                ks.add((pos - hdr) // d)
    ks = sorted(k for k in ks if k >= big)
    if len(ks) > 5:
        ks = sorted({ks[0]} | set(rng.sample(ks, 4)))
    return ks


def _refs(rng, n):
    pool = ['chr1', 'chr2', 'chrX_random', 'c', '10', 'chrUn_KI270', 'MT', 'HLA-A*01:01', 'a' * 40]
    names = rng.sample(pool, n)
    return [[nm, rng.choice([1, 100, 248956422, 2 ** 31 - 1])] for nm in names]


def _sizes(case):
    return [len(enc_rec(r)) for r in case['recs']]


def _ks(rng, case, how):
    sz = _sizes(case)
    if not sz:
        return [1, 7]
    big, tot = max(sz), sum(sz)
    if how == 'all':
        return list(range(big, tot + 3))
    ks = {big, big + 1, tot - 1, tot, tot + 1, tot + 2, 5000000}
    acc = 0
    for s in sz:                      # chunk ends exactly on / next to a record boundary
        acc += s
        ks |= {acc, acc + 1, acc - 1, acc + 4, acc + 3}
    for d in (2, 3, 4):               # the stream length is an exact multiple of k
        if tot % d == 0:
            ks.add(tot // d)
    ks = sorted(k for k in ks if k >= big)
    if len(ks) > how:
        keep = {ks[0], ks[1]} | set(rng.sample(ks, how - 2))
        ks = sorted(keep)
    return ks


def _span_tricks(rng, sz, lo, hi):
    """index lists over records lo..hi (sizes sz) whose first element is lo, whose last is hi and whose total byte size
    equals the size of the run lo..hi, but which are not the run in file order"""
    out = []
    inner = list(range(lo + 1, hi))
    if len(inner) >= 2:
        p = inner[:]
        for _ in range(10):
            rng.shuffle(p)
            if p != inner:
                break
        if p != inner:
            out.append([lo] + p + [hi])
    # one inner record replaced by another record of the same length (a repeat or a record from anywhere)
    cands = [(i, j) for i in inner for j in range(len(sz)) if j != i and sz[j] == sz[i]]
    if cands:
        i, j = rng.choice(cands)
        out.append([lo] + [j if x == i else x for x in inner] + [hi])
    rng.shuffle(out)
    return out


def _chunk_groups(sz, k):
    """which records each chunk of read_chunks(k) holds (k >= every record): the prepend-mode reader on record sizes"""
    bounds, acc = [], 0
    for x in sz:
        acc += x
        bounds.append(acc)
    groups, done, pos, total = [], 0, 0, acc
    while pos < total:
        pos = min(total, pos + k)
        g = []
        while done < len(sz) and bounds[done] <= pos:
            g.append(done)
            done += 1
        if not g:
            break
        groups.append(g)
    return groups


def _writes(rng, case, n_extra=2):
    n = len(case['recs'])
    if n == 0:
        return []
    ws = [dict(mode=0)]
    sub = [i for i in range(n) if rng.random() < 0.5]
    ws.append(dict(mode=1, idx=sub, how='mask'))
    perm = list(range(n))
    rng.shuffle(perm)
    if n > 1 and perm == sorted(perm):
        perm = perm[::-1]
    ws.append(dict(mode=1, idx=perm, how='list'))
    if n_extra > 2:
        ws.append(dict(mode=1, idx=[i for i in perm if rng.random() < 0.6] + [perm[0]] * (n > 1), how='list'))   # with a repeat
        ws.append(dict(mode=2, k=rng.choice(_ks(rng, case, 6))))
    # selections that start with the earliest and end with the latest record of a run and have the run's total size,
    # but are NOT the run in file order: inner permutations, and a record replaced by another of equal length
    sz = _sizes(case)
    tricks = _span_tricks(rng, sz, 0, n - 1)
    for idx in tricks[:2]:
        ws.append(dict(mode=1, idx=idx, how='list'))
    if n_extra > 2 or n >= 5:
        lo = rng.randint(0, max(0, n - 4))
        hi = rng.randint(min(n - 1, lo + 3), n - 1)
        for idx in _span_tricks(rng, sz, lo, hi)[:1]:
            ws.append(dict(mode=1, idx=idx, how='list'))
        # the same after chained selections: t[a][b] with b an inner permutation of a's records
        a = sorted(rng.sample(range(n), rng.randint(min(n, 4), n))) if n >= 4 else list(range(n))
        for loc in _span_tricks(rng, [sz[i] for i in a], 0, len(a) - 1)[:1]:
            ws.append(dict(mode=1, idx=[a[j] for j in loc], how='list', chain=[a, loc]))
        # and on a chunk of a chunked read
        ks = _ks(rng, case, 6)
        for k in rng.sample(ks, len(ks)):
            groups = _chunk_groups(sz, k)
            cand = [(j, g) for j, g in enumerate(groups) if len(g) >= 3]
            done = False
            for j, g in cand:
                loc = _span_tricks(rng, [sz[i] for i in g], 0, len(g) - 1)
                if loc:
                    ws.append(dict(mode=1, idx=[g[x] for x in loc[0]], how='list', chunk=[k, j], local=loc[0]))
                    done = True
                    break
            if done:
                break
    # multi-step use of the written object: columns read before the write, the interval call before the write, and
    # all columns read after it in another order
    for j, w in enumerate(ws):
        if w['mode'] == 2:
            continue
        w['pre'] = rng.sample(range(9), rng.choice([0, 1, 1, 2, 3, 9]))
        w['order'] = rng.sample(range(9), 9)
        w['iv_first'] = (j % 2 == 0)
    return ws


VAR_COLS = [1, 5, 6, 7, 8]      # name, cigar_op, cigar_length, sequence, quality: columns behind data-dependent offsets


def _session(rng, n):
    """a session on ONE read table: an interleaving of (decode column X of object A), (take a selection B of A by mask /
    index list with repeats / permutation / slice), (decode column Y of B, or again of A), alignment_to_interval on
    objects, str(object) before decoding, two selections of one table decoded alternately.  Objects are numbered;
    object 0 is the table.  Returns dict(objs=[global index list per object], steps=[...]); at the end every column of
    every object has been decoded at least once."""
    objs = [list(range(n))]
    steps = []
    todo = {0: set(range(9))}

    def col(o, j):
        steps.append(['col', o, j])
        todo[o].discard(j)

    def some_cols(o, k, prefer_var=True):
        for _ in range(k):
            pool = [j for j in (VAR_COLS if prefer_var and rng.random() < 0.8 else range(9))]
            col(o, rng.choice(pool))

    def select(parent):
        base = objs[parent]
        m = len(base)
        how = rng.choice(['mask', 'perm', 'list', 'slice', 'sort']) if m >= 2 else rng.choice(['mask', 'list'])
        if how == 'mask':
            loc = [i for i in range(m) if rng.random() < 0.6]
            if len(loc) == m and m > 1:
                loc = loc[1:]
            if not loc:
                loc = [rng.randrange(m)]
            arg = [i in loc for i in range(m)]
        elif how in ('perm', 'sort'):
            loc = list(range(m))
            rng.shuffle(loc)
            if loc == sorted(loc):
                loc = loc[::-1]
            arg = loc
            how = 'list'
        elif how == 'list':
            loc = [rng.randrange(m) for _ in range(rng.randint(1, m + 1))] if m else []
            arg = loc
        else:
            a = rng.randint(0, m - 1)
            b = rng.randint(a + 1, m)
            st = rng.choice([1, 1, 2, -1])
            if st > 0:
                loc = list(range(a, b, st))
                arg = [a, b, st]
            else:
                loc = list(range(m))[::-1]
                arg = [None, None, -1]
        objs.append([base[i] for i in loc])
        todo[len(objs) - 1] = set(range(9))
        steps.append(['sel', parent, how, arg])
        return len(objs) - 1

    if rng.random() < 0.3:
        steps.append(['print', 0])
    some_cols(0, rng.choice([0, 1, 1, 2, 3]))
    if rng.random() < 0.2:
        steps.append(['iv', 0])
    b = select(0)
    if rng.random() < 0.25:
        steps.append(['print', b])
    some_cols(b, rng.choice([1, 2, 3]))
    if rng.random() < 0.4:
        steps.append(['iv', b])
    some_cols(0, rng.choice([0, 1, 2]))
    c = select(rng.choice([0, 0, b]))
    # two selections decoded alternately (and the table in between)
    for _ in range(rng.randint(2, 5)):
        o = rng.choice([b, c, c, 0])
        some_cols(o, 1)
    if rng.random() < 0.4:
        steps.append(['iv', rng.choice([b, c])])
    if rng.random() < 0.35:
        d = select(rng.choice([0, b, c]))
        some_cols(d, rng.choice([1, 2]))
    rest = [(o, j) for o in todo for j in todo[o]]
    rng.shuffle(rest)
    for o, j in rest:
        steps.append(['col', o, j])
    return dict(objs=objs, steps=steps)


def _mk(rng, refs, recs, container=None, ks=6, n_writes=2, text=None, light=False, members=None):
    if text is None:
        text = rng.choice([b'', b'@HD\tVN:1.6\tSO:unsorted\n', b'@HD\tVN:1.0\n@PG\tID:x\n', b'@CO\tno newline at end'])
    case = dict(text=text.hex(), refs=refs, recs=recs)
    tot = len(stream_bytes(case))
    if container is None:
        if rng.random() < 0.35:
            container = dict(kind='gzip')
        else:
            blocks = []
            pos = 0
            while pos < tot:
                b = rng.choice([1, 3, 4, 17, 36, 37, 64, 100, 333])
                blocks.append(b)
                pos += b
            container = dict(kind='bgzf', blocks=blocks)
    case['container'] = container
    if members is not None:
        case['container'] = _members(rng, case, members)
    case['ks'] = _ks(rng, case, ks) if members is None else _member_ks(rng, case)
    case['writes'] = _writes(rng, case, n_writes)
    if light:                       # a light case: at most one selection write besides the whole write
        case['writes'] = case['writes'][:1] + rng.sample(case['writes'][1:], min(1, len(case['writes']) - 1))
    case['order'] = rng.sample(range(9), 9)
    if len(recs) >= 2 and len(enc_rec(max(recs, key=lambda r: len(_cigar(r))))) < 100000 and (rng.random() < (0.7 if not light else 0.42)):
        case['session'] = _session(random.Random(rng.randrange(2 ** 30)), len(recs))
    if light and rng.random() < 0.75:
        return case                 # no companion file (two-file sessions) in three of four light cases
    # a second BAM file with a DIFFERENT reference dictionary (same number of references, or another number) that is
    # open in the same process while this file is read (two-file sessions)
    pool = [nm for nm in ['chr1', 'chr2', 'chrX_random', 'c', '10', 'chrUn_KI270', 'MT', 'HLA-A*01:01', 'a' * 40, 'zz', 'chr9']
            if nm not in [r[0] for r in refs]]
    n2 = len(refs) if rng.random() < 0.6 else rng.choice([x for x in (0, 1, 2, 3, 4) if x != len(refs)])
    refs2 = [[nm, rng.choice([5, 1000, 2 ** 31 - 1])] for nm in rng.sample(pool, n2)]
    other = dict(text=b'@HD\tVN:1.6\n'.hex(), refs=refs2,
                 recs=[_rec(rng, n2, name_len=rng.randint(1, 6), n_cigar=rng.randint(0, 3), l_seq=rng.randint(0, 7))
                       for _ in range(rng.randint(1, 4))], container=dict(kind='gzip'))
    case['other'] = other
    return case


def generate(tier, seed):
    rng = random.Random(seed * 104729 + 16)
    thorough = tier != 'quick'
    cases = []
    # 1. grid: every l_seq x every CIGAR count, name lengths rotating; 5 records per file
    maxL, maxC = (9, 6) if not thorough else (19, 9)
    name_lens = [1, 2, 3, 7, 254, 4, 253, 36]
    grid = []
    i = 0
    for L in range(maxL + 1):
        for nc in range(maxC + 1):
            grid.append((L, nc, name_lens[i % len(name_lens)]))
            i += 1
    for g in range(0, len(grid), 5):
        refs = _refs(rng, 1 + (g // 5) % 3)
        recs = [_rec(rng, len(refs), name_len=nl, n_cigar=nc, l_seq=L, unmapped=(j == 3 and (g // 5) % 4 == 0), end10=(j == 4 and g % 2 == 0))
                for j, (L, nc, nl) in enumerate(grid[g:g + 5])]
        cases.append(_mk(rng, refs, recs, ks=5, n_writes=2))
    # 2. tiny files, every chunk size from the largest record to stream size + 2
    for t in range(6 if not thorough else 60):
        refs = _refs(rng, rng.randint(1, 2))
        recs = [_rec(rng, len(refs), name_len=rng.randint(1, 4), n_cigar=rng.randint(0, 2), l_seq=rng.randint(0, 5),
                     unmapped=False, tags=(t % 3 == 0), end10=(t % 2 == 0 and j == 2))
                for j in range(rng.randint(2, 4))]
        if t % 3 == 1:   # equal-sized records: every multiple of the record size is a boundary
            recs = [dict(recs[0], pos=j, name=recs[0]['name']) for j in range(4)]
        cases.append(_mk(rng, refs, recs, ks='all', n_writes=2))
    # 3. boundary files: no references / no records / single record / unmapped only / header-only text
    cases.append(_mk(rng, [], [], container=dict(kind='gzip')))
    cases.append(_mk(rng, _refs(rng, 2), [], container=dict(kind='bgzf', blocks=[5, 9])))
    cases.append(_mk(rng, _refs(rng, 1), [_rec(rng, 1, unmapped=False)]))
    cases.append(_mk(rng, _refs(rng, 3), [_rec(rng, 3, unmapped=False, end10=True)]))
    # 3b. unsorted buffers whose first and last record share a reference while the records between them do not
    for t in range(4):
        refs = _refs(rng, 3)
        mid = [_rec(rng, 3, unmapped=False) for _ in range(rng.randint(1, 4))]
        first, last = _rec(rng, 3, unmapped=False), _rec(rng, 3, unmapped=False)
        first['ref'] = last['ref'] = t % 3
        for j, r in enumerate(mid):
            r['ref'] = (t + 1 + j) % 3
        if t == 3:
            mid[0]['ref'], mid[0]['pos'], mid[0]['flag'] = -1, -1, mid[0]['flag'] | 4
        cases.append(_mk(rng, refs, [first] + mid + [last], ks=4, n_writes=2))
    # 4. random files
    for t in range(150 if not thorough else 1500):
        nrefs = rng.choice([0, 1, 1, 1, 2, 2, 2, 3, 3, 3, 3, 3])
        refs = _refs(rng, nrefs)
        nrec = rng.choice([1, 2, 3, 4, 5, 6, 8])
        recs = [_rec(rng, nrefs, end10=(rng.random() < 0.15)) for _ in range(nrec)]
        if nrec >= 3 and rng.random() < 0.3:       # two records of equal length (different content) inside the file
            j = rng.randrange(1, nrec - 1)
            recs[j + 1 if j + 1 < nrec - 1 else j - 1] = dict(recs[j], pos=rng.randrange(1000) if recs[j]['ref'] >= 0 else -1,
                                                                mapq=rng.choice([3, 17, 42]), seq=[(c + 1) % 16 for c in recs[j]['seq']])
        cases.append(_mk(rng, refs, recs, ks=6, n_writes=5 if t % 3 == 0 else 2))

    # 5. auxiliary (TAG) area: every value type A c C s S i I f Z H B alone and mixed; aux areas of every length 0, 4..;
    #    the same record with and without its tags in one file
    types = 'AcCsSiIfZHB'
    for t in range(len(types) + 8 if not thorough else 40):
        refs = _refs(rng, rng.randint(1, 3))
        recs = []
        for j in range(rng.randint(2, 4)):
            ty = [types[(t + j) % len(types)]] if t < len(types) else None
            recs.append(_rec(rng, len(refs), name_len=rng.randint(1, 9), n_cigar=rng.randint(0, 4), l_seq=rng.randint(0, 9),
                             tags=_aux_area(rng, ty), end10=(j == 1 and t % 4 == 0)))
        bare = dict(recs[0], tags='')            # the first record once more without its auxiliary area
        recs.insert(rng.randint(0, len(recs)), bare)
        cases.append(_mk(rng, refs, recs, ks=3, light=True))
    for t in range(0, 64 if not thorough else 120, 4):
        refs = _refs(rng, 1)
        base = _rec(rng, 1, name_len=rng.randint(1, 5), n_cigar=rng.randint(0, 2), l_seq=1 + t % 5, unmapped=False, tags=False)
        recs = [dict(base, pos=j, tags=_aux_of_len(0 if t + j == 0 else t + j + 3).hex(), name=(b'n%d' % j).hex() + base['name'] * (j % 2))
                for j in range(4)]
        cases.append(_mk(rng, refs, recs, ks=3, light=True))
    # 6. records at the limits.  6a: every read-name length 1..254 (l_read_name 2..255), three per file
    lens = list(range(1, 255))
    for g in range(0, len(lens), 3):
        refs = _refs(rng, 1 + g % 3)
        recs = [_limit_rec(rng, len(refs), name_len=nl, tags=(b'' if (g + j) % 3 else _aux_area(rng, n=1)),
                           l_seq=(g + j) % 7, n_cigar=(g // 3 + j) % 4) for j, nl in enumerate(lens[g:g + 3])]
        cases.append(_mk(rng, refs, recs, ks=2, light=True, container=dict(kind='gzip') if g % 2 else None))
    # 6b: position -1 / 0 / 2^31-1, refID -1 with a mapped mate, negative next_refID / next_pos / tlen
    for t in range(24 if not thorough else 60):
        refs = _refs(rng, rng.randint(1, 3))
        n = len(refs)
        recs = [
            _no_ref_len(_limit_rec(rng, n, pos=2 ** 31 - 1, npos=2 ** 31 - 1, tlen=2 ** 31 - 1)),
            _limit_rec(rng, n, pos=-1, npos=-1, nref=-1, tlen=-2 ** 31),
            _limit_rec(rng, n, unmapped=True, pos=rng.choice([-1, 0, 2 ** 31 - 1 - 2 ** 29]), nref=rng.randrange(n),
                       npos=rng.choice([0, 5, 2 ** 31 - 1]), tlen=rng.choice([-1, -2 ** 31, 0])),
            _limit_rec(rng, n, pos=0, nref=-1, npos=-1, tlen=-1, n_cigar=0, l_seq=rng.choice([0, 1, 2])),
        ]
        recs[2]['flag'] = (recs[2]['flag'] | 4) & ~8          # unmapped read, mapped mate
        rng.shuffle(recs)
        cases.append(_mk(rng, refs, recs[:rng.randint(2, 4)] if t % 3 else recs, ks=3, light=True))
    # 6c: each of the 12 defined flag bits alone, all twelve, all sixteen; with and without 0x10
    for t in range(0, 12, 3):
        refs = _refs(rng, 2)
        recs = [_limit_rec(rng, 2, flag=FLAG_BITS12[t + j], name_len=1 + j, l_seq=j) for j in range(3)]
        recs.append(_limit_rec(rng, 2, flag=rng.choice([4095, 4095 - 16, 65535, 65535 - 16]), name_len=5))
        for r in recs:
            if r['ref'] < 0:
                r['flag'] |= 4
        cases.append(_mk(rng, refs, recs, ks=2, light=True))
    # 6d: n_cigar_op at its boundaries: 0 next to 65535 operations (and 65534 / 32768 in the thorough tier); whole read
    #     and interval views only (the case is large); placed first among the generated cases so that its Coq file starts early
    for nops in ([65535] if not thorough else [65535, 65534, 32768]):
        refs = _refs(rng, 1)
        big = _limit_rec(rng, 1, name_len=3, l_seq=3, n_cigar=0)
        big['cigar'], big['cigar_repeat'] = [[0, 1], [1, 2], [2, 3], [4, 1], [3, 5]], nops // 5
        if nops % 5:
            big['cigar'], big['cigar_repeat'] = [[0, 1], [1, 2]], nops // 2
        small = _limit_rec(rng, 1, name_len=2, l_seq=2, n_cigar=0)
        c = _mk(rng, refs, [small, big, dict(small, pos=9)], ks=2, light=True, container=dict(kind='gzip'))
        c['ks'], c['writes'] = [], []
        c.pop('other', None)
        cases.insert(0, c)
    # 7. files of several gzip members (BGZF blocks, plain gzip members, empty members): member borders on record
    #    borders, inside block_size fields, next to record borders, one-byte members, inside the header; chunk sizes
    #    whose borders coincide with member borders
    hows = ['on', 'in_size', 'near', 'bytes', 'header', 'random']
    for t in range(132 if not thorough else 300):
        nrefs = rng.choice([0, 1, 2, 3])
        refs = _refs(rng, nrefs)
        recs = [_rec(rng, nrefs, name_len=rng.choice([1, 2, 5, 9, 30]), n_cigar=rng.randint(0, 4), l_seq=rng.randint(0, 12),
                     end10=(rng.random() < 0.15)) for _ in range(rng.choice([2, 3, 4, 6]))]
        cases.append(_mk(rng, refs, recs, light=True, members=hows[t % len(hows)]))
    # 8. more random files (light: fewer chunk sizes and writes)
    for t in range(170 if not thorough else 250):
        nrefs = rng.choice([0, 1, 2, 3, 3])
        refs = _refs(rng, nrefs)
        recs = [_rec(rng, nrefs, end10=(rng.random() < 0.15)) for _ in range(rng.choice([2, 3, 4, 5]))]
        cases.append(_mk(rng, refs, recs, ks=3, light=True))
    return cases


# ----------------------------------------------------------------------------- implementation runner
def _col(e, n, name, conv):
    try:
        v = conv(getattr(e, name))
        if len(v) != n:
            return [None] * n
        return v
    except Exception:
        return [None] * n


def _strs(v):
    return [s.encode('latin1').hex() for s in v.tolist()]


def _ints(v):
    return [int(x) for x in v.tolist()]


def _lists(v):
    return [[int(x) for x in row] for row in v.tolist()]


FIELDS = [('chromosome', _strs), ('name', _strs), ('flag', _ints), ('position', _ints), ('mapq', _ints),
          ('cigar_op', _strs), ('cigar_length', _lists), ('sequence', _strs),
          ('quality', lambda v: [bytes(r).hex() for r in _lists(v)])]


def _recs(e, order=None):
    """all nine columns of e as per-record lists; the columns are ACCESSED in `order` (a permutation of 0..8)"""
    n = len(e)
    if n == 0:
        return []
    cols = [None] * 9
    for j in (order or range(9)):
        cols[j] = _col(e, n, FIELDS[j][0], FIELDS[j][1])
    return [list(t) for t in zip(*cols)]


def _touch(e, fields):
    """read some columns (and drop the result): state that later steps must not depend on"""
    for j in fields:
        try:
            FIELDS[j][1](getattr(e, FIELDS[j][0]))
        except Exception:
            pass


def _strand(v):
    import numpy as np
    out = []
    for s in v.tolist():
        s = s if isinstance(s, str) else ''.join(s)
        out.append(s.encode('latin1').hex())
    return out


def _ivs(iv):
    n = len(iv)
    if n == 0:
        return []
    cols = [_col(iv, n, 'chromosome', _strs), _col(iv, n, 'start', _ints), _col(iv, n, 'stop', _ints),
            _col(iv, n, 'name', _strs), _col(iv, n, 'score', _ints), _col(iv, n, 'strand', _strand)]
    return [list(t) for t in zip(*cols)]


def _err(e):
    return 'error:%s:%s' % (type(e).__name__, str(e)[:80])


def _sessions(case, p, d):
    """this file (A, at path p) read while another BAM file B with a different reference dictionary is open in the same
    process, in every interleaving; returns A's record lists and A's interval lists"""
    import itertools
    import bionumpy as bnp
    from bionumpy.io.bam import BamIntervalBuffer
    other = case.get('other')
    if not other:
        return [], []
    pb = os.path.join(d, 'other.bam')
    with open(pb, 'wb') as f:
        f.write(container_bytes(other, stream_bytes(other)))
    sess, sess_iv = [], []

    def rec(fn):
        try:
            sess.append(fn())
        except Exception as ex:
            sess.append(_err(ex))

    def iv(fn):
        try:
            sess_iv.append(fn())
        except Exception as ex:
            sess_iv.append(_err(ex))
    n = len(case['recs'])

    def s_open_a_b_read_a_b():
        fa = bnp.open(p); fb = bnp.open(pb); ra = fa.read(); rb = fb.read()
        _recs(rb)
        out = _recs(ra)
        if n:
            iv(lambda: _ivs(bnp.alignments.alignment_to_interval(ra)))
        return out

    def s_open_a_b_read_b_a():
        fa = bnp.open(p); fb = bnp.open(pb); rb = fb.read(); _recs(rb); ra = fa.read()
        return _recs(ra)

    def s_open_b_a_read_b_a():
        fb = bnp.open(pb); fa = bnp.open(p); rb = fb.read(); ra = fa.read()
        out = _recs(ra); _recs(rb)
        return out

    def s_read_a_then_open_b():
        ra = bnp.open(p).read(); fb = bnp.open(pb); rb = fb.read(); _recs(rb)     # columns of A read after B was read
        return _recs(ra, case.get('order'))
    ka = (case['ks'] or [5000000])[0]
    kb = max([len(enc_rec(r)) for r in other['recs']] or [1])

    def chunks_in_turn(a_first):
        def go():
            if a_first:
                ia = iter(bnp.open(p).read_chunks(ka)); ib = iter(bnp.open(pb).read_chunks(kb))
            else:
                ib = iter(bnp.open(pb).read_chunks(kb)); ia = iter(bnp.open(p).read_chunks(ka))
            out = []
            for ca, cb in itertools.zip_longest(ia, ib) if a_first else ((a, b) for b, a in itertools.zip_longest(ib, ia)):
                if cb is not None:
                    _recs(cb)
                if ca is not None:
                    out += _recs(ca)
            return out
        return go
    for fn in (s_open_a_b_read_a_b, s_open_a_b_read_b_a, s_open_b_a_read_b_a, s_read_a_then_open_b,
               chunks_in_turn(True), chunks_in_turn(False)):
        rec(fn)

    def iv_a_b():
        fa = bnp.open(p, buffer_type=BamIntervalBuffer); fb = bnp.open(pb, buffer_type=BamIntervalBuffer)
        ia = fa.read(); ib = fb.read(); _ivs(ib)
        return _ivs(ia)

    def iv_a_plain_b():
        fa = bnp.open(p, buffer_type=BamIntervalBuffer); fb = bnp.open(pb); rb = fb.read(); _recs(rb)
        return _ivs(fa.read())
    iv(iv_a_b)
    iv(iv_a_plain_b)
    return sess, sess_iv


def _run_session(case, p, d):
    """runs case['session'] on one freshly read table; returns (per-object write observations with the session's column
    values as 'post', list of interval observations re-indexed by record number)"""
    import numpy as np
    import bionumpy as bnp
    ses = case['session']
    table = bnp.open(p).read()
    objs = [table]
    cols = [[None] * 9]
    ivs = []
    unstable = set()
    for st in ses['steps']:
        try:
            if st[0] == 'print':
                str(objs[st[1]])
            elif st[0] == 'col':
                o, j = st[1], st[2]
                e = objs[o]
                v = _col(e, len(ses['objs'][o]), FIELDS[j][0], FIELDS[j][1])
                if cols[o][j] is None:
                    cols[o][j] = v
                elif cols[o][j] != v:
                    unstable.add(o)
            elif st[0] == 'sel':
                par, how, arg = objs[st[1]], st[2], st[3]
                if how == 'mask':
                    new = par[np.array(arg, dtype=bool)]
                elif how == 'list':
                    new = par[np.array(arg, dtype=int)]
                else:
                    new = par[slice(arg[0], arg[1], arg[2])]
                objs.append(new)
                cols.append([None] * 9)
            elif st[0] == 'iv':
                o = st[1]
                idx = ses['objs'][o]
                n = len(case['recs'])
                if len(objs[o]) == 0:
                    continue
                got = _ivs(bnp.alignments.alignment_to_interval(objs[o]))
                if sorted(idx) == list(range(n)):          # a permutation of the table: re-index the rows by record number
                    if len(got) == n:
                        out = [None] * n
                        for row, i in zip(got, idx):
                            out[i] = row
                        ivs.append(out)
                    else:
                        ivs.append('error:%d interval rows for %d records' % (len(got), n))
        except Exception as ex:
            if st[0] == 'sel':
                objs.append(None)
                cols.append([None] * 9)
            elif st[0] == 'iv':
                ivs.append(_err(ex))
    res = []
    for o, e in enumerate(objs):
        idx = ses['objs'][o]
        q = os.path.join(d, 's%d.bam' % o)
        try:
            if e is None:
                raise ValueError('selection raised')
            post = [[None] * 9] * len(idx) if o in unstable else \
                [list(t) for t in zip(*[c if c is not None else [None] * len(idx) for c in cols[o]])]
            with bnp.open(q, 'w') as f:
                f.write(e)
            raw = open(q, 'rb').read()
            res.append(dict(eof=raw.endswith(EOF_MARKER), stream=gzip.decompress(raw).hex(), reread=_recs(bnp.open(q).read()),
                            post=post))
        except Exception as ex:
            res.append(dict(error=_err(ex)))
    return res, ivs


def observe(case):
    import numpy as np
    import bionumpy as bnp
    from bionumpy.io.bam import BamIntervalBuffer
    d = tempfile.mkdtemp(prefix='c16_')
    try:
        p = os.path.join(d, 'x.bam')
        data = stream_bytes(case)
        with open(p, 'wb') as f:
            f.write(container_bytes(case, data))
        out = {}
        try:
            e = bnp.open(p).read()
            out['whole'] = _recs(e)
        except Exception as ex:
            return dict(error=_err(ex))
        order = case.get('order')
        try:
            ivo = bnp.open(p, buffer_type=BamIntervalBuffer).read()
            out['ivs'] = _ivs(ivo)
            if _ivs(ivo) != out['ivs']:            # the same interval object read twice
                out['ivs'] = 'error:unstable: a second read of the same intervals differs'
        except Exception as ex:
            out['ivs'] = _err(ex)
        try:
            out['ivs2'] = _ivs(bnp.alignments.alignment_to_interval(e)) if len(e) else []
            if len(e) and _ivs(bnp.alignments.alignment_to_interval(e)) != out['ivs2']:     # second call, same entries
                out['ivs2'] = 'error:unstable: a second alignment_to_interval on the same entries differs'
        except Exception as ex:
            out['ivs2'] = _err(ex)
        # the SAME entries again, after the interval calls (columns accessed in another order)
        try:
            out['after_iv'] = _recs(e, order)
        except Exception as ex:
            out['after_iv'] = _err(ex)
        ch = []
        for kn, k in enumerate(case['ks']):
            try:
                chunks = []
                for c in bnp.open(p).read_chunks(k):
                    if kn % 2 == 1 and len(c):       # every other chunk size: interval call first, then the records
                        try:
                            bnp.alignments.alignment_to_interval(c)
                        except Exception:
                            pass
                    chunks.append(_recs(c, order if kn % 2 else None))
                ch.append([k, [len(c) for c in chunks], [r for c in chunks for r in c]])
            except Exception as ex:
                ch.append([k, _err(ex)])
        out['chunked'] = ch
        ws = []
        for i, w in enumerate(case['writes']):
            q = os.path.join(d, 'w%d.bam' % i)
            try:
                src = bnp.open(p).read()
                if w['mode'] == 0:
                    obj = src
                elif w['mode'] == 1:
                    if w['how'] == 'mask':
                        m = np.zeros(len(src), dtype=bool)
                        m[w['idx']] = True
                        obj = src[m]
                    elif 'chain' in w:
                        obj = src
                        for step in w['chain']:
                            obj = obj[np.array(step, dtype=int)]
                    elif 'chunk' in w:
                        obj = list(bnp.open(p).read_chunks(w['chunk'][0]))[w['chunk'][1]][np.array(w['local'], dtype=int)]
                    else:
                        obj = src[np.array(w['idx'], dtype=int)]
                else:
                    obj = bnp.open(p).read_chunks(w['k'])
                if w['mode'] != 2:
                    _touch(obj, w.get('pre', []))                      # some columns read BEFORE the write
                    if w.get('iv_first') and len(obj):
                        try:
                            bnp.alignments.alignment_to_interval(obj)  # interval call on the object that is then written
                        except Exception:
                            pass
                with bnp.open(q, 'w') as f:
                    f.write(obj)
                raw = open(q, 'rb').read()
                wo = dict(eof=raw.endswith(EOF_MARKER), stream=gzip.decompress(raw).hex(), reread=_recs(bnp.open(q).read()))
                if w['mode'] != 2:
                    try:
                        wo['post'] = _recs(obj, w.get('order'))        # the written object's columns AFTER the write
                    except Exception as ex:
                        wo['post'] = _err(ex)
                ws.append(wo)
            except Exception as ex:
                ws.append(dict(error=_err(ex)))
        out['writes'] = ws
        out['sess'], out['sess_iv'] = _sessions(case, p, d)
        if case.get('session'):
            out['session'], extra_iv = _run_session(case, p, d)
            out['sess_iv'] = list(out['sess_iv']) + extra_iv
        return out
    finally:
        shutil.rmtree(d, ignore_errors=True)


# ----------------------------------------------------------------------------- Coq emitter
def _ohex(x):
    return '(@None (list Z))' if x is None else '(Some %s)' % hx(bytes.fromhex(x))


BAD_OREC = [None, 'ff', -1, -1, -1, None, [], 'ff', 'ff']


def _zl_big(xs):
    """list of ints -> Coq list Z; a long periodic list (the lengths of a many-operation CIGAR) is emitted as a
    repeated block so that the case file stays small"""
    n = len(xs)
    if n > 512:
        for p in range(1, 17):
            if xs == (xs[:p] * (n // p + 1))[:n]:
                return '(List.firstn (Z.to_nat %d) (List.concat (List.repeat %s (Z.to_nat %d))))' % (n, zl(xs[:p]), n // p + 1)
    return zl(xs)


def _orec(r):
    r = list(r)
    for i in (1, 7, 8):
        if r[i] is None:
            r[i] = 'ff'
    for i in (2, 3, 4):
        if r[i] is None:
            r[i] = -7
    if r[6] is None:
        r[6] = [-7]
    return ('{| o_chrom := %s; o_name := %s; o_flag := %s; o_pos := %s; o_mapq := %s; o_ops := %s; o_lens := %s; '
            'o_seq := %s; o_qual := %s |}' % (_ohex(r[0]), hx(bytes.fromhex(r[1])), cz(r[2]), cz(r[3]), cz(r[4]),
                                              _ohex(r[5]), _zl_big(r[6]), hx(bytes.fromhex(r[7])), hx(bytes.fromhex(r[8]))))


def _orecs(rs):
    return clist([_orec(r) for r in rs], 'orec')


def _oiv(r):
    r = list(r)
    for i in (1, 2, 4):
        if r[i] is None:
            r[i] = -7
    for i in (3, 5):
        if r[i] is None:
            r[i] = 'ff'
    st = bytes.fromhex(r[5])
    return ('{| i_chrom := %s; i_start := %s; i_stop := %s; i_name := %s; i_score := %s; i_strand := %s |}' % (
        _ohex(r[0]), cz(r[1]), cz(r[2]), hx(bytes.fromhex(r[3])), cz(r[4]), cz(st[0] if len(st) == 1 else -1)))


def _oivs(x, n):
    if not isinstance(x, list):
        x = [[None, -7, -7, 'ff', -7, 'ff']] * max(n, 1)
    return clist([_oiv(r) for r in x], 'oiv')


def _brec(r):
    cig = clist(['(%s, %s)' % (cz(op), cz(l)) for op, l in r['cigar']], '(Z*Z)')
    if r.get('cigar_repeat', 1) > 1:
        cig = '(List.concat (List.repeat %s (Z.to_nat %d)))' % (cig, r['cigar_repeat'])
    return ('{| b_ref := %s; b_pos := %s; b_mapq := %s; b_bin := %s; b_flag := %s; b_name := %s; b_cigar := %s; '
            'b_seq := %s; b_qual := %s; b_nref := %s; b_npos := %s; b_tlen := %s; b_tags := %s |}' % (
                cz(r['ref']), cz(r['pos']), cz(r['mapq']), cz(r['bin']), cz(r['flag']), hx(bytes.fromhex(r['name'])), cig,
                hx(bytes(r['seq'])), hx(bytes(r['qual'])), cz(r['nref']), cz(r['npos']), cz(r['tlen']), hx(bytes.fromhex(r['tags']))))


def _after_iv(o, whole):
    a = o.get('after_iv', whole)
    if not isinstance(a, list):
        a = [BAD_OREC]
    return 'w' if a == whole else _orecs(a)


def to_coq(case, o):
    n = len(case['recs'])
    if 'error' in o:
        o = dict(whole=[BAD_OREC] * max(n, 1), ivs='error', ivs2='error', after_iv=[BAD_OREC], chunked=[], writes=[])
    whole = o['whole']
    chunked = []
    for c in o['chunked']:
        if len(c) == 2:
            chunked.append('(%s, %s, %s)' % (cz(c[0]), zl([-1]), _orecs([BAD_OREC])))
        else:
            chunked.append('(%s, %s, %s)' % (cz(c[0]), zl(c[1]), 'w' if c[2] == whole else _orecs(c[2])))
    writes = []
    all_w = list(zip(case['writes'], o['writes']))
    if case.get('session'):
        so = o.get('session') or [dict(error='missing')] * len(case['session']['objs'])
        all_w += [(dict(mode=1, idx=idx), wo) for idx, wo in zip(case['session']['objs'], so)]
    for w, wo in all_w:
        idx = list(range(n)) if w['mode'] != 1 else w['idx']
        if 'error' in wo:
            wo = dict(eof=False, stream='', reread=[BAD_OREC], post=[BAD_OREC])
        post = wo.get('post', whole)           # a stream write has no object to look at afterwards: the source's read
        if not isinstance(post, list):
            post = [BAD_OREC]
        rr = 'w' if wo['reread'] == whole else _orecs(wo['reread'])
        pp = 'w' if post == whole else ('r' if post == wo['reread'] else _orecs(post))
        writes.append('(let r := %s in {| w_mode := %s; w_k := %s; w_idx := %s; w_eof := %s; w_stream := %s; w_reread := r; '
                      'w_post := %s |})' % (rr, cz(w['mode']), cz(w.get('k', 0)), zl(idx), cbool(wo['eof']),
                                            hx(bytes.fromhex(wo['stream'])), pp))
    refs = clist(['(%s, %s)' % (hx(nm.encode()), cz(l)) for nm, l in case['refs']], '(list Z * Z)')
    return ('(let w := %s in {| k_text := %s; k_refs := %s; k_recs := %s; k_stream := %s; k_whole := w; k_ivs := %s; '
            'k_ivs2 := %s; k_after_iv := %s; k_sess := %s; k_sess_iv := %s; k_chunked := %s; k_writes := %s |})' % (
                _orecs(whole), hx(bytes.fromhex(case['text'])), refs, clist([_brec(r) for r in case['recs']], 'brec'),
                hx(stream_bytes(case)), _oivs(o['ivs'], n), ('(Some %s)' % _oivs(o['ivs2'], n)) if isinstance(o['ivs2'], list) else '(@None (list oiv))',
                _after_iv(o, whole),
                clist([('w' if x == whole else _orecs(x if isinstance(x, list) else [BAD_OREC])) for x in o.get('sess', [])], 'list orec'),
                clist([_oivs(x, n) for x in o.get('sess_iv', [])], 'list oiv'),
                clist(chunked, '(Z * list Z * list orec)'), clist(writes, 'wobs')))


# ----------------------------------------------------------------------------- evidence helpers
def nontrivial(case, o):
    rs = case['recs']
    if len(rs) < 2:
        return False
    return (len({len(r['name']) for r in rs}) > 1 or len({len(_cigar(r)) for r in rs}) > 1
            or len({len(r['seq']) % 2 for r in rs}) > 1)


def describe(case, o):
    return dict(refs=case['refs'], container=case['container']['kind'], ks=case['ks'][:8],
                records=[dict(ref=r['ref'], name_len=len(r['name']) // 2, n_cigar=len(_cigar(r)), l_seq=len(r['seq']),
                              tags=len(r['tags']) // 2) for r in case['recs']],
                writes=[w['mode'] for w in case['writes']],
                decoded_first=(o.get('whole') or [None])[0])


def distribution(cases, obs):
    d = dict(records={}, references={}, unmapped_records=0, odd_l_seq=0, even_l_seq=0, zero_l_seq=0, cigar_ops={}, name_len_254=0,
             tagged=0, bgzf=0, gzip=0, members=0, chunk_sizes=0, writes=0, last_byte_newline=0,
             name_lengths_seen=0, aux_types={}, n_cigar_65535=0, pos_minus1=0, pos_int32_max=0, unmapped_with_mapped_mate=0,
             negative_next_ref=0, negative_next_pos=0, negative_tlen=0, flag_bits_seen=0, empty_members=0,
             member_border_inside_block_size=0, member_border_on_record_border=0, gzip_members=0)
    names_seen, bits = set(), 0
    for c in cases:
        k = str(len(c['recs']))
        d['records'][k] = d['records'].get(k, 0) + 1
        k = str(len(c['refs']))
        d['references'][k] = d['references'].get(k, 0) + 1
        d[c['container']['kind']] += 1
        if c['container']['kind'] == 'members':
            hdr = len(enc_header(bytes.fromhex(c['text']), c['refs']))
            starts, acc = [], hdr
            for r in c['recs']:
                starts.append(acc)
                acc += len(enc_rec(r))
            pos = 0
            for n, how in c['container']['members']:
                d['gzip_members'] += 1
                d['empty_members'] += n == 0
                pos += n
                if n and pos < acc:
                    d['member_border_on_record_border'] += pos in starts
                    d['member_border_inside_block_size'] += any(0 < pos - s0 < 4 for s0 in starts)
        d['chunk_sizes'] += len(c['ks'])
        d['writes'] += len(c['writes'])
        for r in c['recs']:
            d['unmapped_records'] += r['ref'] < 0
            L = len(r['seq'])
            d['zero_l_seq'] += L == 0
            d['odd_l_seq'] += L % 2 == 1
            d['even_l_seq'] += L % 2 == 0 and L > 0
            nc = str(min(len(_cigar(r)), 10))
            d['cigar_ops'][nc] = d['cigar_ops'].get(nc, 0) + 1
            d['name_len_254'] += len(r['name']) == 508
            d['tagged'] += len(r['tags']) > 0
            names_seen.add(len(r['name']) // 2)
            bits |= r['flag']
            d['n_cigar_65535'] += len(_cigar(r)) == 65535
            d['pos_minus1'] += r['pos'] == -1
            d['pos_int32_max'] += r['pos'] == 2 ** 31 - 1
            d['unmapped_with_mapped_mate'] += r['ref'] < 0 and r['nref'] >= 0
            d['negative_next_ref'] += r['nref'] < 0
            d['negative_next_pos'] += r['npos'] < 0
            d['negative_tlen'] += r['tlen'] < 0
            tb = bytes.fromhex(r['tags'])
            if len(tb) >= 3 and chr(tb[2]) in 'AcCsSiIfZHB':
                d['aux_types'][chr(tb[2])] = d['aux_types'].get(chr(tb[2]), 0) + 1
        if c['recs'] and enc_rec(c['recs'][-1])[-1] == 10:
            d['last_byte_newline'] += 1
    d['name_lengths_seen'] = len(names_seen)
    d['flag_bits_seen'] = bin(bits & 0xfff).count('1')
    return d


def _is_last_ref(case, rec, got):
    return bool(case['refs']) and got == case['refs'][-1][0].encode().hex()


def _historic_finding(case, o):
    """(history: matchers of the two findings that are fixed in /repo since 3cd2e75 / 2cce06d)
    Signature matchers: a failing case matches a known finding only if everything that is wrong in it is
    explained by that finding."""
    if 'error' in o:
        return None
    recs = case['recs']
    unm = [i for i, r in enumerate(recs) if r['ref'] < 0]
    big = [i for i, r in enumerate(recs) if len(_cigar(r)) >= 16384]
    if big:
        return 'C16-cigar-bytes-uint16-overflow'
    if not unm:
        return None

    def expected(r, fixed_chrom):
        return [fixed_chrom, r['name'], r['flag'], r['pos'], r['mapq'],
                ''.join(CIGAR_LETTERS[op] for op, _ in _cigar(r)).encode().hex(), [l for _, l in _cigar(r)],
                ''.join(SEQ_LETTERS[c] for c in r['seq']).encode().hex(), bytes(r['qual']).hex()]

    def recs_ok(got, sel):
        if len(got) != len(sel):
            return False
        for g, i in zip(got, sel):
            r = recs[i]
            if r['ref'] >= 0:
                if g != expected(r, case['refs'][r['ref']][0].encode().hex()):
                    return False
            else:
                # signature: the unmapped record carries the LAST reference's name (or the column raises
                # when there is no reference at all); everything else is right
                if not case['refs']:
                    if g[0] is not None or g[1:] != expected(r, None)[1:]:
                        return False
                elif g != expected(r, case['refs'][-1][0].encode().hex()):
                    return False
        return True
    def ivs_ok(got):
        if not isinstance(got, list) or len(got) != len(recs):
            return False
        for g, r in zip(got, recs):
            reflen = sum(l for op, l in _cigar(r) if op in (0, 2, 3, 7, 8))
            chrom = None if not case['refs'] else case['refs'][r['ref'] if r['ref'] >= 0 else -1][0].encode().hex()
            if g != [chrom, r['pos'], r['pos'] + reflen, r['name'], r['mapq'], b'-'.hex() if r['flag'] & 16 else b'+'.hex()]:
                return False
        return True
    allidx = list(range(len(recs)))
    if not recs_ok(o['whole'], allidx) or not ivs_ok(o['ivs']):
        return None
    # without references names[-1] raises, and alignment_to_interval raises as a whole
    if not (ivs_ok(o['ivs2']) if case['refs'] else isinstance(o['ivs2'], str)):
        return None
    for c in o['chunked']:
        if len(c) == 2 or not recs_ok(c[2], allidx):
            return None
    for w, wo in zip(case['writes'], o['writes']):
        if 'error' in wo or not wo['eof']:
            return None
        idx = allidx if w['mode'] != 1 else w['idx']
        if not recs_ok(wo['reread'], idx):
            return None
    return 'C16-unmapped-last-reference'


def finding(case, o):
    """No known finding is open for C16: every spec violation or model disagreement is reported."""
    return None


def signature(case, o):
    if 'error' in o:
        return 'open/read raises: ' + o['error'][:40]
    return 'any'


def explain(case, o):
    return dict(how=('write the stream of harness.props.c16.stream_bytes(case) through container_bytes(case, .) to x.bam; '
                     'compare bnp.open(x.bam).read() / read_chunks(k) / BamIntervalBuffer / write+re-read with the records'),
                record_sizes=_sizes(case))

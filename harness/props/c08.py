"""C08 — interval-set operations equal their per-base definitions."""
import itertools
import math
import random

from harness.lib import zl, cz, clist

ID = 'C08'
RULE = ('one case = one operation (pileup, bedgraph pileup, mask, merge with distance, sort by three routes, count_overlap, '
        'intersect, unique_intersect, jaccard, forbes, clip, extend_to_size; Geometry routes on a contig that is chromosome r '
        'of a 1-5 chromosome genome) on interval multisets of one contig; unary operations: every multiset of <=3 non-empty '
        'intervals on contigs of size 1..4 (quick) / 1..6 (thorough) with every merge distance 0..size; binary operations: all '
        'pairs of such sets for size <=2 (quick) / <=3 (thorough: count_overlap and intersect all pairs, the others 15%), sampled '
        'beyond (sizes up to 60, up to 14 intervals, empty intervals, empty sets, internally disjoint sets); strands +/- for '
        'extend_to_size; deep inputs: interval counts just above 2^15 and 2^16 (not multiples of them; thorough also 3*2^15+5 and '
        '2^17+1) on a contig of size <= 64 for pileup / mask / merge / count_overlap, handed to Coq as (multiplicity, start, stop) '
        'rows; sessions: the same Interval objects passed to 2-4 consecutive jaccard / forbes calls with different contig '
        'sizes, genomes and partner sets (each call checked against the per-base value of its own arguments); non-trivial = two intervals of the input share an endpoint, nest or overlap, or an interval touches '
        'position 0 or the contig end')
EXHAUSTIVE = {'quick': False, 'thorough': False}
TIE = 'translator+correspondence'
TIE_DETAIL = ('translate/gen_c08.py regenerates Gen/C08.v (28 per-element kernels of intervals.py, similarity_measures.py, '
              'geometry.py) and Bridge/C08.v re-proves them equal to the model (theorem C08_source_tie); every model function is also '
              'evaluated in Coq on the same input as the library call')
ASSUMPTIONS = ['npstructures RunLength2dArray.from_intervals/.sum(axis=0), RunLengthArray.to_array and indexing a run-length '
               'mask by intervals are modelled by their event meaning (external library); GenomicRunLengthArray.from_intervals '
               'is modelled by its assertions and its meaning (its internals are the subject of C09)',
               'GlobalOffset (chromosome offsets = cumulative sizes, slicing a genome-wide array per chromosome) is modelled by '
               'goff / slice (its internals are the subject of C10)',
               'floats returned by jaccard/forbes are compared with the exact fraction to 1e-12; when the denominator is 0 (empty '
               'union / an empty marginal) the per-base value is undefined and the Spec asks for what NumPy division gives: nan for 0/0',
               'rows of A without bases (start = stop) in unique_intersect are outside the property: the model follows the '
               'library (kept iff bases p-1 and p are covered) and the Spec compares only the rows with bases',
               'deep inputs (> 2^15 intervals) are evaluated in Coq through the weighted functions of Model/C08.v, which theorem '
               'C08_weighted_is_model proves equal to the models on the expanded multiset (expanding and insertion-sorting 10^5 '
               'events inside Coq is infeasible)',
               'pairs of interval sets are enumerated exhaustively only for contigs of size <= 3 (<= 2 in the quick tier); the '
               'theorems cover all sizes']
PARTIAL = ['C08_clip_inside_partial / C08_sort_lex_partial / C08_similarity_stream_pinned_refuted describe the code before the '
           'repairs fc449e4 / 3a58fb5 / a68b397 (history); the current code satisfies the unguarded statements '
           '(C08_clip_inside_fixed, C08_sort_lex_fixed, C08_model_implies_spec)']
PER_FILE = 64

OPCODE = {'pileup': 1, 'pileup_bg': 2, 'mask': 3, 'merge': 4, 'sort_key': 5, 'sort_lex': 6, 'sort_geom': 7,
          'count_overlap': 8, 'intersect': 9, 'unique_intersect': 10, 'jaccard': 11, 'forbes': 12, 'clip': 13, 'extend': 14,
          'jaccard_geom': 15, 'pileup_geom': 16, 'mask_geom': 17, 'merge_geom': 18,
          'jaccard_multi': 19, 'forbes_multi': 20, 'pileup_big': 21, 'mask_big': 22, 'merge_big': 23, 'count_overlap_big': 24}
GNAMES = ['chrA', 'chrB', 'chrC', 'chrD', 'chrE']
NAMES = ['chr1', 'chr10', 'chr2', 'chrX', 'chr2_alt']


# ----------------------------------------------------------------------------- generation
def _ivs(S, empty=False):
    out = [(s, e) for s in range(S) for e in range(s + 1, S + 1)]
    if empty:
        out += [(s, s) for s in range(S + 1)]
    return out


def _multisets(S, nmax):
    base = _ivs(S)
    for n in range(nmax + 1):
        for c in itertools.combinations_with_replacement(base, n):
            yield list(c)


def _case(op, route, size, a, b=None, d=0, **kw):
    c = dict(op=op, route=route, size=size, d=d, a=[list(x) for x in a], b=[list(x) for x in (b or [])])
    c.update(kw)
    return c


def _genome(rng, size):
    """A genome in which the contig of this case is chromosome number `rank`: (sizes, rank)."""
    pre = [rng.randint(1, 7) for _ in range(rng.choice([0, 0, 1, 2]))]
    post = [rng.randint(1, 7) for _ in range(rng.choice([0, 0, 1, 2]))]
    return dict(sizes=pre + [size] + post, rank=len(pre))


def _unary(cases, rng, size, ivs, dists=None, geom=True):
    """All unary single-contig operations on one multiset (given as (start, stop) pairs, arbitrary order)."""
    a = [(0, s, e) for s, e in ivs]
    g_ok = geom and all(s < size for s, e in ivs)          # Geometry refuses start >= size
    cases.append(_case('pileup', 'arith', size, a))
    cases.append(_case('pileup_bg', 'arith', size, a))
    cases.append(_case('mask', 'arith', size, a))
    if g_ok:
        cases.append(_case('pileup_geom', 'geom', size, a, **_genome(rng, size)))
        cases.append(_case('mask_geom', 'geom', size, a, **_genome(rng, size)))
    if all(s < e for s, e in ivs):
        # merge wants the input sorted on start; ties keep a random order
        srt = sorted(a, key=lambda t: t[1])
        for d in (dists if dists is not None else range(size + 1)):
            cases.append(_case('merge', 'arith', size, srt, d=d))
            if d in (1, size) and srt:
                # the same Interval object is used again after merge_intervals: the call must not have changed it
                cases.append(_case('pileup', 'after_merge', size, srt, d=d))
            if g_ok and d in (0, 1, size):
                cases.append(_case('merge_geom', 'geom', size, srt, d=d, **_genome(rng, size)))


def _binary(cases, rng, size, A, B, ops=('count_overlap', 'intersect', 'unique_intersect', 'jaccard', 'forbes'), geom=True):
    a = [(0, s, e) for s, e in A]
    b = [(0, s, e) for s, e in B]
    for op in ops:
        if op in ('jaccard', 'forbes'):
            # the similarity measures want sorted input
            sa, sb = sorted(a), sorted(b)
            cases.append(_case(op, 'arith', size, sa, sb))
            if op == 'jaccard' and geom and all(s < size for _, s, e in a + b):
                cases.append(_case('jaccard_geom', 'geom', size, sa, sb, **_genome(rng, size)))
        else:
            cases.append(_case(op, 'arith', size, a, b))


def _rand_set(rng, size, n, empty_p=0.0):
    out = []
    for _ in range(n):
        if rng.random() < empty_p:
            s = rng.randint(0, size)
            out.append((s, s))
            continue
        kind = rng.random()
        if kind < 0.15:
            s = 0
        elif kind < 0.3 and out:
            s = rng.choice(out)[rng.randint(0, 1)]         # share an endpoint with an earlier interval
            s = min(s, size - 1)
        else:
            s = rng.randint(0, size - 1)
        kind = rng.random()
        if kind < 0.15:
            e = size
        elif kind < 0.3 and out:
            e = rng.choice(out)[rng.randint(0, 1)]
            if e <= s:
                e = s + 1
        else:
            e = rng.randint(s + 1, min(size, s + 1 + max(1, size // 2)))
        out.append((s, e))
    return out


def _sort_cases(cases, rng, n_cases, tier):
    for i in range(n_cases):
        k = rng.randint(1, 3)
        names = rng.sample(NAMES, k)
        size = rng.choice([2, 3, 4, 6, 9])
        n = rng.choice([0, 1, 2, 3, 3, 4, 5, 6, 8]) if i % 7 else rng.randint(8, 14)
        ivs = []
        for _ in range(n):
            c = rng.randrange(k)
            if ivs and rng.random() < 0.45:                    # tie on (chromosome, start) with another stop
                c, s, _ = rng.choice(ivs)
            else:
                s = rng.randint(0, size - 1)
            e = rng.randint(s + 1, size)
            ivs.append((c, s, e))
        a = [list(x) for x in ivs]
        order_key = sorted(names)                               # default key function: the name itself
        cases.append(dict(op='sort_key', route='key', size=size, d=0, a=a, b=[], names=names, order=order_key))
        perm = names[:]
        rng.shuffle(perm)
        cases.append(dict(op='sort_key', route='order', size=size, d=0, a=a, b=[], names=names, order=perm))
        perm2 = names[:]
        rng.shuffle(perm2)
        cases.append(dict(op='sort_lex', route='lex', size=size, d=0, a=a, b=[], names=names, order=perm2))
        perm3 = names[:]
        rng.shuffle(perm3)
        if n and not any('_' in x for x in names):       # GenomeContext drops names with '_' (C12's subject)
            cases.append(dict(op='sort_geom', route='geom', size=size, d=0, a=a, b=[], names=names, order=perm3,
                              sizes=[size + rng.choice([0, 0, 1, 3]) for _ in perm3], rank=0))


def _clip_extend(cases, rng, n_cases):
    for i in range(n_cases):
        size = rng.choice([1, 2, 3, 5, 6, 10])
        n = rng.randint(0, 5)
        a = []
        for _ in range(n):
            s = rng.randint(-3, size + 3)
            e = rng.randint(s, size + 4)
            a.append((0, s, e))
        cases.append(_case('clip', 'arith', size, a))
        cases.append(_case('clip', 'geom', size, a, **_genome(rng, size)))
        # only intervals that meet the contig (the class the pinned clip handles)
        a2 = [(0, s, e) for _, s, e in a if s <= size and e >= 0]
        cases.append(_case('clip', 'arith', size, a2))
        frag = rng.choice([0, 1, 2, 3, size - 1, size, size + 1, size + 3])
        frag = max(frag, 0)
        b6 = []
        for _ in range(rng.randint(0, 5)):
            s = rng.choice([0, 0, size - 1] + list(range(size)))
            e = rng.choice([size, s + 1] + list(range(s + 1, size + 1)))
            b6.append((rng.randint(0, 1), s, e))
        cases.append(_case('extend', 'arith', size, b6, d=frag))
        cases.append(_case('extend', 'arith_vec', size, b6, d=frag))
        cases.append(_case('extend', 'geom', size, b6, d=frag, **_genome(rng, size)))


def _weighted(rng, size, total, k):
    """k distinct non-empty intervals on the contig with multiplicities >= 1 summing to `total`: rows (mult, start, stop)."""
    base = _ivs(size)
    ivs = rng.sample(base, max(1, min(k, len(base), total)))
    rest = total - len(ivs)
    cuts = sorted(rng.randint(0, rest) for _ in range(len(ivs) - 1))
    parts = [b - a for a, b in zip([0] + cuts, cuts + [rest])]
    return [(1 + p, s, e) for p, (s, e) in zip(parts, ivs)]


def _big_cases(cases, rng, tier):
    """Interval counts just above the block sizes 2^15 and 2^16 (not multiples of them) on a tiny contig; the rows are
    handed to Coq with multiplicities.  The library gets the expanded rows in a seeded random order (sorted for merge)."""
    totals = [(1 << 15) + 1, (1 << 15) + 7, 40000, (1 << 16) + 1, (1 << 16) + 3]
    if tier != 'quick':
        totals += [(1 << 15) * 3 + 5, (1 << 17) + 1]
    for n in totals:
        size = rng.choice([5, 8, 13, 24, 40, 64])
        W = _weighted(rng, size, n, rng.choice([6, 12, 25]))
        order_seed = rng.randint(0, 10 ** 9)
        cases.append(dict(op='pileup_big', route='arith', size=size, d=0, a=[list(x) for x in W], b=[], order_seed=order_seed))
        cases.append(dict(op='mask_big', route='arith', size=size, d=0, a=[list(x) for x in W], b=[], order_seed=order_seed))
        Ws = sorted(W, key=lambda t: t[1])
        cases.append(dict(op='merge_big', route='arith', size=size, d=rng.choice([0, 1, 2]), a=[list(x) for x in Ws], b=[], order_seed=order_seed))
        WB = _weighted(rng, size, rng.choice([3, 50, n // 2 + 1]), rng.choice([3, 6]))
        cases.append(dict(op='count_overlap_big', route='arith', size=size, d=0, a=[list(x) for x in W], b=[list(x) for x in WB],
                          order_seed=order_seed))


def _session_cases(cases, rng, n_sessions):
    """Sessions: the SAME Interval objects are passed to several consecutive similarity calls with different contig sizes,
    genomes and partner sets; case j of a session is call j (observed after calls 0..j-1 in the same process).  A result
    may depend only on the arguments of its own call."""
    for i in range(n_sessions):
        nsteps = rng.randint(2, 4)
        multi = i % 3 == 2
        smin = rng.randint(1, 5)
        if multi:
            pool = [sorted((0, s, e) for s, e in _rand_set(rng, smin, rng.randint(0, 2))) for _ in range(3)]
        else:
            pool = [sorted((0, s, e) for s, e in _rand_set(rng, smin, rng.randint(0, 3))) for _ in range(3)]
        steps = []
        ia, ib = 0, 1
        for j in range(nsteps):
            if j and rng.random() < 0.35:            # another partner set, the first object stays
                ib = rng.choice([1, 2])
            size = smin + rng.choice([0, 1, 2, 5])
            sizes = [size] + ([rng.randint(1, 4) for _ in range(rng.randint(0, 2))] if multi else [])
            op = rng.choice(['jaccard', 'forbes'])
            steps.append(dict(op=op + ('_multi' if multi else ''), sizes=sizes, ia=ia, ib=ib))
        for j, st in enumerate(steps):
            cases.append(dict(op=st['op'], route='session', size=max(st['sizes']) if multi else st['sizes'][0], d=0,
                              a=[list(x) for x in pool[st['ia']]], b=[list(x) for x in pool[st['ib']]],
                              sizes=st['sizes'], rank=0, session=dict(pool=[[list(x) for x in p] for p in pool], steps=steps), index=j))


def generate(tier, seed):
    rng = random.Random(seed * 104729 + 8)
    cases = []
    quick = tier == 'quick'
    # ---- unary operations, exhaustive small scope (input order shuffled)
    smax = 4 if quick else 6
    for S in range(1, smax + 1):
        for ms in _multisets(S, 3):
            ms = ms[:]
            rng.shuffle(ms)
            _unary(cases, rng, S, ms)            # every merge distance 0..S
    if quick:
        for S in (5, 6):
            allm = list(_multisets(S, 3))
            for ms in rng.sample(allm, 150):
                ms = ms[:]
                rng.shuffle(ms)
                _unary(cases, rng, S, ms, dists=sorted({0, 1, rng.randint(0, S), S}))
    # ---- unary, sampled: larger contigs, more intervals, empty intervals
    for i in range(250 if quick else 1500):
        S = rng.choice([3, 5, 6, 7, 10, 16, 30, 60])
        n = rng.choice([1, 2, 3, 4, 5, 6, 8, 10, 14])
        ms = _rand_set(rng, S, n, empty_p=0.15 if i % 3 == 0 else 0.0)
        _unary(cases, rng, S, ms, dists=sorted({0, 1, 2, rng.randint(0, S), S}))
    # ---- binary operations: exhaustive pairs on the smallest contigs
    pmax = 2 if quick else 3
    for S in range(1, pmax + 1):
        sets = list(_multisets(S, 3))
        for A in sets:
            for B in sets:
                if S <= 2:
                    _binary(cases, rng, S, A, B)
                else:
                    _binary(cases, rng, S, A, B, ops=('count_overlap', 'intersect'))
                    if rng.random() < 0.15:
                        _binary(cases, rng, S, A, B, ops=('unique_intersect', 'jaccard', 'forbes'))
    # ---- binary, sampled pairs of small sets on contigs 3..6, then larger
    for i in range(700 if quick else 4000):
        S = rng.choice([3, 4, 5, 6])
        base = _ivs(S)
        A = [rng.choice(base) for _ in range(rng.randint(0, 3))]
        B = [rng.choice(base) for _ in range(rng.randint(0, 3))]
        _binary(cases, rng, S, A, B)
    for i in range(200 if quick else 1000):
        S = rng.choice([7, 10, 16, 30, 60])
        A = _rand_set(rng, S, rng.choice([0, 1, 2, 4, 6, 9, 14]), empty_p=0.1 if i % 4 == 0 else 0.0)
        B = _rand_set(rng, S, rng.choice([0, 1, 2, 4, 6, 9, 14]), empty_p=0.1 if i % 4 == 1 else 0.0)
        if i % 2:
            # internally disjoint sets (the "overlap" reading of count_overlap / intersect)
            A = _disjoint(rng, S, A)
            B = _disjoint(rng, S, B)
        _binary(cases, rng, S, A, B)
    # ---- similarity measures with an empty set on either side and on both sides (arithmetics and Geometry routes)
    for i in range(60 if quick else 400):
        S = rng.choice([1, 2, 3, 5, 6, 10])
        X = _rand_set(rng, S, rng.choice([1, 2, 3, 5]))
        for A, B in (([], X), (X, []), ([], [])):
            _binary(cases, rng, S, A, B, ops=('jaccard', 'forbes'))
    # ---- jaccard / forbes on genomes with several contigs; a contig may carry intervals of only one set or of none
    for i in range(250 if quick else 2000):
        k = rng.randint(2, 3) if i % 5 else 1
        sizes = [rng.randint(1, 6) for _ in range(k)]
        rows = []
        for _ in range(2):
            r = []
            for ci in range(k):
                if rng.random() < 0.4:
                    continue
                for s, e in _rand_set(rng, sizes[ci], rng.randint(1, 2)):
                    r.append((ci, s, e))
            rows.append(sorted(r))
        for op in ('jaccard_multi', 'forbes_multi'):
            cases.append(dict(op=op, route='arith', size=max(sizes), d=0, a=[list(x) for x in rows[0]], b=[list(x) for x in rows[1]],
                              sizes=sizes, rank=0))
    # ---- unique_intersect with rows of A that have no bases (start = stop): not in the property; the model follows the library
    for i in range(300 if quick else 2000):
        S = rng.choice([2, 3, 4, 5, 6])
        basee = _ivs(S, empty=True)
        A = [rng.choice(basee) for _ in range(rng.randint(1, 3))]
        B = [rng.choice(_ivs(S)) for _ in range(rng.randint(0, 3))]
        _binary(cases, rng, S, A, B, ops=('unique_intersect',))
    _session_cases(cases, rng, 150 if quick else 1000)
    _big_cases(cases, rng, tier)
    _sort_cases(cases, rng, 300 if quick else 2000, tier)
    _clip_extend(cases, rng, 200 if quick else 1200)
    return cases


def _disjoint(rng, size, ivs):
    out, last = [], 0
    for s, e in sorted(ivs):
        if s < last:
            s = last
        if e <= s:
            continue
        out.append((s, e))
        last = e if rng.random() < 0.5 else e + 1       # touching or separated
    rng.shuffle(out)
    return out


# ----------------------------------------------------------------------------- implementation side
def _err(e):
    if isinstance(e, AssertionError):
        return dict(err=1, msg='AssertionError')
    return dict(err=2, msg='%s: %s' % (type(e).__name__, str(e)[:120]))


def _layout(case):
    """(chromosome sizes of the genome, rank of the contig) — a one-chromosome genome unless the case says otherwise."""
    if 'sizes' in case:
        return list(case['sizes']), int(case.get('rank', 0))
    if case['op'] == 'sort_geom':
        return [case['size']] * len(case['order']), 0
    return [case['size']], 0


def observe(case):
    import warnings
    warnings.simplefilter('ignore')
    import numpy as np
    import bionumpy as bnp  # noqa: F401
    from bionumpy.datatypes import Interval, Bed6
    from bionumpy import arithmetics as ar
    from bionumpy.arithmetics import intervals as ivm
    from bionumpy.arithmetics import bedgraph as bgm
    from bionumpy.genomic_data.geometry import Geometry
    from bionumpy.encodings.string_encodings import StringEncoding

    op, route, size, d = case['op'], case['route'], case['size'], case['d']
    names = case.get('names', ['chr1'])
    sizes, rank = _layout(case)
    contig = GNAMES[rank] if route == 'geom' and not op.startswith('sort') else 'chr1'
    genome = {GNAMES[i]: z for i, z in enumerate(sizes)}

    def mk(rows, chrom=None):
        if not rows:
            return mk([[0, 0, 1]], chrom)[:0]
        ch = [names[t] for t, s, e in rows] if op.startswith('sort') else [contig] * len(rows)
        if chrom is not None:
            ch = chrom(ch)
        return Interval(ch, np.array([s for t, s, e in rows], dtype=int), np.array([e for t, s, e in rows], dtype=int))

    def ivs_out(r, tagf=lambda i, r: 0):
        st, en = np.asarray(r.start).tolist(), np.asarray(r.stop).tolist()
        return [[int(tagf(i, r)), int(s), int(e)] for i, (s, e) in enumerate(zip(st, en))]

    try:
        a, b = case['a'], case['b']
        if route == 'session':
            ses = case['session']

            def mks(rows):
                if not rows:
                    return Interval([GNAMES[0]], np.array([0]), np.array([1]))[:0]
                return Interval([GNAMES[t] for t, s, e in rows], np.array([s for t, s, e in rows], dtype=int),
                                np.array([e for t, s, e in rows], dtype=int))
            objs = [mks(p) for p in ses['pool']]          # built once: the same objects go into every call
            f = None
            for st in ses['steps'][:case['index'] + 1]:
                g = {GNAMES[i]: z for i, z in enumerate(st['sizes'])}
                f = float(getattr(ar, st['op'].split('_')[0])(g, objs[st['ia']], objs[st['ib']]))
            if math.isnan(f):
                return dict(err=0, kind=1, num=0, den=1)
            if math.isinf(f):
                return dict(err=0, kind=2, num=0, den=1)
            n, m = f.as_integer_ratio()
            return dict(err=0, kind=0, num=n, den=m)
        if op.endswith('_big'):
            def expand(rows, shuffle=True):
                st = np.repeat(np.array([s for m, s, e in rows], dtype=int), [m for m, s, e in rows])
                en = np.repeat(np.array([e for m, s, e in rows], dtype=int), [m for m, s, e in rows])
                if shuffle:
                    perm = np.random.RandomState(case['order_seed'] % (2 ** 31)).permutation(len(st))
                    st, en = st[perm], en[perm]
                return Interval(['chr1'] * len(st), st, en)
            if op == 'pileup_big':
                return dict(err=0, dense=[int(x) for x in ar.get_pileup(expand(a), size).to_array()])
            if op == 'mask_big':
                return dict(err=0, dense=[int(bool(x)) for x in ar.get_boolean_mask(expand(a), size).to_array()])
            if op == 'merge_big':
                return dict(err=0, ivs=ivs_out(ar.merge_intervals(expand(a, shuffle=False), d)))
            return dict(err=0, num=int(ar.count_overlap(expand(a), expand(b))))
        if op == 'pileup' and route == 'after_merge':
            iv = mk(a)
            ar.merge_intervals(iv, d)
            r = ar.get_pileup(iv, size)
            return dict(err=0, dense=[int(x) for x in r.to_array()])
        if op in ('jaccard_multi', 'forbes_multi'):
            def mkg(rows):
                if not rows:
                    return Interval([GNAMES[0]], np.array([0]), np.array([1]))[:0]
                return Interval([GNAMES[t] for t, s, e in rows], np.array([s for t, s, e in rows], dtype=int),
                                np.array([e for t, s, e in rows], dtype=int))
            f = float(getattr(ar, op.split('_')[0])(genome, mkg(a), mkg(b)))
            if math.isnan(f):
                return dict(err=0, kind=1, num=0, den=1)
            if math.isinf(f):
                return dict(err=0, kind=2, num=0, den=1)
            n, m = f.as_integer_ratio()
            return dict(err=0, kind=0, num=n, den=m)
        if op == 'pileup':
            if route == 'arith':
                r = ar.get_pileup(mk(a), size)
                return dict(err=0, dense=[int(x) for x in r.to_array()])
            raise RuntimeError('route')
        if op == 'pileup_geom':
            r = Geometry(genome).get_pileup(mk(a))
            return dict(err=0, dense=[int(x) for x in np.asarray(r.to_dict()[contig])])
        if op == 'pileup_bg':
            r = bgm.get_pileup(mk(a), size)
            return dict(err=0, dense=[int(x) for x in r.to_array()])
        if op == 'mask':
            if route == 'arith':
                r = ar.get_boolean_mask(mk(a), size)
                return dict(err=0, dense=[int(bool(x)) for x in r.to_array()])
            raise RuntimeError('route')
        if op == 'mask_geom':
            r = Geometry(genome).get_mask(mk(a))
            return dict(err=0, dense=[int(bool(x)) for x in np.asarray(r.to_dict()[contig])])
        if op == 'merge':
            return dict(err=0, ivs=ivs_out(ar.merge_intervals(mk(a), d)))
        if op == 'merge_geom':
            return dict(err=0, ivs=ivs_out(Geometry(genome).merge_intervals(mk(a), d)))
        if op in ('sort_key', 'sort_lex', 'sort_geom'):
            order = case['order']
            rank = {n: i for i, n in enumerate(order)}
            if route == 'key':
                r = ar.sort_intervals(mk(a))
            elif route == 'order':
                r = ar.sort_intervals(mk(a), sort_order=order)
            elif route == 'lex':
                enc = StringEncoding(order)
                r = ar.sort_intervals(mk(a, chrom=enc.encode))
            else:
                r = Geometry({n: z for n, z in zip(order, sizes)}).sort(mk(a))
            if route == 'lex':
                chroms = [order[int(c)] for c in np.asarray(r.chromosome.raw()).ravel().tolist()]
            else:
                chroms = [str(c.to_string()) if hasattr(c, 'to_string') else str(c) for c in r.chromosome]
            return dict(err=0, ivs=ivs_out(r, lambda i, r: rank[chroms[i]]))
        if op == 'count_overlap':
            r = ar.count_overlap(mk(a), mk(b))
            return dict(err=0, num=int(r))
        if op == 'intersect':
            return dict(err=0, ivs=ivs_out(ar.intersect(mk(a), mk(b))))
        if op == 'unique_intersect':
            return dict(err=0, ivs=ivs_out(ar.unique_intersect(mk(a), mk(b), size)))
        if op in ('jaccard', 'forbes', 'jaccard_geom'):
            if route == 'arith':
                f = getattr(ar, op)({'chr1': size}, mk(a), mk(b))
            else:
                f = Geometry(genome).jaccard(mk(a), mk(b))
            f = float(f)
            if math.isnan(f):
                return dict(err=0, kind=1, num=0, den=1)
            if math.isinf(f):
                return dict(err=0, kind=2, num=0, den=1)
            n, m = f.as_integer_ratio()
            return dict(err=0, kind=0, num=n, den=m)
        if op == 'clip':
            if route == 'arith':
                r = ivm.clip(mk(a), size)
            else:
                r = Geometry(genome).clip(mk(a))
            return dict(err=0, ivs=ivs_out(r))
        if op == 'extend':
            n = len(a)
            if n:
                b6 = Bed6([contig] * n, np.array([s for t, s, e in a], dtype=int), np.array([e for t, s, e in a], dtype=int),
                          ['n%d' % i for i in range(n)], [0] * n, ['+' if t == 1 else '-' for t, s, e in a])
            else:
                b6 = Bed6(['chr1'], np.array([0]), np.array([1]), ['n'], [0], ['+'])[:0]
            if route == 'arith':
                r = ivm.extend_to_size(b6, d, size)
            elif route == 'arith_vec':
                r = ivm.extend_to_size(b6, d, np.full(n, size, dtype=int))
            else:
                r = Geometry(genome).extend_to_size(b6, d)
            strands = [s.to_string() if hasattr(s, 'to_string') else str(s) for s in r.strand.ravel()] if n else []
            return dict(err=0, ivs=ivs_out(r, lambda i, r: 1 if strands[i] == '+' else 0))
        raise RuntimeError('unknown op ' + op)
    except Exception as e:  # every library exception is an observation (the models return None for assertions)
        return _err(e)


# ----------------------------------------------------------------------------- Coq side
def _tivs(rows):
    return clist(['(%s, %s, %s)' % (cz(t), cz(s), cz(e)) for t, s, e in rows], 'tiv')


def _ranked(case):
    """Input rows with the chromosome index replaced by its rank under the route's order."""
    if not case['op'].startswith('sort'):
        return case['a']
    rank = {n: i for i, n in enumerate(case['order'])}
    return [[rank[case['names'][t]], s, e] for t, s, e in case['a']]


def to_coq(case, o):
    sizes, rank = _layout(case)
    return ('{| k_op := %s; k_size := %s; k_d := %s; k_sizes := %s; k_rank := %s; k_a := %s; k_b := %s; k_err := %s; k_dense := %s; k_ivs := %s; '
            'k_num := %s; k_den := %s; k_kind := %s |}' % (
                cz(OPCODE[case['op']]), cz(case['size']), cz(case['d']), zl(sizes), cz(rank), _tivs(_ranked(case)), _tivs(case['b']),
                cz(o.get('err', 2)), zl(o.get('dense', [])), _tivs(o.get('ivs', [])),
                cz(o.get('num', 0)), cz(o.get('den', 1)), cz(o.get('kind', 0))))


def _pairs(case):
    return [(s, e) for _, s, e in case['a']] + [(s, e) for _, s, e in case['b']]


def nontrivial(case, o):
    p = _pairs(case)
    size = case['size']
    if any(s == 0 or e == size for s, e in p):
        return True
    for i in range(len(p)):
        for j in range(i + 1, len(p)):
            (s1, e1), (s2, e2) = p[i], p[j]
            if {s1, e1} & {s2, e2} or (s1 < e2 and s2 < e1):
                return True
    return False


def describe(case, o):
    return dict(op=case['op'], route=case['route'], size=case['size'], d=case['d'], a=_ranked(case), b=case['b'],
                genome=_layout(case), observed=o)


def explain(case, o):
    return 'operation %s (route %s) on a contig of size %d; rows are (tag, start, stop); observed %s' % (
        case['op'], case['route'], case['size'], o)


def distribution(cases, obs):
    d = dict(ops={}, sizes={}, n_intervals={}, errors={}, with_empty_interval=0, empty_set=0, touching_end=0)
    for c, o in zip(cases, obs):
        k = c['op'] + '/' + c['route']
        d['ops'][k] = d['ops'].get(k, 0) + 1
        s = str(c['size']) if c['size'] <= 6 else '>6'
        d['sizes'][s] = d['sizes'].get(s, 0) + 1
        n = len(c['a']) + len(c['b'])
        n = str(n) if n <= 6 else '>6'
        d['n_intervals'][n] = d['n_intervals'].get(n, 0) + 1
        if isinstance(o, dict) and o.get('err'):
            m = o.get('msg', '?').split(':')[0]
            d['errors'][m] = d['errors'].get(m, 0) + 1
        p = _pairs(c)
        d['with_empty_interval'] += any(s == e for s, e in p)
        d['empty_set'] += (not c['a']) or (c['op'] in ('count_overlap', 'intersect', 'unique_intersect', 'jaccard', 'forbes', 'jaccard_geom') and not c['b'])
        d['touching_end'] += any(e == c['size'] for s, e in p)
    return d


# ----------------------------------------------------------------------------- findings
def _only_stop_order_wrong(case, o):
    """The output is a permutation of the input ordered by (rank, start); only stops inside ties are unordered."""
    if o.get('err') != 0:
        return False
    inp = sorted(map(tuple, _ranked(case)))
    out = [tuple(x) for x in o['ivs']]
    if sorted(out) != inp:
        return False
    if [x[:2] for x in out] != sorted(x[:2] for x in out):
        return False
    return out != sorted(out)


def finding(case, o):
    # no known finding is left for C08: the four defects met (lexsort / Geometry.sort ignoring the stop, clip outside the
    # contig, jaccard / forbes raising on an empty set) are repaired in /repo; if one comes back it is a violation
    return None


def signature(case, o):
    return '%s/%s/err%s' % (case['op'], case['route'], o.get('err'))


def search(tier, seed, disagreeing):
    """Neighbourhood of the disagreeing cases: same operation on every multiset of <=3 intervals of small contigs."""
    rng = random.Random(seed + 99)
    ops = sorted({(c['op'], c['route']) for c in disagreeing}) or [('merge', 'arith')]
    out = []
    for op, route in ops:
        for S in range(1, 5):
            for ms in _multisets(S, 3):
                tmp = []
                if op in ('pileup', 'pileup_bg', 'mask', 'merge', 'pileup_geom', 'mask_geom', 'merge_geom'):
                    _unary(tmp, rng, S, ms)
                elif op in ('count_overlap', 'intersect', 'unique_intersect', 'jaccard', 'forbes', 'jaccard_geom'):
                    for B in rng.sample(list(_multisets(S, 2)), min(6, len(list(_multisets(S, 2))))):
                        _binary(tmp, rng, S, ms, B, ops=('jaccard' if op == 'jaccard_geom' else op,))
                out += [c for c in tmp if c['op'] == op and c['route'] == route]
        if op.startswith('sort'):
            _sort_cases(out, rng, 200, tier)
        if op in ('clip', 'extend'):
            _clip_extend(out, rng, 200)
    return out[:6000]

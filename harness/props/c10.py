"""C10 — genome-wide operations respect chromosome boundaries."""
import itertools
import os
import random
import shutil
import tempfile

from harness.lib import hx, zl, cz, cbool, clist

ID = 'C10'
RULE = ('[round 6: the run-length VIEW of genome-wide arrays — get_data() of pileup / mask / ~mask, GenomicIntervals.from_track, '
        'from_bedgraph(get_data()) round trip, GenomicSequence[mask], GenomicArray[mask] — on every base scenario, on 1..5-chromosome genomes with a '
        'coverage pattern per chromosome (none / full / head / tail / inner / both ends / doubly full: constant runs of the concatenated track that '
        'span 0, 1, 2, 3 chromosome boundaries), and exhaustively on {2,1,2} x {none,full,head,tail}^3 and {1,1,1,1} x {none,full}^4] '
        '[also: 2..3-step programs = interval-producing operations (sorted, merged, clip, extended_to_size, [::-1], [mask], '
        'get_location.get_windows) followed by a strand-aware consumer (array values, sequence, get_location) on stranded tables '
        'with - rows, on plain and with_ignored_added genomes] '
        'genomes of 1..4 chromosomes (sizes 1..S; names where one is a prefix of another; names with "_" under the '
        'keep-all and the ignore-underscore filter; in 60% of the scenarios followed by 0..2 Genome.with_ignored_added calls of '
        '0..2 existing or new names, entries also on the added names) x interval / location sets per chromosome with endpoints drawn '
        'mostly from {0,1,size-1,size}, x every operation of the property (coordinates, pileup, mask, merged(d), clip, '
        'extended_to_size, sorted, get_location, get_windows, array and sequence extraction, Geometry.*); '
        'non-trivial = at least two included chromosomes and some entry touches a chromosome end '
        '(start 0 or stop = size), or a chromosome between others has no entries')
EXHAUSTIVE = {'quick': False, 'thorough': False}
TIE = 'translator+correspondence'
TIE_DETAIL = ('translator: translate/gen_c10.py regenerates Gen/C10.v (41 definitions: GlobalOffset bounds checks / offsets / '
              'searchsorted-1, get_windows flanks, clip, extend_to_size, get_location, merged gap/shift) on every run and '
              'Bridge/C10.v proves them equal to the named helpers of Model/C10.v and the model functions equal to those '
              'helpers put together (theorem C10_source_tie); correspondence: the whole model evaluated in Coq on the same '
              'genome and entries as the public API')
ASSUMPTIONS = ['run-length view (get_data / from_track / from_bedgraph round trip): the observed rows are compared after joining touching pieces of equal '
               'value on the SAME chromosome (a GenomicRunLengthArray from get_pileup may hold one run in two pieces; the model lists maximal runs); '
               'nothing is joined across chromosomes and the row order (genome order) is compared',
               'single-contig kernels get_pileup / get_boolean_mask / merge_intervals are modelled by coverage counting '
               'and the running-maximum merge (their correctness is property C08); npstructures run-length arrays are '
               'read through to_array()',
               'intervals with start > stop are not generated (C10_model_ok_spec_ok assumes start <= stop); zero-length '
               'intervals are used for sequence extraction (sets of empty / length-1 intervals are ordinary cases since the '
               'np.where repair broadcast_row_mask) but not for array-value extraction (GenomicArray[intervals]: not part of that repair, left as it was)',
               'merged() is exercised on input sorted by (chromosome, start) as merge_intervals requires',
               'the streamed classes (GenomicIntervalsStreamed, GenomicArrayNode, GenomicLocationStreamed) are outside this '
               'property (its observe_at lists the in-memory API; streams are C11/C12)',
               'the indexed-FASTA sequence route is exercised after with_ignored_added with existing AND new names (a name that is not in '
               'the file made IndexedFasta raise KeyError before notes/C10.fix-5.diff, committed as d821780; flag FASTA_WITH_NEW_IGNORED = True)',
               'translator reading: element-wise NumPy expressions per element; np.any/np.all guards as per-element '
               'predicates; np.searchsorted as a call of the model function with the side passed on']
PARTIAL = ['OUnder (GenomicSequence[mask], GenomicArray[mask]: values at the True positions of a genome-wide mask) is compared with model and spec '
           'case by case only: case_wf is False for it, C10_model_ok_spec_ok says nothing there (C10_runs_local covers the get_data rows it is built on)',
           'C10_strandedness_preserved / C10_prog_spec carry the hypothesis (extend_keeps_strand = true \\/ unstranded \\/ no extended_to_size step); '
           'it is discharged for the code at HEAD: extended_to_size passes the strandedness flag on since 6e6bc4f (notes/C10.fix-6.diff committed), the '
           'model constant is extend_keeps_strand = true and stranded programs with an extended_to_size step are generated with every consumer '
           '(flag EXTEND_KEEPS_STRAND = True); C10_strandedness_lost_refuted is history about the code before that commit',
           'C10_clip_partial: GenomicIntervalsFull.clip equals the single-contig two-sided clip for intervals reaching their chromosome range '
           '(start <= size, 0 <= stop); an interval entirely outside is clipped to an empty interval inside the chromosome since 8f28cdf '
           '(notes/C10.fix-4.diff committed) and is generated (flag CLIP_OUTSIDE_FULL = True); C10_clip_one_sided_refuted is history about the one-sided formula',
           'C10_seq is in force without a guard: stranded sequence extraction is right for every interval set, also when every interval has '
           'length 1 or is empty (np.where repair broadcast_row_mask, notes/C14.fix-2.final.diff; the mask expression of GenomicSequence.extract_intervals '
           'is regenerated and tied in Bridge/C14.v); C10_seq_pinned_partial / C10_seq_pinned_refuted are history about the column-mask code '
           '(former finding C10-seq-stranded-all-length-one)',
           'History (code before fix-1/2/3, definitions *_pinned kept): C10_merged_pinned_partial + *_refuted, '
           'C10_pileup_negative_start_refuted, C10_location_pinned_partial/_refuted',
           'C10_sorted / C10_geo_sort prove permutation + order, not stability (ties are indistinguishable in the observed columns)',
           'list-level NumPy (cumsum offsets table, searchsorted, lexsort, run-length slicing), sequence lookup and the C08 kernels '
           'are tied by correspondence only (not translated)']
PER_FILE = 40
# GenomicIntervalsFull.clip on an interval lying entirely outside its chromosome ([5,7) on size 3 gave [5,3) before
# notes/C10.fix-4.diff, committed as 8f28cdf; m_clip_start / m_clip_stop in Model/C10.v are the two-sided form): generated.
CLIP_OUTSIDE_FULL = True
# Genome.from_file(fasta).with_ignored_added([<name not in the file>]).read_sequence()[intervals] raises KeyError at HEAD
# before notes/C10.fix-5.diff (committed as d821780); the indexed-FASTA route is generated with new names as well.
FASTA_WITH_NEW_IGNORED = True
# GenomicIntervalsFull.extended_to_size() dropped the strandedness flag before notes/C10.fix-6.diff (committed as 6e6bc4f;
# extend_keeps_strand := true in Model/C10.v): stranded programs with an extended_to_size step are generated with every consumer.
EXTEND_KEEPS_STRAND = True

ERR = {'AssertionError': 1, 'AttributeError': 2, 'IndexError': 3, 'GenomeError': 4, 'Exception': 5,
       'ComputationException': 6}
NAME_POOLS = [['chr1', 'chr11', 'chr2', 'chr1_alt', 'chr'],
              ['c', 'ch', 'chr', 'chr_x', 'ch_'],
              ['a', 'ab', 'a_b', 'b', 'abc'],
              ['chr1', 'chr2', 'chr3', 'chr4', 'chr2_random'],
              ['1', '11', '1_1', '2', '111']]


# ----------------------------------------------------------------------------- generator
def _included(genome, filt, added=()):
    """indices of the chromosomes of the genome: kept by the filter and never handed to with_ignored_added"""
    gone = {n for step in added for n in step}
    return [i for i, (n, s) in enumerate(genome) if (filt == 'keep' or '_' not in n) and n not in gone]


def _ext(genome, added):
    """the dict after the with_ignored_added steps: new names are appended (size 0), in order of first appearance"""
    ext = [list(x) for x in genome]
    have = {n for n, s in ext}
    for step in added:
        for n in step:
            if n not in have:
                have.add(n)
                ext.append([n, 0])
    return ext


NEW_NAMES = ['chrEBV', 'chrUn_x', 'zz', 'chr1_gl', 'M']


def _gen_added(rng, genome, filt):
    """0..2 with_ignored_added steps of 0..2 names each: existing names (ignored ones and regular ones) and new ones"""
    while True:
        steps = []
        for _ in range(rng.choice([0, 1, 1, 2])):
            k = rng.choice([0, 1, 1, 2])
            pool = [n for n, s in genome] + NEW_NAMES[:3] + [rng.choice(NEW_NAMES)]
            steps.append(rng.sample(pool, k))
        if _included(genome, filt, steps):
            return steps


def _gen_genome(rng, S):
    while True:
        pool = rng.choice(NAME_POOLS)
        n = rng.choice([1, 2, 2, 3, 3, 3, 4, 4])
        names = rng.sample(pool, n)
        filt = rng.choice(['keep', 'us', 'us'])
        genome = [[nm, rng.choice([1, 1, 2, 3, S, rng.randint(1, S)])] for nm in names]
        if _included(genome, filt):
            return genome, filt


def _endpoint(rng, size):
    if rng.random() < 0.7:
        return rng.choice([0, 1, size - 1, size])
    return rng.randint(0, size)


def _gen_entries(rng, genome, on, boundary):
    """entries [chr, start, stop, fwd] sorted by (chr, start, stop); `on`: chromosome indices that may carry entries"""
    es = []
    for i in on:
        size = genome[i][1]
        k = rng.choice([0, 0, 1, 1, 2, 3])
        if size == 0:                 # a name that only exists as "known but ignored"
            es += [[i, 0, 1, rng.randint(0, 1)] for _ in range(min(k, 1))]
            continue
        for _ in range(k):
            a, b = _endpoint(rng, size), _endpoint(rng, size)
            a, b = min(a, b), max(a, b)
            a = max(0, min(a, size - 1))
            b = max(a, b)
            es.append([i, a, b, rng.randint(0, 1)])
    if boundary and len(on) >= 2:
        # an interval that ends exactly at a chromosome end next to one starting at position 0
        j = rng.randrange(len(on) - 1)
        i1, i2 = on[j], on[j + 1]
        s1, s2 = genome[i1][1], genome[i2][1]
        es.append([i1, rng.randint(0, s1 - 1), s1, rng.randint(0, 1)])
        es.append([i2, 0, rng.randint(1, s2), rng.randint(0, 1)])
    es.sort(key=lambda e: (e[0], e[1], e[2]))
    return es


def _ops_for(rng, genome, filt, es, es_all, shuffled, locs, tier, added=()):
    """all operations on one base scenario.  es: entries on included chromosomes only (sorted);
    es_all: entries possibly also on ignored chromosomes (sorted); shuffled: es_all in random order"""
    added = [list(st) for st in added]
    ext = _ext(genome, added)
    vals = [[(i + 1) * 10 + p for p in range(s)] for i, (n, s) in enumerate(ext)]
    out = []

    def add(op, entries, vals_=None):
        # Geometry(chrom_sizes) knows nothing of with_ignored_added: its cases run on the plain dict
        is_geo = len(op) > 1 and op[1] == 1 and op[0] in ('pileup', 'mask', 'merged', 'clip', 'extend', 'sorted')
        out.append(dict(genome=genome, filter=filt, added=[] if is_geo else added, entries=entries,
                        vals=(vals_[:len(genome)] if (is_geo and vals_) else vals_), op=op))
    add(['coords'], [])
    for geo in (0, 1):
        base = es if geo else shuffled
        if geo and filt != 'us':
            continue            # Geometry always builds its context with the ignore-underscore default
        add(['pileup', geo], base)
        add(['mask', geo], base)
        wide = [[c, s - rng.choice([0, 1, 2]), t + rng.choice([0, 1, 2]), f] for c, s, t, f in base]
        if (geo or CLIP_OUTSIDE_FULL) and base:
            # the single-contig clip pulls an interval lying entirely outside its chromosome back into [0, size]
            c = rng.choice(base)[0]
            wide.append([c, ext[c][1] + 1, ext[c][1] + 3, 1] if rng.random() < 0.5 else [c, -3, -1, 1])
        add(['clip', geo], wide)
        add(['extend', geo, rng.choice([1, 2, 3, 5])], base)
        add(['sorted', geo], base)
        srt = es if geo else es_all
        for d in ([0, 1, 2] if tier == 'quick' else [0, 1, 2, 3]):
            add(['merged', geo, d], srt)
    for st in (0, 1):
        for w in (0, 1, 2):
            add(['location', st, w], shuffled)
    _add_views(rng, add, shuffled, ext, vals)
    add(['windows', 'flank', rng.choice([0, 1, 2])], locs)
    add(['windows', 'size', rng.choice([1, 2, 3, 4, 5])], locs)
    add(['locsorted'], locs)
    ne = [e for e in shuffled if e[1] < e[2]]
    inc_ = _included(genome, filt, added)
    if any(e[0] in inc_ for e in ne):
        for st in (0, 1):
            add(['extract', st], ne, vals)
        seqs = [[rng.choice(b'ACGT') for _ in range(s)] for n, s in ext]
        for st in (0, 1):
            add(['seq', st, 'dict'], ne, seqs)
            if FASTA_WITH_NEW_IGNORED or len(ext) == len(genome):
                add(['seq', st, 'fasta'], ne, seqs)
        # the class that raised before the np.where repair (broadcast_row_mask): at least as many intervals as bases —
        # every interval of length 1, all of them empty, a mixture — now ordinary cases
        at = [e for e in shuffled if 0 <= e[1] < ext[e[0]][1]]
        ones = [[c, s_, s_ + 1, f] for c, s_, t, f in at]
        zeros = [[c, s_, s_, f] for c, s_, t, f in at]
        mixed = [x for pair in zip(ones, zeros[::-1]) for x in pair]
        for k, small in enumerate((ones, zeros, mixed, ones[:1], mixed[:3])):
            if not any(e[0] in inc_ for e in small):
                continue
            add(['seq', 1, 'dict'], small, seqs)
            if k < 3 and (FASTA_WITH_NEW_IGNORED or len(ext) == len(genome)):
                add(['seq', 1, 'fasta'], small, seqs)
            if k == 0:
                add(['seq', 0, 'dict'], small, seqs)
    return out


VIEW_KINDS = ['pileup', 'mask', 'notmask']


def _add_views(rng, add, entries, ext, vals, everything=False):
    """the run-length view of the genome-wide arrays built from `entries`: get_data() of each kind, the routes that go
    through it (from_track, from_bedgraph round trip, GenomicSequence[mask]) and GenomicArray[mask]"""
    for kind in VIEW_KINDS:
        add(['runs', kind, 'get_data'], entries)
    extra = [['runs', 'mask', 'from_track'], ['runs', 'notmask', 'from_track'], ['runs', 'pileup', 'roundtrip']]
    seqs = [[rng.choice(b'ACGT') for _ in range(s)] for n, s in ext]
    under = [['under', neg, sq] for neg in (0, 1) for sq in (0, 1)]
    if not everything:
        extra = [rng.choice(extra)]
        under = rng.sample(under, 2)
    for op in extra:
        add(op, entries)
    for op in under:
        add(op, entries, seqs if op[2] else vals)


PATTERNS = ['none', 'none', 'full', 'full', 'head', 'tail', 'inner', 'ends', 'full2', 'random']


def _pattern(rng, size, pat):
    if pat == 'none':
        return []
    if pat == 'full':
        return [(0, size)]
    if pat == 'full2':
        return [(0, size), (0, size)]
    if pat == 'head':
        return [(0, rng.randint(1, max(1, size - 1)))]
    if pat == 'tail':
        return [(rng.randint(min(1, size - 1), size - 1), size)]
    if pat == 'inner':
        if size < 3:
            return []
        a = rng.randint(1, size - 2)
        return [(a, rng.randint(a + 1, size - 1))]
    if pat == 'ends':
        if size < 2:
            return [(0, size)]
        a = rng.randint(1, size - 1)
        return [(0, a), (rng.randint(a, size - 1), size)]
    a = rng.randrange(size)
    return [(a, rng.randint(a + 1, size))]


def _view_cases(genome, filt, added, per_chrom, rng, everything=True):
    ext = _ext(genome, added)
    es = [[i, a, b, 1] for i, ivs in sorted(per_chrom.items()) for a, b in ivs]
    vals = [[(i + 1) * 10 + p for p in range(s)] for i, (n, s) in enumerate(ext)]
    out = []

    def add(op, entries, vals_=None):
        out.append(dict(genome=genome, filter=filt, added=added, entries=entries, vals=vals_, op=op))
    _add_views(rng, add, es, ext, vals, everything)
    return out


def _view_scenarios(rng, S, tier):
    """constant runs of the concatenated track across 0..3 chromosome boundaries: 1..5 chromosomes, one coverage pattern
    per chromosome (first / middle / last chromosome empty or covered completely, neighbours agreeing or not at the
    shared end), sizes 1..S"""
    cases = []
    for k in range(36 if tier == 'quick' else 160):
        pool = rng.choice(NAME_POOLS)
        n = rng.choice([1, 2, 3, 3, 3, 4, 4, 4, 5])
        names = rng.sample(pool, n)
        filt = rng.choice(['keep', 'keep', 'us'])
        genome = [[nm, rng.choice([1, 1, 2, 3, S, rng.randint(1, S)])] for nm in names]
        if not _included(genome, filt):
            continue
        added = _gen_added(rng, genome, filt) if rng.random() < 0.25 else []
        inc = _included(genome, filt, added)
        per = {i: _pattern(rng, genome[i][1], rng.choice(PATTERNS)) for i in inc}
        cases += _view_cases(genome, filt, added, per, rng, everything=(k % 3 == 0))
    return cases


def _view_exhaustive(tier):
    rng = random.Random(1010)
    cases = []
    grids = [([2, 1, 2], ['none', 'full', 'head', 'tail']), ([1, 1, 1, 1], ['none', 'full'])]
    if tier != 'quick':
        grids.append(([2, 3, 1, 2], ['none', 'full', 'tail']))
    for sizes, pats in grids:
        genome = [[nm, sz] for nm, sz in zip(['chr1', 'chr10', 'chr2', 'chr11'], sizes)]
        for combo in itertools.product(pats, repeat=len(sizes)):
            per = {i: _pattern(rng, sizes[i], pat) for i, pat in enumerate(combo)}
            es = [[i, a, b, 1] for i, ivs in sorted(per.items()) for a, b in ivs]
            for kind in VIEW_KINDS:
                cases.append(dict(genome=genome, filter='keep', added=[], entries=es, vals=None, op=['runs', kind, 'get_data']))
    return cases


def _sim(ext, inc, stranded, entries, steps):
    """final rows [chr, start, stop, fwd] of a program on the visible entries, or None if a step leaves the class of
    tables the consumers are specified for.  Only used to decide which programs / consumers to emit."""
    rows = [list(e) for e in entries if e[0] in inc]
    size = lambda c: ext[c][1]
    for st in steps:
        k = st[0]
        if k == 'sorted':
            rows.sort(key=lambda e: (inc.index(e[0]), e[1], e[2]))
        elif k == 'merged':
            out = []
            for e in rows:
                if out and out[-1][0] == e[0] and e[1] <= out[-1][4] + st[1]:
                    out[-1][4] = max(out[-1][4], e[2])
                else:
                    out.append([e[0], e[1], e[2], e[3], e[2]])
            rows = [[c, s, m, f] for c, s, t, f, m in out]
        elif k == 'clip':
            rows = [[c, min(max(0, s), size(c)), max(min(size(c), t), 0), f] for c, s, t, f in rows]
        elif k == 'extend':
            rows = [[c, s, min(s + st[1], size(c)), f] if f else [c, max(t - st[1], 0), t, f] for c, s, t, f in rows]
        elif k == 'rev':
            rows = rows[::-1]
        elif k == 'mask':
            if len(st[1]) != len(rows):
                return None
            rows = [e for e, b in zip(rows, st[1]) if b]
        elif k == 'locwin':
            w, fl = st[1], st[2]
            out = []
            for c, s, t, f in rows:
                fwd = f or not stranded
                p = (s if fwd else t - 1) if w == 0 else ((t - 1 if fwd else s) if w == 1 else (s + t) // 2)
                out.append([c, min(max(0, p - fl), size(c)), max(min(size(c), p + fl + 1), 0), f])
            rows = out
        if any(not (0 <= s < t <= size(c)) for c, s, t, f in rows):
            return None
    return rows


def _programs(rng, genome, filt, added, shuffled, tier):
    """2..3-step programs: interval-producing operations followed by a strand-aware consumer, on stranded tables with
    '-' rows (and a few unstranded ones)"""
    ext = _ext(genome, added)
    inc = _included(genome, filt, added)
    base = [list(e) for e in shuffled if e[1] < e[2]]
    if not any(e[0] in inc for e in base):
        return []
    # at least one row on the reverse strand
    vis = [e for e in base if e[0] in inc]
    if all(e[3] for e in vis):
        rng.choice(vis)[3] = 0
    vals = [[(i + 1) * 10 + p for p in range(s)] for i, (n, s) in enumerate(ext)]
    seqs = [[rng.choice(b'ACGT') for _ in range(s)] for n, s in ext]
    out = []
    n_prog = 8 if tier == 'quick' else 10
    for _ in range(n_prog):
        stranded = 1 if rng.random() < 0.85 else 0
        entries = [list(e) for e in base]
        steps = []
        for _ in range(rng.choice([1, 1, 2])):
            nvis = None
            kind = rng.choice(['sorted', 'sorted', 'merged', 'clip', 'extend', 'rev', 'mask', 'locwin'])
            if kind == 'merged':
                steps += [['sorted'], ['merged', rng.choice([0, 1, 2])]]
            elif kind == 'clip':
                if not steps:
                    entries = [[c, s - rng.choice([0, 1, 2]), t + rng.choice([0, 1, 2]), f] for c, s, t, f in entries]
                steps.append(['clip'])
            elif kind == 'extend':
                if not stranded:
                    continue
                steps.append(['extend', rng.choice([1, 2, 3, 5])])
            elif kind == 'mask':
                cur = _sim(ext, inc, stranded, entries, steps)
                if cur is None or len(cur) < 2:
                    continue
                bits = [rng.randint(0, 1) for _ in cur]
                if not any(bits):
                    bits[0] = 1
                steps.append(['mask', bits])
            elif kind == 'locwin':
                steps.append(['locwin', rng.choice([0, 1, 2]), rng.choice([0, 1, 2])])
            else:
                steps.append([kind])
        if not steps:
            continue
        fin = _sim(ext, inc, stranded, entries, steps)
        if fin is None or not fin:
            continue
        loses = stranded and any(st[0] == 'extend' for st in steps) and not EXTEND_KEEPS_STRAND
        conss = [['location', 2]] if loses else [['extract'], ['seq'], ['location', rng.choice([0, 1])], ['location', 2]]
        for cons in conss:
            out.append(dict(genome=genome, filter=filt, added=[list(x) for x in added], entries=entries,
                            vals=(seqs if cons[0] == 'seq' else vals if cons[0] == 'extract' else None),
                            op=['prog', stranded, steps, cons]))
    return out


def _scenario(rng, S, tier, bad=False):
    genome, filt = _gen_genome(rng, S)
    # two-step configuration: the genome as built by from_dict, then 0..2 Genome.with_ignored_added calls
    added = _gen_added(rng, genome, filt) if rng.random() < 0.6 else []
    orig = genome
    inc = _included(orig, filt, added)
    genome = _ext(orig, added)           # entries / locations may also sit on the names that were only added
    allc = list(range(len(genome)))
    boundary = rng.random() < 0.6
    es = _gen_entries(rng, genome, inc, boundary)
    extra = [e for e in _gen_entries(rng, genome, [i for i in allc if i not in inc], False)]
    es_all = sorted(es + extra, key=lambda e: (e[0], e[1], e[2]))
    shuffled = list(es_all)
    rng.shuffle(shuffled)
    locs = []
    for i in allc:
        size = genome[i][1]
        for _ in range(rng.choice([0, 1, 1, 2])):
            p = rng.choice([0, size - 1, rng.randrange(size)]) if size else 0
            locs.append([i, p, p + 1, 1])
    rng.shuffle(locs)
    cases = _ops_for(rng, orig, filt, es, es_all, shuffled, locs, tier, added)
    progs = _programs(rng, orig, filt, added, shuffled, tier)
    cases += progs
    if bad and inc:
        # one entry reaching outside its chromosome: the placing operations must refuse it
        i = rng.choice(inc)
        size = genome[i][1]
        kind = rng.choice(['neg', 'neg', 'over', 'edge'])
        if kind == 'neg':
            # a negative start on the first chromosome is a negative global index (a different story);
            # the class of interest is the one that reaches into the previous chromosome
            if len(inc) < 2:
                kind = 'over'
            else:
                i = rng.choice(inc[1:])
                size = genome[i][1]
        e = {'neg': [i, -1, rng.randint(0, size), 1], 'over': [i, rng.randint(0, size - 1), size + 1, 1],
             'edge': [i, size, size, 1]}[kind]
        bes = sorted(es + [e], key=lambda x: (x[0], x[1], x[2]))
        vals = [[(k + 1) * 10 + p for p in range(s)] for k, (n, s) in enumerate(genome)]
        cases = []
        for op in (['pileup', 0], ['mask', 0], ['merged', 0, 1], ['merged', 0, 0], ['runs', rng.choice(VIEW_KINDS), 'get_data']):
            cases.append(dict(genome=orig, filter=filt, added=added, entries=bes, vals=None, op=op))
        ne = [x for x in bes if x[1] < x[2]]
        if ne:
            cases.append(dict(genome=orig, filter=filt, added=added, entries=ne, vals=vals, op=['extract', 0]))
        if filt == 'us':
            cases.append(dict(genome=orig, filter=filt, added=[], entries=bes, vals=None, op=['pileup', 1]))
            cases.append(dict(genome=orig, filter=filt, added=[], entries=bes, vals=None, op=['sorted', 1]))
    return cases


def _exhaustive_small(tier):
    """two chromosomes, every multiset of <= 1 (quick) / <= 2 (thorough) intervals per chromosome with endpoints from
    {0,1,size-1,size}: pileup, mask and merged — the operations that work in one concatenated coordinate space"""
    cases = []
    per = 1 if tier == 'quick' else 2
    for s1, s2 in ([(2, 2), (3, 1)] if tier == 'quick' else [(1, 1), (2, 2), (3, 2)]):
        genome = [['chr1', s1], ['chr11', s2]]

        def ivs(size):
            pts = sorted({0, 1, size - 1, size})
            one = [(a, b) for a in pts for b in pts if 0 <= a <= b <= size and a < size]
            res = [[]] + [[x] for x in one]
            if per >= 2:
                res += [list(p) for p in itertools.combinations_with_replacement(one, 2)]
            return res
        for l1 in ivs(s1):
            for l2 in ivs(s2):
                es = [[0, a, b, 1] for a, b in l1] + [[1, a, b, 1] for a, b in l2]
                for op in (['pileup', 0], ['mask', 0], ['merged', 0, 0], ['merged', 0, 1], ['merged', 1, 0]):
                    cases.append(dict(genome=genome, filter='us', entries=es, vals=None, op=op))
    return cases


def generate(tier, seed):
    rng = random.Random(seed * 10007 + 10)
    S = 5 if tier == 'quick' else 7
    cases = []
    n_base = 70 if tier == 'quick' else 330
    for k in range(n_base):
        cases += _scenario(rng, S, tier)
    for k in range(n_base // 4):
        cases += _scenario(rng, S, tier, bad=True)
    cases += _exhaustive_small(tier)
    cases += _view_scenarios(random.Random(seed * 10007 + 1006), S, tier)
    cases += _view_exhaustive(tier)
    cases.sort(key=lambda c: len(c['entries']) + len(c['genome']))
    return cases


# ----------------------------------------------------------------------------- implementation runner
def _err(e):
    return dict(t='err', code=ERR.get(type(e).__name__, 9), exc=type(e).__name__, msg=str(e)[:120])


def observe(case):
    import numpy as np
    import bionumpy as bnp
    from bionumpy.datatypes import Interval, StrandedInterval, LocationEntry
    from bionumpy.genomic_data.genome_context import ignore_underscores, keep_all
    from bionumpy.genomic_data.geometry import Geometry
    genome = case['genome']
    added = case.get('added') or []
    names = [n for n, s in _ext(genome, added)]      # entries index into the dict after the with_ignored_added steps
    sizes = {n: s for n, s in genome}
    filt = ignore_underscores if case['filter'] == 'us' else keep_all
    inc = _included(genome, case['filter'], added)
    op = case['op']
    es = case['entries']

    def idx(name):
        return names.index(str(name))

    def chroms(col):
        return [idx(x.to_string() if hasattr(x, 'to_string') else x) for x in col]

    def intervals(stranded):
        ch = [names[e[0]] for e in es]
        st = [e[1] for e in es]
        en = [e[2] for e in es]
        if not es:
            ch, st, en = [], np.array([], dtype=int), np.array([], dtype=int)
        if stranded:
            return StrandedInterval(ch, st, en, ['+' if e[3] else '-' for e in es])
        return Interval(ch, st, en)

    def ivs_res(data):
        return dict(t='ivs', l=[[c, int(s), int(t)] for c, s, t in zip(chroms(data.chromosome), data.start, data.stop)])

    def arrays_res(ga):
        d = ga.to_dict()
        if list(d.keys()) != [names[i] for i in inc]:
            return dict(t='err', code=90, exc='keys', msg=str(list(d.keys())))
        a = [[int(x) for x in np.asarray(v).tolist()] for v in d.values()]
        # GenomicArray['chrN'] (extract_chromsome) must be the same per-chromosome cut
        b = [[int(x) for x in np.asarray(ga[names[i]].to_array()).tolist()] for i in inc]
        if a != b:
            return dict(t='err', code=91, exc='extract_chromsome', msg=str(b)[:100])
        return dict(t='arrays', a=a)

    def rows_res(r, conv):
        out = []
        for i in range(len(r)):
            out.append(conv(r[i]))
        return dict(t='rows', l=out)

    try:
        kind = op[0]
        g = bnp.Genome.from_dict(sizes, filter_function=filt)
        for step in added:
            g = g.with_ignored_added(list(step))
        geo = Geometry(sizes) if (len(op) > 1 and op[1] == 1 and kind in ('pileup', 'mask', 'merged', 'clip', 'extend', 'sorted')) else None
        if kind == 'coords':
            go = g.get_genome_context().global_offset
            ch, ps = [], []
            for i in inc:
                for p in range(genome[i][1]):
                    ch.append(names[i])
                    ps.append(p)
            fwd = go.from_local_coordinates(ch, np.array(ps, dtype=int))
            total = sum(genome[i][1] for i in inc)
            bc, bp = go.to_local_coordinates(np.arange(total))
            rej = []
            for i in inc:
                try:
                    go.from_local_coordinates([names[i]], np.array([genome[i][1]]))
                    rej.append(False)
                except Exception:
                    rej.append(True)
            return dict(t='coords', fwd=[int(x) for x in fwd], bwd=[[c, int(p)] for c, p in zip(chroms(bc), bp)], rej=rej)
        if kind == 'pileup':
            return arrays_res(geo.get_pileup(intervals(False)) if geo else g.get_intervals(intervals(False)).get_pileup())
        if kind == 'mask':
            return arrays_res(geo.get_mask(intervals(False)) if geo else g.get_intervals(intervals(False)).get_mask())
        if kind in ('runs', 'under'):
            from bionumpy.genomic_data.genomic_track import GenomicArray
            from bionumpy.genomic_data.genomic_intervals import GenomicIntervals
            from bionumpy.arithmetics.intervals import GenomicRunLengthArray
            from bionumpy.genomic_data.genomic_sequence import GenomicSequence
            gi = g.get_intervals(intervals(False))
            if kind == 'under':
                mask = gi.get_mask()
                if op[1]:
                    mask = ~mask
                if op[2]:
                    gs = GenomicSequence.from_dict({n: bytes(case['vals'][i]).decode() for i, (n, s) in enumerate(genome)})
                    r = gs[mask]
                    return dict(t='rows', l=[list(r.to_string().encode())])
                flat = np.array([v for i in inc for v in case['vals'][i]], dtype=int)
                ga = GenomicArray.from_global_data(GenomicRunLengthArray.from_array(flat), g.get_genome_context())
                r = ga[mask]
                return dict(t='rows', l=[[int(x) for x in np.asarray(r.to_array() if hasattr(r, 'to_array') else r).tolist()]])
            track = gi.get_pileup() if op[1] == 'pileup' else gi.get_mask() if op[1] == 'mask' else ~gi.get_mask()
            if op[2] == 'get_data':
                data = track.get_data()
            elif op[2] == 'from_track':
                data = GenomicIntervals.from_track(track).get_data()
            else:
                data = GenomicArray.from_bedgraph(track.get_data(), g.get_genome_context()).get_data()
            ch = [inc.index(k) for k in chroms(data.chromosome)]       # rank among the included chromosomes
            value = [int(v) for v in data.value] if op[1] == 'pileup' else [1] * len(ch)
            rows = []
            for r in zip(ch, [int(x) for x in data.start], [int(x) for x in data.stop], value):
                # a run-length array may hold one run of equal values as touching pieces: join those (same chromosome only)
                if rows and rows[-1][0] == r[0] and rows[-1][2] == r[1] and rows[-1][3] == r[3] and r[1] < r[2]:
                    rows[-1][2] = r[2]
                else:
                    rows.append(list(r))
            return dict(t='rows', l=rows)
        if kind == 'merged':
            d = op[2]
            if geo:
                return ivs_res(geo.merge_intervals(intervals(False), d))
            return ivs_res(g.get_intervals(intervals(False)).merged(d).get_data())
        if kind == 'clip':
            return ivs_res(geo.clip(intervals(False)) if geo else g.get_intervals(intervals(False)).clip().get_data())
        if kind == 'extend':
            if geo:
                return ivs_res(geo.extend_to_size(intervals(True), op[2]))
            return ivs_res(g.get_intervals(intervals(True), stranded=True).extended_to_size(op[2]).get_data())
        if kind == 'sorted':
            return ivs_res(geo.sort(intervals(False)) if geo else g.get_intervals(intervals(False)).sorted().get_data())
        if kind == 'location':
            st = bool(op[1])
            loc = g.get_intervals(intervals(st), stranded=st).get_location(['start', 'stop', 'center'][op[2]])
            return dict(t='pos', l=[[c, int(p)] for c, p in zip(chroms(loc.chromosome), loc.position)])
        if kind in ('windows', 'locsorted'):
            le = LocationEntry([names[e[0]] for e in es], np.array([e[1] for e in es], dtype=int))
            loc = g.get_locations(le)
            if kind == 'locsorted':
                s = loc.sorted()
                return dict(t='pos', l=[[c, int(p)] for c, p in zip(chroms(s.chromosome), s.position)])
            w = loc.get_windows(flank=op[2]) if op[1] == 'flank' else loc.get_windows(window_size=op[2])
            return ivs_res(w.get_data())
        if kind == 'extract':
            from bionumpy.genomic_data.genomic_track import GenomicArray
            from bionumpy.arithmetics.intervals import GenomicRunLengthArray
            flat = np.array([v for i in inc for v in case['vals'][i]], dtype=int)
            ga = GenomicArray.from_global_data(GenomicRunLengthArray.from_array(flat), g.get_genome_context())
            st = bool(op[1])
            r = ga[g.get_intervals(intervals(st), stranded=st)]
            return rows_res(r, lambda row: [int(x) for x in (row.to_array() if hasattr(row, 'to_array') else np.asarray(row)).tolist()])
        if kind == 'prog':
            from bionumpy.genomic_data.genomic_track import GenomicArray
            from bionumpy.arithmetics.intervals import GenomicRunLengthArray
            from bionumpy.genomic_data.genomic_sequence import GenomicSequence
            st, steps, cons = bool(op[1]), op[2], op[3]
            gi = g.get_intervals(intervals(st), stranded=st)
            for sp in steps:
                if sp[0] == 'sorted':
                    gi = gi.sorted()
                elif sp[0] == 'merged':
                    gi = gi.merged(sp[1])
                elif sp[0] == 'clip':
                    gi = gi.clip()
                elif sp[0] == 'extend':
                    gi = gi.extended_to_size(sp[1])
                elif sp[0] == 'rev':
                    gi = gi[::-1]
                elif sp[0] == 'mask':
                    gi = gi[np.array(sp[1], dtype=bool)]
                elif sp[0] == 'locwin':
                    gi = gi.get_location(['start', 'stop', 'center'][sp[1]]).get_windows(flank=sp[2])
                else:
                    raise ValueError(sp)
            if cons[0] == 'extract':
                flat = np.array([v for i in inc for v in case['vals'][i]], dtype=int)
                ga = GenomicArray.from_global_data(GenomicRunLengthArray.from_array(flat), g.get_genome_context())
                return rows_res(ga[gi], lambda row: [int(x) for x in (row.to_array() if hasattr(row, 'to_array') else np.asarray(row)).tolist()])
            if cons[0] == 'seq':
                gs = GenomicSequence.from_dict({n: bytes(case['vals'][i]).decode() for i, (n, s) in enumerate(genome)})
                return rows_res(gs[gi], lambda row: list(row.to_string().encode()))
            loc = gi.get_location(['start', 'stop', 'center'][cons[1]])
            return dict(t='pos', l=[[c, int(p)] for c, p in zip(chroms(loc.chromosome), loc.position)])
        if kind == 'seq':
            st = bool(op[1])
            seqs = {n: bytes(case['vals'][i]).decode() for i, (n, s) in enumerate(genome)}
            if op[2] == 'dict':
                from bionumpy.genomic_data.genomic_sequence import GenomicSequence
                gs = GenomicSequence.from_dict(seqs)
                r = gs[g.get_intervals(intervals(st), stranded=st)]
            else:
                d = tempfile.mkdtemp(prefix='c10_')
                try:
                    path = os.path.join(d, 'g.fa')
                    with open(path, 'w') as f:
                        for n, s in seqs.items():
                            f.write('>%s\n' % n)
                            for k in range(0, len(s), 3):
                                f.write(s[k:k + 3] + '\n')
                    g2 = bnp.Genome.from_file(path, filter_function=filt)
                    for step in added:
                        g2 = g2.with_ignored_added(list(step))
                    r = g2.read_sequence()[g2.get_intervals(intervals(st), stranded=st)]
                    return rows_res(r, lambda row: list(row.to_string().encode()))
                finally:
                    shutil.rmtree(d, ignore_errors=True)
            return rows_res(r, lambda row: list(row.to_string().encode()))
        raise ValueError('unknown op %r' % (op,))
    except Exception as e:
        return _err(e)


# ----------------------------------------------------------------------------- Coq emitter
def _op_term(op):
    k = op[0]
    if k == 'coords':
        return 'OCoords'
    if k == 'prog':
        def step(sp):
            if sp[0] == 'sorted':
                return 'PSorted'
            if sp[0] == 'merged':
                return '(PMerged %s)' % cz(sp[1])
            if sp[0] == 'clip':
                return 'PClip'
            if sp[0] == 'extend':
                return '(PExtend %s)' % cz(sp[1])
            if sp[0] == 'rev':
                return 'PRev'
            if sp[0] == 'mask':
                return '(PMask %s)' % clist([cbool(b) for b in sp[1]], 'bool')
            if sp[0] == 'locwin':
                return '(PLocWin %s (m_flank_l %s) (m_flank_r %s))' % (cz(sp[1]), cz(sp[2]), cz(sp[2]))
            raise ValueError(sp)
        cons = op[3]
        cterm = 'CExtract' if cons[0] == 'extract' else 'CSeq' if cons[0] == 'seq' else '(CLocation %s)' % cz(cons[1])
        return '(OProg %s %s %s)' % (cbool(op[1]), clist([step(sp) for sp in op[2]], 'pstep'), cterm)
    if k in ('pileup', 'mask', 'clip', 'sorted'):
        return '(O%s %s)' % (k.capitalize(), cbool(op[1]))
    if k == 'merged':
        return '(OMerged %s %s)' % (cbool(op[1]), cz(op[2]))
    if k == 'extend':
        return '(OExtend %s %s)' % (cbool(op[1]), cz(op[2]))
    if k == 'location':
        return '(OLocation %s %s)' % (cbool(op[1]), cz(op[2]))
    if k == 'windows':
        if op[1] == 'flank':
            return '(OWindows (m_flank_l %s) (m_flank_r %s))' % (cz(op[2]), cz(op[2]))
        return '(OWindows (m_wsize_l %s) (m_wsize_r %s))' % (cz(op[2]), cz(op[2]))
    if k == 'locsorted':
        return 'OLocSorted'
    if k == 'extract':
        return '(OExtract %s)' % cbool(op[1])
    if k == 'seq':
        return '(OSeq %s)' % cbool(op[1])
    if k == 'runs':
        return '(ORuns %s)' % {'pileup': 'TPileup', 'mask': 'TMask', 'notmask': 'TNotMask'}[op[1]]
    if k == 'under':
        return '(OUnder %s %s)' % (cbool(op[1]), cbool(op[2]))
    raise ValueError(op)


def _res_term(o):
    t = o['t']
    if t == 'err':
        return '(RErr %s)' % cz(o['code'])
    if t == 'arrays':
        return '(RArrays %s)' % clist([zl(a) for a in o['a']], 'list Z')
    if t == 'ivs':
        return '(RIvs %s)' % clist(['(%s, %s, %s)' % (cz(c), cz(s), cz(e)) for c, s, e in o['l']], '(Z*Z*Z)')
    if t == 'pos':
        return '(RPos %s)' % clist(['(%s, %s)' % (cz(c), cz(p)) for c, p in o['l']], '(Z*Z)')
    if t == 'rows':
        return '(RRows %s)' % clist([zl(a) for a in o['l']], 'list Z')
    if t == 'coords':
        return '(RCoords %s %s %s)' % (zl(o['fwd']), clist(['(%s, %s)' % (cz(c), cz(p)) for c, p in o['bwd']], '(Z*Z)'),
                                       clist([cbool(b) for b in o['rej']], 'bool'))
    raise ValueError(o)


def to_coq(case, o):
    genome = clist(['{| c_name := %s; c_size := %s |}' % (hx(n.encode()), cz(s)) for n, s in case['genome']], 'chrom')
    es = clist(['{| e_chr := %s; e_start := %s; e_stop := %s; e_fwd := %s |}' % (cz(c), cz(s), cz(t), cbool(f))
                for c, s, t, f in case['entries']], 'entry')
    vals = clist([zl(v) for v in case['vals']], 'list Z') if case['vals'] else '(@nil (list Z))'
    added = clist([clist([hx(n.encode()) for n in step], 'list Z') for step in (case.get('added') or [])], 'list (list Z)')
    return ('{| k_genome := %s; k_filter := %s; k_added := %s; k_entries := %s; k_vals := %s; k_op := %s; k_obs := %s |}' % (
        genome, 'KeepAll' if case['filter'] == 'keep' else 'IgnoreUnderscore', added, es, vals, _op_term(case['op']), _res_term(o)))


# ----------------------------------------------------------------------------- evidence helpers
def _g(case):
    return _ext(case['genome'], case.get('added') or [])


def _touches_end(case):
    g = _g(case)
    return any(e[1] == 0 or e[2] == g[e[0]][1] for e in case['entries'])


def nontrivial(case, o):
    inc = _included(case['genome'], case['filter'], case.get('added') or [])
    if len(inc) < 2:
        return False
    used = {e[0] for e in case['entries']}
    gap = any(i not in used for i in inc[:-1]) and bool(used)
    return _touches_end(case) or gap or case['op'][0] == 'coords'


def describe(case, o):
    return dict(genome=case['genome'], filter=case['filter'], with_ignored_added=case.get('added') or [], op=case['op'], entries=case['entries'][:6],
                observed={k: v for k, v in o.items() if k != 'msg'})


def _spans_inner(c, inc, g):
    """some constant run of the concatenated pileup / mask covers a whole chromosome that is neither first nor last and
    continues on both sides"""
    dense = []
    for i in inc:
        a = [0] * g[i][1]
        for e in c['entries']:
            if e[0] == i:
                for p in range(max(0, e[1]), min(g[i][1], e[2])):
                    a[p] += 1
        if c['op'][0] == 'under' or c['op'][1] != 'pileup':
            a = [int(x > 0) for x in a]
        dense.append(a)
    for j in range(1, len(dense) - 1):
        if dense[j] and len(set(dense[j])) == 1 and dense[j - 1] and dense[j + 1] \
                and dense[j - 1][-1] == dense[j][0] == dense[j + 1][0]:
            return True
    return False


def distribution(cases, obs):
    d = dict(ops={}, chromosomes={}, filters={}, errors={}, entries={}, boundary_pairs=0, empty_chromosome=0,
             ignored_in_genome=0)
    for c, o in zip(cases, obs):
        k = c['op'][0] + ('/geo' if len(c['op']) > 1 and c['op'][1] == 1 and c['op'][0] not in ('location', 'extract', 'seq', 'prog', 'under') else '')
        d['ops'][k] = d['ops'].get(k, 0) + 1
        n = str(len(c['genome']))
        d['chromosomes'][n] = d['chromosomes'].get(n, 0) + 1
        d['filters'][c['filter']] = d['filters'].get(c['filter'], 0) + 1
        ne = str(min(len(c['entries']), 8))
        d['entries'][ne] = d['entries'].get(ne, 0) + 1
        if isinstance(o, dict) and o.get('t') == 'err':
            d['errors'][o.get('exc', '?')] = d['errors'].get(o.get('exc', '?'), 0) + 1
        g = _g(c)
        if c['op'][0] in ('runs', 'under'):
            d.setdefault('view_run_spans_whole_inner_chromosome', 0)
            d.setdefault('view_included_chromosomes', {})
            inc_ = _included(c['genome'], c['filter'], c.get('added') or [])
            d['view_included_chromosomes'][str(len(inc_))] = d['view_included_chromosomes'].get(str(len(inc_)), 0) + 1
            d['view_run_spans_whole_inner_chromosome'] += _spans_inner(c, inc_, g)
        d.setdefault('with_ignored_added_steps', {})
        k2 = str(len(c.get('added') or []))
        d['with_ignored_added_steps'][k2] = d['with_ignored_added_steps'].get(k2, 0) + 1
        ends = {e[0] for e in c['entries'] if e[2] == g[e[0]][1]}
        zeros = {e[0] for e in c['entries'] if e[1] == 0}
        d['boundary_pairs'] += any((i + 1) in zeros for i in ends)
        inc = _included(c['genome'], c['filter'], c.get('added') or [])
        used = {e[0] for e in c['entries']}
        d['empty_chromosome'] += bool(used) and any(i not in used for i in inc)
        d['ignored_in_genome'] += len(inc) < len(g)
    return d


# ----------------------------------------------------------------------------- known findings (signature matchers)
def _vis(case):
    inc = _included(case['genome'], case['filter'], case.get('added') or [])
    return [e for e in case['entries'] if e[0] in inc]


def finding(case, o):
    """id of the known finding whose signature this failing case has — exactly the listed failure mode, nothing wider
    (the model predicts the same outcome in these modes, so a case that also disagrees with the model is not one)."""
    op = case['op']
    es = _vis(case)
    g = _g(case)
    # (the former finding C10-seq-stranded-all-length-one was repaired in the library — broadcast_row_mask, notes/C14.fix-2.final.diff;
    #  that class is generated as ordinary cases and a failure there is a VIOLATION)
    if op[0] == 'prog' and op[1] == 1 and any(sp[0] == 'extend' for sp in op[2]):
        # exactly what an UNSTRANDED table gives after the extended_to_size step: rows not reversed / complemented,
        # locations at the left (start) resp. right (stop) end whatever the strand
        ext = _g(case)
        inc = _included(case['genome'], case['filter'], case.get('added') or [])
        k = max(i for i, sp in enumerate(op[2]) if sp[0] == 'extend')
        mid = _sim(ext, inc, True, case['entries'], op[2][:k + 1])
        fin = _sim(ext, inc, False, [list(e) for e in mid], op[2][k + 1:]) if mid is not None else None
        cons = op[3]
        if fin is not None and any(not e[3] for e in fin):
            if cons[0] == 'location' and o.get('t') == 'pos' and cons[1] in (0, 1) \
                    and [p for c, p in o['l']] == [(e[1] if cons[1] == 0 else e[2] - 1) for e in fin]:
                return 'C10-extended-to-size-drops-strand'
            if cons[0] in ('extract', 'seq') and o.get('t') == 'rows' \
                    and o['l'] == [list(case['vals'][e[0]][e[1]:e[2]]) for e in fin]:
                return 'C10-extended-to-size-drops-strand'
    if op[0] == 'clip' and op[1] == 0 and o.get('t') == 'ivs' and any(e[1] > g[e[0]][1] or e[2] < 0 for e in es):
        exp = [[e[0], max(0, e[1]), min(g[e[0]][1], e[2])] for e in es]      # the one-sided formula
        if o['l'] == exp:
            return 'C10-clip-interval-outside'
    return None


def signature(case, o):
    return '%s/%s/%s' % (case['op'][0], case['op'][1] if len(case['op']) > 1 else '', o.get('exc', o.get('t')))


def explain(case, o):
    names = [n for n, s in _g(case)]
    return dict(python=('import bionumpy as bnp; g = bnp.Genome.from_dict(%r%s)%s; entries (chromosome, start, stop, strand) = %r; op = %r'
                        % ({n: s for n, s in case['genome']},
                           ', filter_function=ignore_underscores' if case['filter'] == 'us' else '',
                           ''.join('.with_ignored_added(%r)' % (st,) for st in (case.get('added') or [])),
                           [(names[e[0]], e[1], e[2], '+' if e[3] else '-') for e in case['entries']], case['op'])))

"""C19 — tables of entries (bnpdataclass) behave like column-aligned NumPy records.

A case is a schema (dynamically made class or a class of bionumpy.datatypes), the constructor arguments of two
operand tables and a program of operations applied to a current table.  After construction and after every
operation the real objects are observed: the stored columns (dtype, ragged data + lengths, StringArray width and
padded bytes, codes of encoded columns), the rows tolist() gives, and the keys of todict().  Coq decides, per case,
spec_ok (against the list-of-rows specification) and model_ok (against the columnar model)."""
import random

from harness.lib import hx, zl, cz, cbool, clist, copt

ID = 'C19'
RULE = ('schemas over {int, Optional[int], float, bool, str, SequenceID, List[int], DNAEncoding, StrandEncoding, '
        'nested table} (dynamic classes and 18 classes of bionumpy.datatypes) x operand tables of 0..4 rows x programs '
        'of 1..4 operations from {integer-array index, boolean mask, slice (any step), concatenate (right, left, self, '
        '3-way), sort_by, replace, add_fields, from_entry_tuples(tolist), from_dict(todict), from_data_frame(topandas), '
        'single index, iteration, add_fields on the other operand}; plus sort_by on 17..40-row tables with few distinct keys '
        '(every sortable key kind, directly and after concatenation) and pairs of add_fields with one field name and two '
        'declared types on two tables of one class; operations applied directly to freshly indexed tables; int columns given '
        'as every integer dtype and as python ints at the 64-bit limits; EVERY program is run twice (intermediate tables '
        'observed / never touched) and both runs must agree with the specification; the rows of from_entry_tuples are handed over '
        'in 12 shapes (list, tuple, deque, __iter__-only object, dict view, rows as lists; one-shot: generator, iter(), zip of columns, '
        'map, chain, __next__-only reader) x 0/1/2/4 rows and np.concatenate gets a list or a tuple of tables; non-trivial = at least 2 columns of different representation and an operand with '
        '>= 1 row and a program with >= 1 table-producing operation')
EXHAUSTIVE = {'quick': False, 'thorough': False}
TIE = ('translator+correspondence: translate/gen_c19.py regenerates the decision rules of bnpdataclass.py and '
       'string_array.py (Gen/C19.v), Bridge/C19.v proves them equal to the rules named in Model/C19.v and that the model '
       'functions follow them (C19_source_tie, C19_model_follows_rules); correspondence: columnar model (m_construct, '
       'm_select, m_cat, m_sort_by, m_replace, m_add, m_from_rows, m_todict/m_from_dict, m_to_rows) evaluated in Coq '
       'against the stored columns, rows and dict keys of the real objects')
ASSUMPTIONS = ['npstructures RaggedArray and NumPy indexing/concatenation/promotion are modelled at their documented '
               'behaviour (flat data + row lengths; dtype join; int64->float64 rounds to nearest even)',
               'sort_by is judged against the STABLE sort of the row list (spec_ok) and compared exactly with the model: '
               'np.argsort(kind=\'stable\') of the repaired sort_by must be honoured by every column type',
               'pandas: DataFrame(d).to_dict(\'series\') returns the keys of d with the same column values (ndarray with '
               'its dtype, string Series, object column of row arrays / str) — the pandas round trip is modelled as the '
               'dict round trip; real pandas is in the loop of the correspondence',
               'strings are NUL-free 7-bit ASCII; floats are multiples of 1/4 (exactly representable); '
               'Optional[int] columns hold ints only; nested tables are one level deep',
               'aliasing between a result and its operands is C20; here operands are re-observed for unchanged content']
PARTIAL = ['C19_concat_rows_partial / the Inv invariant of C19_program_refines: int64 and bool columns hold integers below '
           '2^53 in magnitude — the unguarded statement is refuted (C19_concat_rows_refuted); on /repo HEAD this class is '
           'reachable only through List[int] columns without any element (finding C19-int-list-column-promoted-to-float64, '
           'notes/C19.fix-7.diff)',
           'C19_from_rows_roundtrip_pinned_partial / C19_from_rows_pinned_refuted are about the code before fix-1/fix-2 '
           '(history); on HEAD C19_step_refines covers from_entry_tuples for every stored table, zero rows and nested '
           'tables included',
           'op_good guard of C19_program_refines / C19_model_ok_implies_spec_ok: replace and add_fields arguments are '
           'acceptable values (mb_ok) with ints below 2^53; concatenation with the other operand needs equal schemas; '
           'dict/pandas round trips need pairwise different dot-free field names.  Outside the guard (characters outside '
           'the alphabet, non-ASCII text, tables of different schemas) the behaviour is tied by correspondence only']
PER_FILE = 20

BASE_KINDS = ['int', 'opt', 'float', 'bool', 'str', 'id', 'list', 'dna', 'strand']
KCOQ = dict(int='KInt', opt='KOpt', float='KFloat', bool='KBool', str='KStr', id='KId', list='KList', dna='KDna', strand='KStrand')

# classes of bionumpy.datatypes whose field types are all within the modelled kinds (checked against the real
# class in observe(); a drift there is reported, not ignored)
DATATYPES = {
    'LocationEntry': [('chromosome', 'id'), ('position', 'int')],
    'StrandedLocationEntry': [('chromosome', 'id'), ('position', 'int'), ('strand', 'strand')],
    'BedGraph': [('chromosome', 'id'), ('start', 'int'), ('stop', 'int'), ('value', 'float')],
    'RawSeqeuence': [('sequence', 'str')],
    'SequenceEntry': [('name', 'id'), ('sequence', 'str')],
    'Interval': [('chromosome', 'id'), ('start', 'int'), ('stop', 'int')],
    'StrandedInterval': [('chromosome', 'id'), ('start', 'int'), ('stop', 'int'), ('strand', 'strand')],
    'NamedInterval': [('chromosome', 'id'), ('start', 'int'), ('stop', 'int'), ('name', 'id')],
    'Bed6': [('chromosome', 'id'), ('start', 'int'), ('stop', 'int'), ('name', 'id'), ('score', 'opt'), ('strand', 'strand')],
    'NarrowPeak': [('chromosome', 'id'), ('start', 'int'), ('stop', 'int'), ('name', 'id'), ('score', 'opt'), ('strand', 'strand'),
                   ('signal_value', 'float'), ('p_value', 'float'), ('q_value', 'float'), ('summit', 'int')],
    'Bed12': [('chromosome', 'id'), ('start', 'int'), ('stop', 'int'), ('name', 'id'), ('score', 'opt'), ('strand', 'strand'),
              ('thick_start', 'int'), ('thick_end', 'int'), ('item_rgb', 'str'), ('block_count', 'int'),
              ('block_sizes', 'list'), ('block_starts', 'list')],
    'Variant': [('chromosome', 'id'), ('position', 'int'), ('ref_seq', 'str'), ('alt_seq', 'str')],
    'SNP': [('chromosome', 'id'), ('position', 'int'), ('ref_seq', 'str'), ('alt_seq', 'str')],
    'VCFWithInfoAsStringEntry': [('chromosome', 'id'), ('position', 'int'), ('id', 'str'), ('ref_seq', 'str'), ('alt_seq', 'str'),
                                 ('quality', 'str'), ('filter', 'str'), ('info', 'str')],
    'SAMEntry': [('name', 'id'), ('flag', 'int'), ('chromosome', 'id'), ('position', 'int'), ('mapq', 'int'), ('cigar', 'str'),
                 ('next_chromosome', 'str'), ('next_position', 'int'), ('length', 'int'), ('sequence', 'str'),
                 ('quality', 'str'), ('extra', 'str')],
    'ChromosomeSize': [('name', 'str'), ('size', 'int')],
    'GfaPath': [('name', 'str'), ('node_ids', 'list'), ('directions', 'list')],
    'PairsEntry': [('read_id', 'str'), ('chrom1', 'id'), ('pos1', 'int'), ('chrom2', 'id'), ('pos2', 'int'),
                   ('strand1', 'strand'), ('strand2', 'strand')],
}


# How a SEQUENCE ARGUMENT is handed over (from_entry_tuples is declared Iterable[tuple]; np.concatenate takes any
# sequence of tables).  (name, one-shot?, Coq constructor).  One-shot = an iterator: a second traversal yields nothing.
ROW_SHAPES = [('list', False, 'ItList'), ('tuple', False, 'ItTuple'), ('deque', False, 'ItDeque'),
              ('reiter', False, 'ItReiter'),          # object with only __iter__ (no __len__, no __getitem__), fresh iterator per call
              ('dictvalues', False, 'ItDictValues'),  # dict.values() view: sized, re-iterable, not indexable
              ('rowlists', False, 'ItRowLists'),      # a list whose rows are lists instead of tuples
              ('gen', True, 'ItGen'), ('iter', True, 'ItIter'), ('zipcols', True, 'ItZip'), ('map', True, 'ItMap'),
              ('chain', True, 'ItChain'),
              ('once', True, 'ItOnce')]               # object with __iter__/__next__ only (a reader-like iterator)
SHAPE_NAMES = [s[0] for s in ROW_SHAPES]
ONE_SHOT = {s[0]: s[1] for s in ROW_SHAPES}
SHAPE_COQ = {s[0]: s[2] for s in ROW_SHAPES}
CAT_OPS = ('catr', 'catl', 'cats', 'cat3')


def _row_shape(op):
    return op[1] if len(op) > 1 else 'list'


def _hand_over(shape, tuples):
    """the rows (a list of tuples) as an iterable of the given shape -> (object to pass, function telling afterwards
    whether a RE-ITERABLE object still holds exactly the rows it was given)"""
    import collections
    import itertools
    rows = [tuple(r) for r in tuples]

    class Reiter:
        def __init__(self, r):
            self._r = list(r)

        def __iter__(self):
            return iter(list(self._r))

    class Once:
        def __init__(self, r):
            self._it = iter(list(r))

        def __iter__(self):
            return self

        def __next__(self):
            return next(self._it)

    if shape == 'list':
        obj = list(rows)
    elif shape == 'tuple':
        obj = tuple(rows)
    elif shape == 'deque':
        obj = collections.deque(rows)
    elif shape == 'reiter':
        obj = Reiter(rows)
    elif shape == 'dictvalues':
        obj = {i: r for i, r in enumerate(rows)}.values()
    elif shape == 'rowlists':
        obj = [list(r) for r in rows]
    elif shape == 'gen':
        obj = (r for r in rows)
    elif shape == 'iter':
        obj = iter(list(rows))
    elif shape == 'zipcols':
        obj = zip(*[list(c) for c in zip(*rows)]) if rows else zip()
    elif shape == 'map':
        obj = map(tuple, [list(r) for r in rows])
    elif shape == 'chain':
        obj = itertools.chain(rows[:1], rows[1:])
    elif shape == 'once':
        obj = Once(rows)
    else:
        raise ValueError(shape)

    def intact():
        if ONE_SHOT[shape]:
            return True
        try:
            return [tuple(r) for r in obj] == rows and len(rows) == len([1 for _ in obj])
        except Exception:
            return False
    return obj, intact


def _assign_shapes(cases, seed):
    """every from_entry_tuples / concatenate operation of the generated programs gets a hand-over shape, drawn from a
    stream of its own (the programs themselves stay what they were)"""
    rng = random.Random(seed * 7919 + 1906)
    for c in cases:
        for op in c['prog']:
            if op[0] == 'rows' and len(op) == 1 and rng.random() < 0.65:
                op.append(rng.choice(SHAPE_NAMES))
            elif op[0] in CAT_OPS and len(op) == 1 and rng.random() < 0.35:
                op.append('tuple')
    return cases


# ------------------------------------------------------------------------------------------------ generator
def _is_nested(k):
    return isinstance(k, list)


def _gen_cell(rng, k, big=False):
    if k in ('int', 'opt'):
        if big and rng.random() < 0.5:
            return rng.choice([2 ** 53 + 1, 2 ** 53 + 3, -(2 ** 53) - 1, 2 ** 60 + 5, 2 ** 54 + 2, 2 ** 53, 2 ** 62 + 1])
        return rng.choice([0, 1, 2, 3, 5, 7, -1, -4, 10, 100, 2, 3, 3])
    if k == 'float':
        return rng.choice([0, 1, 2, 3, 4, 6, -2, -5, 10, 4, 4])          # quarters
    if k == 'bool':
        return rng.randint(0, 1)
    if k == 'str':
        return ''.join(rng.choice('abcXYZ09_ ') for _ in range(rng.choice([0, 0, 1, 2, 3, 5])))
    if k == 'id':
        return ''.join(rng.choice('chrABx12_.') for _ in range(rng.choice([0, 1, 1, 2, 4, 6])))
    if k == 'list':
        vals = [0, 1, 2, 5, -3, 40] + ([2 ** 53 + 1, -(2 ** 53) - 3, 2 ** 60 + 7] if big else [])
        return [rng.choice(vals) for _ in range(rng.choice([0, 0, 1, 2, 3]))]
    if k == 'dna':
        return ''.join(rng.choice('ACGT') for _ in range(rng.choice([0, 1, 2, 3, 5])))
    if k == 'strand':
        return rng.choice('+-.')
    raise ValueError(k)


def _gen_col(rng, k, n, big=False):
    if _is_nested(k):
        return [_gen_col(rng, sk, n, big) for _, sk in k[1]]
    return [_gen_cell(rng, k, big) for _ in range(n)]


def _gen_schema(rng, nested_ok=True):
    nf = rng.choice([1, 2, 2, 3, 3, 4, 5])
    sch = []
    for i in range(nf):
        if nested_ok and rng.random() < 0.15:
            sub = [['s%d' % j, rng.choice(BASE_KINDS)] for j in range(rng.choice([1, 2, 3]))]
            sch.append(['f%d' % i, ['nested', sub]])
        else:
            sch.append(['f%d' % i, rng.choice(BASE_KINDS)])
    return sch


def _gen_prog(rng, sch, n0, n1, length, big=False):
    """Operations with the expected row count tracked, so that masks / replacement columns have the right (or a
    deliberately wrong) length."""
    sch = [list(f) for f in sch]
    n = n0
    added = False
    nadd = 0
    prog = []
    for _ in range(length):
        r = rng.random()
        kinds = ['take', 'mask', 'slice', 'cat', 'sort', 'replace', 'add', 'rows', 'dict', 'pandas', 'index', 'iter']
        w = [3, 3, 3, 4, 3, 2, 2, 2, 1.5, 1.5, 1, 0.7]
        o = rng.choices(kinds, w)[0]
        if o == 'take':
            k = rng.choice([0, 1, 2, 3, 4])
            if n == 0:
                ix = [] if rng.random() < 0.7 else [rng.choice([0, -1])]
            else:
                ix = [rng.randint(-n, n - 1) for _ in range(k)]
                if rng.random() < 0.12:
                    ix.insert(rng.randint(0, len(ix)), rng.choice([n, -n - 1, n + 3]))
            prog.append(['take', ix])
            if all(-n <= i < n for i in ix):
                n = len(ix)
        elif o == 'mask':
            m = [rng.randint(0, 1) for _ in range(n)]
            c = rng.random()
            if c < 0.1:
                m = [1] * n
            elif c < 0.2:
                m = [0] * n
            elif c < 0.3:
                m = m + [1] if rng.random() < 0.5 or n == 0 else m[:-1]
            prog.append(['mask', m])
            if len(m) in (n, 0):
                n = sum(m)
        elif o == 'slice':
            def b():
                return None if rng.random() < 0.3 else rng.randint(-n - 2, n + 2)
            a, e, st = b(), b(), rng.choice([1, 1, 1, 2, -1, -1, -2, 3])
            prog.append(['slice', a, e, st])
            n = len(range(*slice(a, e, st).indices(n)))
        elif o == 'cat':
            which = rng.choice(['cats']) if added else rng.choice(['catr', 'catl', 'cats', 'cat3', 'catr', 'catl'])
            prog.append([which])
            n = dict(catr=n + n1, catl=n + n1, cats=2 * n, cat3=2 * n + n1)[which]
        elif o == 'sort':
            prog.append(['sort', rng.randrange(len(sch))])
        elif o == 'replace':
            f = rng.randrange(len(sch))
            k = sch[f][1]
            m = n
            c = rng.random()
            if c < 0.1:
                m = n + 1 if rng.random() < 0.6 or n == 0 else n - 1
            col = _gen_col(rng, k, m, big)
            if c > 0.9 and m > 0 and k in ('dna', 'strand'):
                if k == 'strand' and m >= 2 and rng.random() < 0.4:
                    i, j = rng.sample(range(m), 2)
                    col[i], col[j] = col[i] + col[j], ''
                else:
                    col[rng.randrange(m)] = rng.choice(['AXG', 'N', 'A-']) if k == 'dna' else rng.choice(['x', '?', '+-', ''])
            prog.append(['replace', f, col])
        elif o == 'add':
            k = rng.choice(BASE_KINDS)
            m = n
            if rng.random() < 0.08:
                m = n + 1
            nadd += 1
            name = 'z%d' % nadd
            use_map = k in ('opt', 'id', 'list', 'dna', 'strand') or rng.random() < 0.5 or m == 0
            prog.append(['add', name, k, _gen_col(rng, k, m, big), use_map])
            added = True
            if m == n and n > 0:          # (on the pinned code an empty column raises)
                sch.append([name, k])
        elif o in ('rows', 'dict', 'pandas', 'iter'):
            prog.append([o])
        elif o == 'index':
            prog.append(['index', rng.randint(-n - 1, n)])
    return prog


def _mk(cls, sch, rng, n0, n1, plen, big=False):
    c0 = [_gen_col(rng, k, n0, big) for _, k in sch]
    c1 = [_gen_col(rng, k, n1, big) for _, k in sch]
    return dict(cls=cls, schema=sch, c0=c0, c1=c1, prog=_gen_prog(rng, sch, n0, n1, plen, big))


def generate(tier, seed):
    rng = random.Random(seed * 104729 + 19)
    cases = []
    sizes = [0, 0, 1, 1, 2, 3, 4]
    # (1) one column of every kind, every single operation class, operands of 0/1/2 rows (deterministic grid)
    for k in BASE_KINDS + [['nested', [['a', 'int'], ['s', 'str']]], ['nested', [['i', 'id']]]]:
        sch = [['f0', k], ['f1', 'int']]
        for n0, n1 in [(0, 0), (0, 2), (1, 0), (2, 1), (3, 3)]:
            c0 = [_gen_col(rng, kk, n0) for _, kk in sch]
            c1 = [_gen_col(rng, kk, n1) for _, kk in sch]
            n = n0
            progs = [[['catr'], ['rows']], [['catl'], ['dict']], [['cat3'], ['pandas']], [['cats'], ['iter']],
                     [['take', [n - 1, 0] if n else []], ['index', 0]], [['mask', [i % 2 for i in range(n)]], ['rows']],
                     [['slice', None, None, -1], ['sort', 0]], [['sort', 1], ['slice', 1, None, 2]],
                     [['replace', 0, _gen_col(rng, k, n)], ['catr']], [['add', 'z2', 'id', _gen_col(rng, 'id', n), True], ['cats']],
                     [['rows'], ['catr']], [['index', -1], ['index', n]]]
            for p in progs:
                cases.append(dict(cls='dyn', schema=sch, c0=c0, c1=c1, prog=p))
    # (2) random dynamic schemas and programs
    n_dyn = 500 if tier == 'quick' else 6000
    for i in range(n_dyn):
        sch = _gen_schema(rng)
        cases.append(_mk('dyn', sch, rng, rng.choice(sizes), rng.choice(sizes), rng.choice([1, 2, 3, 4])))
    # (3) every supported class of bionumpy.datatypes
    per_cls = 10 if tier == 'quick' else 80
    for name in sorted(DATATYPES):
        sch = [[f, k] for f, k in DATATYPES[name]]
        for i in range(per_cls):
            cases.append(_mk(name, sch, rng, rng.choice(sizes), rng.choice(sizes), rng.choice([1, 2, 3])))
    # (4) construction must convert or raise: unequal lengths, characters outside the alphabet
    for i in range(40 if tier == 'quick' else 300):
        sch = _gen_schema(rng)
        n0 = rng.choice([1, 2, 3])
        c = _mk('dyn', sch, rng, n0, rng.choice(sizes), 0)
        f = rng.randrange(len(sch))
        k = sch[f][1]
        if k == 'dna':
            c['c0'][f][rng.randrange(n0)] = rng.choice(['AXG', 'N', 'AC-'])
        elif k == 'strand':
            if n0 >= 2 and rng.random() < 0.5:
                # two unacceptable entries whose symbols still add up to the number of rows
                i, j = rng.sample(range(n0), 2)
                c['c0'][f][i] = c['c0'][f][i] + c['c0'][f][j]
                c['c0'][f][j] = ''
            else:
                c['c0'][f][rng.randrange(n0)] = rng.choice(['x', '?', '+-'])
        elif _is_nested(k):
            c['c0'][f][0] = c['c0'][f][0] + c['c0'][f][0][:1]
        else:
            c['c0'][f] = c['c0'][f] + c['c0'][f][:1] if rng.random() < 0.5 else c['c0'][f][:-1]
            if len(sch) == 1:
                continue
        c['prog'] = []
        cases.append(c)
    # (5) large integers next to empty / float columns (dtype promotion)
    for i in range(40 if tier == 'quick' else 300):
        sch = [['f0', rng.choice(['int', 'opt', 'list'])], ['f1', rng.choice(['id', 'list', 'int', 'str', 'list'])]]
        n0 = rng.choice([1, 2, 3])
        n1 = rng.choice([0, 0, 1, 2])
        c0 = [_gen_col(rng, k, n0, True) for _, k in sch]
        c1 = [_gen_col(rng, k, n1, True) for _, k in sch]
        p = [[rng.choice(['catr', 'catl', 'cat3'])]] + _gen_prog(rng, sch, n0 + n1, n1, rng.choice([0, 1, 2]), True)
        cases.append(dict(cls='dyn', schema=sch, c0=c0, c1=c1, prog=p))
    # (6) sort_by on tables of 17..40 rows with few distinct key values (NumPy's default sort is stable only up to 16
    #     elements): every sortable key kind, built directly or by concatenating small tables; a second column
    #     numbers the rows so that the order among equal keys is visible
    FEW = dict(strand=['+', '-', '-', '.'], bool=[0, 1], int=[0, 1, 2, 1], opt=[5, 5, 7], float=[0, 2, 2],
               str=['a', 'b', '', 'a'], id=['x', 'y', 'x1'], dna=['A', 'C', '', 'A'])
    def few_col(k, n):
        return [rng.choice(FEW[k]) for _ in range(n)]
    for rep in range(3 if tier == 'quick' else 14):
        for k in ['strand', 'bool', 'int', 'opt', 'float', 'str', 'id', 'dna']:
            sch = [['f0', k], ['f1', 'int']] + ([['f2', rng.choice(['strand', 'str', 'id'])]] if rng.random() < 0.4 else [])
            mode = rng.choice(['direct', 'cat', 'cat3', 'cats'])
            if mode == 'direct':
                n0, n1 = rng.randint(17, 40), rng.choice([0, 1, 3])
                prog = [['sort', 0]]
            elif mode == 'cat':
                n0, n1 = rng.randint(8, 16), rng.randint(9, 16)
                prog = [[rng.choice(['catr', 'catl'])], ['sort', 0]]
            elif mode == 'cat3':
                n0, n1 = rng.randint(6, 12), rng.randint(6, 12)
                prog = [['cat3'], ['sort', 0]]
            else:
                n0, n1 = rng.randint(9, 16), 2
                prog = [['cats'], ['sort', 0]]
            def mkcols(n, base):
                cols = [few_col(k, n), [base + i for i in range(n)]]
                if len(sch) == 3:
                    cols.append(few_col(sch[2][1], n))
                return cols
            if rng.random() < 0.3:
                prog.append(rng.choice([['sort', len(sch) - 1], ['rows'], ['take', [0, -1, 16, 17]]]))
            cases.append(dict(cls='dyn', schema=sch, c0=mkcols(n0, 0), c1=mkcols(n1, 100), prog=prog))
        # a class of bionumpy.datatypes with a strand column
        n0 = rng.randint(17, 30)
        sch = [[f, k] for f, k in DATATYPES['StrandedInterval']]
        cases.append(dict(cls='StrandedInterval', schema=sch,
                          c0=[few_col('id', n0), list(range(n0)), [i + 5 for i in range(n0)], few_col('strand', n0)],
                          c1=[['x'], [0], [1], ['+']], prog=[['sort', 3]]))
    # (7) two add_fields calls adding a field of the SAME NAME but another declared type to two tables of the same
    #     class (the current table, then the other operand), in both orders; every result is compared with the rows
    PAIRS = [('dna', 'str'), ('str', 'dna'), ('int', 'str'), ('str', 'int'), ('id', 'dna'), ('strand', 'str'), ('float', 'id')]
    def typed_col(k, n, variant):
        if k == 'str':
            return [rng.choice(['acg', 'tt', 'hello', 'x y', 'ga']) for _ in range(n)]        # lower-case text
        if k == 'dna':
            col = [rng.choice(['ACG', 'T', 'GGA', '']) for _ in range(n)]
            if variant == 'invalid' and n:
                col[rng.randrange(n)] = rng.choice(['hello', 'AXG', 'x y'])                   # not DNA: must raise
            return col
        return _gen_col(rng, k, n)
    for rep in range(2 if tier == 'quick' else 10):
        for k1, k2 in PAIRS:
            for variant in (['plain', 'invalid'] if k2 == 'dna' else ['plain']):
                if rng.random() < 0.5:
                    cname = rng.choice(['Interval', 'SequenceEntry', 'ChromosomeSize', 'BedGraph'])
                    sch = [[f, k] for f, k in DATATYPES[cname]]
                else:
                    cname, sch = 'dyn', _gen_schema(rng, nested_ok=False)
                n0, n1 = rng.choice([1, 2, 3]), rng.choice([1, 2, 4])
                c0 = [_gen_col(rng, k, n0) for _, k in sch]
                c1 = [_gen_col(rng, k, n1) for _, k in sch]
                prog = [['add', 'z1', k1, typed_col(k1, n0, 'plain'), True],
                        ['addt1', 'z1', k2, typed_col(k2, n1, variant), True]]
                if rng.random() < 0.5:
                    prog.append(rng.choice([['rows'], ['dict'], ['sort', len(sch)], ['cats'], ['iter']]))
                cases.append(dict(cls=cname, schema=sch, c0=c0, c1=c1, prog=prog))
    # (8) hidden state between two calls: an operation applied DIRECTLY to a table just produced by indexing
    #     (permutation, reversed / strided slice, mask, non-prefix slice).  Every case is run twice by observe(): once
    #     observing each intermediate table, once without looking at any — both must agree with the specification.
    for rep in range(3 if tier == 'quick' else 12):
        for k in ['dna', 'str', 'id', 'strand', 'int', 'list', 'float', 'bool', ['nested', [['a', 'int'], ['q', 'dna']]]]:
            sch = [['f0', k], ['f1', rng.choice(['int', 'dna', 'str'])], ['f2', rng.choice(['id', 'list', 'dna'])]]
            n0, n1 = rng.randint(4, 7), rng.choice([1, 2, 3])
            c0 = [_gen_col(rng, kk, n0) for _, kk in sch]
            c1 = [_gen_col(rng, kk, n1) for _, kk in sch]
            perm = list(range(n0))
            rng.shuffle(perm)
            first = rng.choice([['take', perm], ['take', [rng.randrange(n0) for _ in range(n0 - 1)]], ['slice', None, None, -1],
                                ['slice', None, None, -2], ['slice', 1, None, 2], ['slice', 2, None, 1], ['slice', -3, None, 1],
                                ['mask', [int(i % 3 != 1) for i in range(n0)]], ['mask', [rng.randint(0, 1) for _ in range(n0)]]])
            n = len(list(range(n0))[slice(first[1], first[2], first[3])]) if first[0] == 'slice' else \
                len(first[1]) if first[0] == 'take' else sum(first[1])
            second = rng.choice([['sort', 0], ['sort', 0], ['sort', 1], ['sort', 2], ['catr'], ['catl'], ['cats'], ['cat3'],
                                 ['replace', 1, _gen_col(rng, sch[1][1], n)], ['replace', 0, _gen_col(rng, k, n)],
                                 ['rows'], ['dict'], ['pandas'], ['add', 'z1', 'dna', _gen_col(rng, 'dna', n), True],
                                 ['take', [n - 1, 0] if n else []], ['slice', None, None, -1]])
            prog = [first, second]
            if rng.random() < 0.5:
                prog.append(rng.choice([['sort', 0], ['sort', 2], ['cats'], ['slice', None, None, -1], ['rows']]))
            cases.append(dict(cls='dyn', schema=sch, c0=c0, c1=c1, prog=prog))
    # (9) int columns given as every integer dtype and as python ints at the limits of the 64-bit range; the rows are
    #     the list-of-tuples values: a value the library cannot hold must make it raise, never wrap or change
    B = 2 ** 63
    def int_col(n, kind):
        import numpy as _np                      # only iinfo (limits), no bionumpy
        if kind in ('int8', 'int16', 'int32', 'int64', 'uint8', 'uint16', 'uint32', 'uint64'):
            info = _np.iinfo(kind)
            pool = [int(info.min), int(info.max), int(info.max) - 1, int(info.min) + 1, 0, 1, int(info.max) // 2 + 1]
            if kind == 'uint64' and rng.random() < 0.6:
                pool = [B, B + 1, 2 ** 64 - 1, 2 ** 64 - 2, B + 12345]          # all at or above 2**63
            return dict(arr=kind, v=[rng.choice(pool) for _ in range(n)])
        pools = dict(big=[B, B + 1, 2 ** 64 - 1, B + 7, 2 ** 64 - 2],            # NumPy infers uint64
                     edge=[-B, B - 1, -B + 1, B - 2, 0, -1],                     # the int64 limits
                     mixed=[5, 2 ** 64 - 1, B, 0, B + 1, 3],                     # below and at/above 2**63: one uint64 holds them
                     mixneg=[-1, 2 ** 64 - 1, B, -B],                            # no 64-bit integer type holds them: must raise
                     over=[2 ** 64, -B - 1, 1, 2 ** 70])                         # outside the 64-bit range: must raise
        col = [rng.choice(pools[kind]) for _ in range(n)]
        if kind == 'mixed' and n >= 2:
            col[0], col[1] = 5, 2 ** 64 - 1
        if kind == 'mixneg' and n >= 2:
            col[0], col[1] = -1, 2 ** 64 - 1
        if kind == 'over' and n >= 1:
            col[0] = rng.choice([2 ** 64, -B - 1])
        return dict(big=col)
    KINDS9 = ['int8', 'int16', 'int32', 'int64', 'uint8', 'uint16', 'uint32', 'uint64', 'uint64', 'big', 'big', 'edge', 'mixed', 'mixneg', 'over']
    for rep in range(2 if tier == 'quick' else 8):
        for kind in KINDS9:
            sch = [['f0', rng.choice(['int', 'opt'])], ['f1', rng.choice(['str', 'id', 'dna'])]]
            n0, n1 = rng.choice([2, 3, 4]), rng.choice([1, 2])
            c0 = [int_col(n0, kind), _gen_col(rng, sch[1][1], n0)]
            c1 = [int_col(n1, kind), _gen_col(rng, sch[1][1], n1)]
            prog = []
            if kind not in ('mixneg', 'over'):
                n = n0
                for _ in range(rng.choice([1, 2, 3])):
                    o = rng.choice(['take', 'slice', 'mask', 'sort', 'cats', 'catr', 'rows', 'dict', 'pandas', 'index', 'iter',
                                    'replace1', 'replace0', 'add'])
                    if o == 'take':
                        prog.append(['take', [rng.randrange(n) for _ in range(n)] if n else []])
                    elif o == 'slice':
                        prog.append(['slice', None, None, -1])
                    elif o == 'mask':
                        prog.append(['mask', [1] * n])
                    elif o == 'sort':
                        prog.append(['sort', 0])
                    elif o == 'cats':
                        prog.append(['cats']); n = 2 * n
                    elif o == 'catr' and kind != 'mixed':
                        prog.append(['catr']); n = n + n1
                    elif o == 'replace1':
                        prog.append(['replace', 1, _gen_col(rng, sch[1][1], n)])
                    elif o == 'replace0':
                        prog.append(['replace', 0, int_col(n, kind)])
                    elif o == 'add':
                        prog.append(['add', 'z1', 'str', _gen_col(rng, 'str', n), True]); break
                    elif o in ('rows', 'dict', 'pandas', 'iter'):
                        prog.append([o])
                    elif o == 'index':
                        prog.append(['index', rng.randint(-n, n - 1) if n else 0])
            cases.append(dict(cls='dyn', schema=sch, c0=c0, c1=c1, prog=prog))
    # (10) the SHAPE in which a sequence argument is handed over.  from_entry_tuples takes an Iterable[tuple]: every
    #      shape (re-iterable: list, tuple, deque, __iter__-only object, dict view, rows as lists; one-shot: generator,
    #      iter(), zip of the columns, map, chain, __next__-only reader) x 0, 1, 2, 4 rows x every column kind, followed
    #      by an operation on the table built that way (what is lost there is lost in everything after); then two
    #      from_entry_tuples calls in a row with different shapes; np.concatenate given a tuple of tables.
    rng10 = random.Random(seed * 15485863 + 10)
    kinds10 = BASE_KINDS + [['nested', [['a', 'int'], ['s', 'str']]], ['nested', [['i', 'id'], ['d', 'dna']]]]
    follow = [['catr'], ['sort', 1], ['slice', None, None, -1], ['cats', 'tuple'], ['dict'], ['iter'], ['index', 0], ['catl', 'tuple']]
    j = 0
    for rep in range(1 if tier == 'quick' else 6):
        for shape in SHAPE_NAMES:
            for n0 in (0, 1, 2, 4):
                k = kinds10[j % len(kinds10)]
                k2 = BASE_KINDS[(j * 5 + 3) % len(BASE_KINDS)]
                sch = [['f0', k], ['f1', 'int'], ['f2', k2]]
                c0 = [_gen_col(rng10, kk, n0) for _, kk in sch]
                c1 = [_gen_col(rng10, kk, (j % 3)) for _, kk in sch]
                prog = [['rows', shape], list(follow[j % len(follow)])]
                if j % 4 == 1:
                    prog.append(['rows', SHAPE_NAMES[(j * 7 + 1) % len(SHAPE_NAMES)]])
                cases.append(dict(cls='dyn', schema=sch, c0=c0, c1=c1, prog=prog))
                j += 1
    #      ... and every supported class of bionumpy.datatypes through the one-shot and the unusual re-iterable shapes
    for rep in range(1 if tier == 'quick' else 4):
        for name in sorted(DATATYPES):
            sch = [[f, k] for f, k in DATATYPES[name]]
            n0 = rng10.choice([1, 1, 2, 3])
            shape = SHAPE_NAMES[j % len(SHAPE_NAMES)]
            prog = [['rows', shape], list(follow[j % len(follow)])]
            if prog[1][0] == 'sort':
                prog[1] = ['sort', 0]
            cases.append(_mk(name, sch, rng10, n0, rng10.choice([0, 1, 2]), 0))
            cases[-1]['prog'] = prog
            j += 1
    return _assign_shapes(cases, seed)


# ------------------------------------------------------------------------------------------------ implementation
def _pytype(k, cache):
    from typing import List, Optional
    from bionumpy.typing import SequenceID
    from bionumpy.encodings import DNAEncoding, StrandEncoding
    from bionumpy.bnpdataclass import make_dataclass
    if _is_nested(k):
        key = repr(k)
        if key not in cache:
            cache[key] = make_dataclass([(n, _pytype(sk, cache)) for n, sk in k[1]], 'Inner')
        return cache[key]
    return dict(int=int, opt=Optional[int], float=float, bool=bool, str=str, id=SequenceID, list=List[int],
                dna=DNAEncoding, strand=StrandEncoding)[k]


def _vals(col):
    """the plain value list of a column (an int column may be given as {'arr': dtype, 'v': [...]} = a NumPy array of
    that dtype, or {'big': [...]} = a python list of ints of any magnitude)"""
    return col['v'] if isinstance(col, dict) and 'arr' in col else col['big'] if isinstance(col, dict) else col


def _ncol(k, col):
    return len(col[0]) if _is_nested(k) and col else len(_vals(col))


def _pycol(k, col, cache):
    if isinstance(col, dict):
        import numpy as np
        return np.array(col['v'], dtype=col['arr']) if 'arr' in col else [int(v) for v in col['big']]
    if _is_nested(k):
        return _pytype(k, cache)(*[_pycol(sk, c, cache) for (_, sk), c in zip(k[1], col)])
    if k == 'float':
        return [v / 4.0 for v in col]
    if k == 'bool':
        return [bool(v) for v in col]
    if k == 'list':
        return [list(v) for v in col]
    return list(col)


def _q(v):
    """python number -> ('z', dtype tag, quarter units) or None"""
    import numpy as np
    if isinstance(v, (bool, np.bool_)):
        return ['z', 'B', 4 * int(v)]
    if isinstance(v, (int, np.integer)):
        return ['z', 'I', 4 * int(v)]
    if isinstance(v, (float, np.floating)):
        w = float(v) * 4
        if w == w and abs(w) != float('inf') and w == int(w):
            return ['z', 'F', int(w)]
    return None


def _cell(v):
    import dataclasses
    r = _q(v)
    if r is not None:
        return r
    if isinstance(v, str):
        try:
            return ['s', v.encode('latin1').hex()]
        except Exception:
            return ['x', repr(v)[:40]]
    if isinstance(v, list):
        qs = [_q(x) for x in v]
        if all(q is not None for q in qs) and len(set(q[1] for q in qs)) <= 1:
            return ['l', qs[0][1] if qs else 'F', [q[2] for q in qs]]
        return ['x', repr(v)[:40]]
    if dataclasses.is_dataclass(v) and not isinstance(v, type):
        return ['n', [_cell(getattr(v, f.name)) for f in dataclasses.fields(v)]]
    return ['x', repr(v)[:40]]


def _entry_cells(e):
    """a single entry as returned by table[i] / iteration -> cells"""
    import dataclasses
    import numpy as np
    from bionumpy.string_array import StringArray
    from bionumpy.encoded_array import EncodedArray
    from npstructures import RaggedArray
    out = []
    for f in dataclasses.fields(e):
        v = getattr(e, f.name)
        if isinstance(v, np.ndarray):
            out.append(_cell(v.item() if v.ndim == 0 else v.tolist()))
        elif isinstance(v, StringArray):
            out.append(_cell(v.tolist()))
        elif isinstance(v, EncodedArray):
            out.append(_cell(v.to_string()))
        elif isinstance(v, RaggedArray):
            out.append(_cell(v.tolist()))
        elif dataclasses.is_dataclass(v):
            out.append(['n', _entry_cells(v)])
        else:
            out.append(['x', type(v).__name__])
    return out


def _dtag(a):
    return {'i': 'I', 'u': 'I', 'f': 'F', 'b': 'B'}.get(a.dtype.kind)


def _rep(t):
    import numpy as np
    from npstructures import RaggedArray
    from npstructures.npdataclasses import shallow_tuple
    from bionumpy.string_array import StringArray
    from bionumpy.encoded_array import EncodedArray, EncodedRaggedArray, BaseEncoding
    from bionumpy.bnpdataclass import BNPDataClass
    from bionumpy.encodings import DNAEncoding, StrandEncoding
    out = []
    for c in shallow_tuple(t):
        if isinstance(c, np.ndarray) and c.ndim == 1 and _dtag(c):
            qs = [_q(x) for x in c.tolist()]
            out.append(['num', _dtag(c), [q[2] for q in qs]] if all(q is not None for q in qs) else ['bad', 'values'])
        elif isinstance(c, StringArray):
            raw = c.raw()
            w = raw.dtype.itemsize
            out.append(['pad', w, [bytes(r).hex() for r in c.as_bytes().reshape(len(raw), w)] if len(raw) else []])
        elif isinstance(c, EncodedRaggedArray):
            enc = 'str' if c.encoding == BaseEncoding else 'dna' if c.encoding == DNAEncoding else None
            out.append(['rag', enc, [int(x) for x in c.ravel().raw().tolist()], [int(x) for x in c.lengths.tolist()]] if enc else ['bad', 'encoding'])
        elif isinstance(c, RaggedArray):
            data = c.ravel()
            qs = [_q(x) for x in data.tolist()]
            tag = _dtag(data)
            out.append(['rag', tag, [q[2] for q in qs], [int(x) for x in c.lengths.tolist()]] if tag and all(q is not None for q in qs) else ['bad', 'ragged'])
        elif isinstance(c, EncodedArray) and c.encoding == StrandEncoding and c.raw().ndim == 1:
            out.append(['flat', [int(x) for x in c.raw().tolist()]])
        elif isinstance(c, BNPDataClass):
            out.append(['nest', _rep(c)])
        else:
            out.append(['bad', type(c).__name__])
    return out


def _observe_table(t):
    import dataclasses
    rows = [[_cell(getattr(e, f.name)) for f in dataclasses.fields(e)] for e in t.tolist()]
    return dict(cols=_rep(t), rows=rows, keys=[k for k in t.todict().keys()], n=len(t))


def _sch_after(op, cur_sch, base):
    if op[0] == 'add':
        return cur_sch + [[op[1], op[2]]]
    if op[0] == 'addt1':
        return [list(f) for f in base] + [[op[1], op[2]]]
    return cur_sch


def _apply_op(op, cur, t1, cur_sch, cache):
    """one table-producing operation through the public API; nothing else touches cur or the result"""
    import dataclasses
    import numpy as np
    import bionumpy as bnp
    o = op[0]
    if o == 'take':
        return cur[np.array(op[1], dtype=int)]
    if o == 'mask':
        return cur[np.array(op[1], dtype=bool)]
    if o == 'slice':
        return cur[slice(op[1], op[2], op[3])]
    if o in CAT_OPS:
        parts = dict(catr=[cur, t1], catl=[t1, cur], cats=[cur, cur], cat3=[cur, t1, cur])[o]
        return np.concatenate(tuple(parts) if _row_shape(op) == 'tuple' else parts)
    if o == 'sort':
        return cur.sort_by(cur_sch[op[1]][0])
    if o == 'replace':
        name, k = cur_sch[op[1]]
        return bnp.replace(cur, **{name: _pycol(k, op[2], cache)})
    if o == 'add':
        _, name, k, col, use_map = op
        return cur.add_fields({name: _pycol(k, col, cache)}, {name: _pytype(k, cache)} if use_map else None)
    if o == 'addt1':
        _, name, k, col, use_map = op
        return t1.add_fields({name: _pycol(k, col, cache)}, {name: _pytype(k, cache)} if use_map else None)
    if o == 'rows':
        names = [f.name for f in dataclasses.fields(cur)]
        tuples = [tuple(getattr(e, n) for n in names) for e in cur.tolist()]
        handed, intact = _hand_over(_row_shape(op), tuples)
        new = type(cur).from_entry_tuples(handed)
        if not intact():
            raise RuntimeError('from_entry_tuples changed the rows object it was given')
        return new
    if o == 'dict':
        return type(cur).from_dict(cur.todict())
    if o == 'pandas':
        return type(cur).from_data_frame(cur.topandas())
    raise ValueError(o)


def observe(case):
    import dataclasses
    import numpy as np
    import bionumpy as bnp
    from bionumpy.bnpdataclass import make_dataclass
    cache = {}
    sch = case['schema']
    if case['cls'] == 'dyn':
        cls = make_dataclass([(n, _pytype(k, cache)) for n, k in sch], 'Dyn')
    else:
        import bionumpy.datatypes as dtm
        cls = getattr(dtm, case['cls'])
        if [f.name for f in dataclasses.fields(cls)] != [n for n, _ in sch]:
            return dict(schema_drift=[f.name for f in dataclasses.fields(cls)])
    out = dict(steps=[])
    tabs = []
    for key, cols in (('t0', case['c0']), ('t1', case['c1'])):
        try:
            t = cls(*[_pycol(k, c, cache) for (_, k), c in zip(sch, cols)])
            o = _observe_table(t)
            tabs.append((t, o))
            out[key] = o
        except Exception as e:
            tabs.append((None, None))
            out[key] = dict(err=type(e).__name__)
    if tabs[0][0] is None or tabs[1][0] is None:
        out['after'] = [out['t0'], out['t1']]
        out['unchanged'] = True
        out['lazy'] = out['t0']
        out['lazy_errs'] = []
        return out
    cur, t1 = tabs[0][0], tabs[1][0]
    cur_sch = [list(f) for f in sch]
    for op in case['prog']:
        try:
            o = op[0]
            if o == 'index':
                out['steps'].append(dict(rowsonly=[_entry_cells(cur[op[1]])]))
                continue
            if o == 'iter':
                first = [_entry_cells(e) for e in cur]
                if [_entry_cells(e) for e in iter(cur)] != first:
                    raise RuntimeError('a second iteration over the table gave other entries')
                out['steps'].append(dict(rowsonly=first))
                continue
            new = _apply_op(op, cur, t1, cur_sch, cache)
            ob = _observe_table(new)
            out['steps'].append(ob)
            tabs.append((new, ob))
            cur = new
            cur_sch = _sch_after(op, cur_sch, sch)
        except Exception as e:
            out['steps'].append(dict(err=type(e).__name__, msg=str(e)[:120]))
    after = []
    unchanged = True
    for i, (t, o) in enumerate(tabs):
        try:
            o2 = _observe_table(t)
        except Exception as e:
            o2 = dict(err=type(e).__name__)
        if i < 2:
            after.append(o2)
        elif o2 != o:
            unchanged = False
    out['after'] = after
    out['unchanged'] = unchanged
    # the same program once more on fresh operands, WITHOUT looking at any intermediate table between two operations
    try:
        lcur = cls(*[_pycol(k, c, cache) for (_, k), c in zip(sch, case['c0'])])
        lt1 = cls(*[_pycol(k, c, cache) for (_, k), c in zip(sch, case['c1'])])
        lsch = [list(f) for f in sch]
        errs = []
        for op in case['prog']:
            try:
                if op[0] == 'iter':
                    errs.append(False)
                    continue
                if op[0] == 'index':
                    lcur[op[1]]
                    errs.append(False)
                    continue
                lcur = _apply_op(op, lcur, lt1, lsch, cache)
                lsch = _sch_after(op, lsch, sch)
                errs.append(False)
            except Exception:
                errs.append(True)
        out['lazy_errs'] = errs
        try:
            out['lazy'] = _observe_table(lcur)
        except Exception as e:
            out['lazy'] = dict(err=type(e).__name__, msg=str(e)[:120])
    except Exception as e:
        out['lazy'] = dict(err=type(e).__name__)
        out['lazy_errs'] = []
    return out


# ------------------------------------------------------------------------------------------------ Coq terms
def _names(s):
    return hx(s.encode())


def _fk(k):
    if _is_nested(k):
        return '(FN %s)' % clist(['(%s, %s)' % (_names(n), KCOQ[sk]) for n, sk in k[1]], 'list Z * kind')
    return '(FB %s)' % KCOQ[k]


def _schema(sch):
    return clist(['(%s, %s)' % (_names(n), _fk(k)) for n, k in sch], 'list Z * fk')


def _mb_in(k, v):
    """generator cell (by declared kind) -> Coq mb"""
    if k in ('int', 'opt'):
        return '(MZ DI %s)' % cz(4 * v)
    if k == 'float':
        return '(MZ DF %s)' % cz(v)
    if k == 'bool':
        return '(MZ DB %s)' % cz(4 * v)
    if k == 'list':
        return '(ML DI %s)' % zl([4 * x for x in v])
    return '(MS %s)' % hx(v.encode('latin1'))


def _colarg(k, col):
    if isinstance(col, dict):
        return '(%s %s)' % ('AArr' if 'arr' in col else 'ABig', zl([4 * int(v) for v in _vals(col)]))
    if _is_nested(k):
        return '(ANest %s)' % clist([clist([_mb_in(sk, v) for v in c], 'mb') for (_, sk), c in zip(k[1], col)], 'list mb')
    return '(ABase %s)' % clist([_mb_in(k, v) for v in col], 'mb')


def _mb_out(c):
    if c[0] == 'z':
        return '(MZ D%s %s)' % (c[1], cz(c[2]))
    if c[0] == 's':
        return '(MS %s)' % hx(bytes.fromhex(c[1]))
    if c[0] == 'l':
        return '(ML D%s %s)' % (c[1], zl(c[2]))
    return '(MS [-1])'


def _mcell_out(c):
    if c[0] == 'n':
        return '(MN %s)' % clist([_mb_out(x) for x in c[1]], 'mb')
    return '(MB %s)' % _mb_out(c)


def _rows_out(rows):
    return clist([clist([_mcell_out(c) for c in r], 'mcell') for r in rows], 'list mcell')


def _bcol_out(c):
    if c[0] == 'num':
        return '(ColNum D%s %s)' % (c[1], zl(c[2]))
    if c[0] == 'pad':
        return '(ColPad %s %s)' % (cz(c[1]), clist([hx(bytes.fromhex(r)) for r in c[2]], 'list Z'))
    if c[0] == 'rag':
        tag = {'str': 'RStr', 'dna': 'RDna'}.get(c[1]) or '(RNum D%s)' % c[1]
        return '(ColRag %s %s %s)' % (tag, zl(c[2]), zl(c[3]))
    if c[0] == 'flat':
        return '(ColFlat %s)' % zl(c[1])
    return '(ColFlat [-1])'


def _col_out(c):
    if c[0] == 'nest':
        return '(CNest %s)' % clist([_bcol_out(x) for x in c[1]], 'bcol')
    return '(CBase %s)' % _bcol_out(c)


def _obs(o):
    if o is None or 'err' in o:
        return 'OErrO'
    if 'rowsonly' in o:
        return '(ORowsO %s)' % _rows_out(o['rowsonly'])
    return '(OTab %s %s %s)' % (clist([_col_out(c) for c in o['cols']], 'col'), _rows_out(o['rows']),
                                clist([_names(k) for k in o['keys']], 'list Z'))


def _op(op, sch, base=None):
    o = op[0]
    if o == 'take':
        return '(OTake %s)' % zl(op[1])
    if o == 'mask':
        return '(OMask %s)' % clist([cbool(b) for b in op[1]], 'bool')
    if o == 'slice':
        return '(OSlice %s %s %s)' % (copt(op[1], cz), copt(op[2], cz), cz(op[3]))
    if o in ('catr', 'catl', 'cats', 'cat3'):
        return dict(catr='OCatR', catl='OCatL', cats='OCatSelf', cat3='OCat3')[o]
    if o == 'sort':
        return '(OSort %d)' % op[1]
    if o == 'replace':
        return '(OReplace %d %s)' % (op[1], _colarg(sch[op[1]][1], op[2]))
    if o == 'add':
        return '(OAdd %s %s %s)' % (_names(op[1]), KCOQ[op[2]], clist([_mb_in(op[2], v) for v in op[3]], 'mb'))
    if o == 'addt1':
        return '(OAddT1 %s %s %s %s)' % (_schema(base), _names(op[1]), KCOQ[op[2]], clist([_mb_in(op[2], v) for v in op[3]], 'mb'))
    if o == 'rows':
        return '(ORows %s)' % SHAPE_COQ[_row_shape(op)]
    return dict(dict='ODict', pandas='OPandas', iter='OIter')[o] if o != 'index' else '(OIndex %s)' % cz(op[1])


def to_coq(case, o):
    sch = case['schema']
    if 'schema_drift' in o:
        o = dict(t0=None, t1=None, steps=[], after=[None, None], unchanged=False, lazy=None, lazy_errs=[True])
    cur_sch = [list(f) for f in sch]
    ops = []
    for op, ob in zip(case['prog'], o['steps'] + [None] * len(case['prog'])):
        ops.append(_op(op, cur_sch, sch))
        if op[0] == 'add' and ob is not None and 'cols' in ob:
            cur_sch.append([op[1], op[2]])
        if op[0] == 'addt1' and ob is not None and 'cols' in ob:
            cur_sch = [list(f) for f in sch] + [[op[1], op[2]]]
    return ('{| k_sch := %s; k_a0 := %s; k_a1 := %s; k_prog := %s; k_t0 := %s; k_t1 := %s; k_steps := %s; '
            'k_t0_after := %s; k_t1_after := %s; k_unchanged := %s; k_lazy := %s; k_lazy_errs := %s |}' % (
                _schema(sch),
                clist([_colarg(k, c) for (_, k), c in zip(sch, case['c0'])], 'colarg'),
                clist([_colarg(k, c) for (_, k), c in zip(sch, case['c1'])], 'colarg'),
                clist(ops, 'op'), _obs(o['t0']), _obs(o['t1']), clist([_obs(s) for s in o['steps']], 'obs'),
                _obs(o['after'][0]), _obs(o['after'][1]), cbool(o['unchanged']),
                _obs(o.get('lazy')), clist([cbool(b) for b in o.get('lazy_errs', [])], 'bool')))


# ------------------------------------------------------------------------------------------------ evidence helpers
def _reprs(sch):
    r = set()
    for _, k in sch:
        r.add('nested' if _is_nested(k) else dict(int='num', opt='num', float='num', bool='num', str='rag', dna='rag',
                                                   list='rag', id='pad', strand='flat')[k])
    return r


def nontrivial(case, o):
    tab_ops = [p for p in case['prog'] if p[0] not in ('index', 'iter')]
    n0 = _ncol(case['schema'][0][1], case['c0'][0])
    n1 = _ncol(case['schema'][0][1], case['c1'][0])
    return len(_reprs(case['schema'])) >= 2 and max(n0, n1) >= 1 and len(tab_ops) >= 1


def describe(case, o):
    return dict(cls=case['cls'], schema=case['schema'], c0=case['c0'], prog=case['prog'],
                steps=[(s.get('err') or ('%d rows' % s['n'] if 'n' in s else 'rows only')) for s in o.get('steps', [])])


def distribution(cases, obs):
    d = dict(classes={}, kinds={}, ops={}, rows0={}, errors={}, prog_len={}, handed_over_as={})
    for c, o in zip(cases, obs):
        d['classes'][c['cls']] = d['classes'].get(c['cls'], 0) + 1
        for _, k in c['schema']:
            kk = 'nested' if _is_nested(k) else k
            d['kinds'][kk] = d['kinds'].get(kk, 0) + 1
        for p in c['prog']:
            d['ops'][p[0]] = d['ops'].get(p[0], 0) + 1
            if p[0] == 'rows' or (p[0] in CAT_OPS and len(p) > 1):
                key = '%s:%s' % ('from_entry_tuples' if p[0] == 'rows' else 'concatenate', _row_shape(p))
                d['handed_over_as'][key] = d['handed_over_as'].get(key, 0) + 1
        n0 = str(_ncol(c['schema'][0][1], c['c0'][0]))
        d['rows0'][n0] = d['rows0'].get(n0, 0) + 1
        d['prog_len'][str(len(c['prog']))] = d['prog_len'].get(str(len(c['prog'])), 0) + 1
        for s in (o or {}).get('steps', []):
            if 'err' in s:
                d['errors'][s['err']] = d['errors'].get(s['err'], 0) + 1
    return d


# ---- known-finding matchers.  A small list-of-tuples re-statement of the expected rows is used ONLY to locate the
# deviating steps of a case Coq has already judged spec-violating, so that a finding is matched by its signature
# (operation + input class + exception) and any other deviation in the same case is still reported.
def _val(c):
    if c[0] == 'z':
        return ('z', c[2])
    if c[0] == 's':
        return ('s', c[1])
    if c[0] == 'l':
        return ('l', tuple(c[2]))
    if c[0] == 'n':
        return ('n', tuple(_val(x) for x in c[1]))
    return ('x', repr(c))


def _in_val(k, v):
    if _is_nested(k):
        raise ValueError
    if k in ('int', 'opt', 'bool'):
        return ('z', 4 * v)
    if k == 'float':
        return ('z', v)
    if k == 'list':
        return ('l', tuple(4 * x for x in v))
    return ('s', v.encode('latin1').hex())


def _in_col(k, col):
    if isinstance(col, dict):
        return [('z', 4 * int(v)) for v in _vals(col)]
    if _is_nested(k):
        subs = [_in_col(sk, c) for (_, sk), c in zip(k[1], col)]
        return [('n', tuple(r)) for r in zip(*subs)] if subs and len(set(map(len, subs))) == 1 else None
    return [_in_val(k, v) for v in col]


def _cell_valid(k, v):
    if k == 'dna':
        return all(ch in 'ACGT' for ch in v)
    if k == 'strand':
        return v in ('+', '-', '.')
    return True


def _big_ok(vs):
    return all(-2 ** 63 <= v < 2 ** 63 for v in vs) or all(0 <= v < 2 ** 64 for v in vs)


def _col_valid(k, col):
    if isinstance(col, dict):
        return k in ('int', 'opt') and ('arr' in col or _big_ok(col['big']))
    if _is_nested(k):
        return all(_col_valid(sk, c) for (_, sk), c in zip(k[1], col)) and len(set(len(c) for c in col)) == 1
    return all(_cell_valid(k, v) for v in col)


def _only_multichar_strand(k, col):
    """the column is unacceptable ONLY because a flat-encoded (strand) entry is not exactly one symbol"""
    if _is_nested(k):
        return (len(set(len(c) for c in col)) == 1 and not _col_valid(k, col)
                and all(_col_valid(sk, c) or _only_multichar_strand(sk, c) for (_, sk), c in zip(k[1], col)))
    return k == 'strand' and not _col_valid(k, col) and all(ch in '+-.' for v in col for ch in v)


def _deviations(case, o):
    """list of (step number, op, observation, tag) for steps whose observation is not what the list-of-tuples
    model expects; tag names the finding signature the step matches, or None"""
    if 'schema_drift' in o or not isinstance(o.get('t0'), dict) or 'rows' not in o['t0'] or 'rows' not in (o.get('t1') or {}):
        return [(-1, None, None, None)]
    sch = [list(f) for f in case['schema']]
    rows = lambda ob: [tuple(_val(c) for c in r) for r in ob['rows']]
    cur, t1 = rows(o['t0']), rows(o['t1'])
    dev = []
    # construction of the operands: unacceptable arguments must have raised, acceptable ones give exactly their rows
    for key, cols in (('t0', case['c0']), ('t1', case['c1'])):
        bad = [(k, c) for (_, k), c in zip(sch, cols) if not _col_valid(k, c)]
        if bad:
            tag = 'C19-flat-encoded-column-multichar-entries' if all(_only_multichar_strand(k, c) for k, c in bad) else None
            dev.append((-1, ['construct', key], o[key], tag))
        else:
            cc = [_in_col(k, c) for (_, k), c in zip(sch, cols)]
            if all(c is not None for c in cc) and len(set(map(len, cc))) == 1:
                want_rows = [tuple(r) for r in zip(*cc)]
                got = rows(o[key])
                if got != want_rows:
                    dev.append((-1, ['construct', key], o[key], None))
    for i, (op, ob) in enumerate(zip(case['prog'], o['steps'])):
        n = len(cur)
        k = op[0]
        want = None          # ('tab', rows) | ('sorted', f) | ('rows', rows) | ('err',) | ('any',)
        if k == 'take':
            want = ('tab', [cur[j] for j in op[1]]) if all(-n <= j < n for j in op[1]) else ('err',)
        elif k == 'mask':
            want = ('tab', [r for r, b in zip(cur, op[1]) if b]) if len(op[1]) in (n, 0) else ('err',)
        elif k == 'slice':
            want = ('tab', cur[slice(op[1], op[2], op[3])])
        elif k in ('catr', 'catl', 'cats', 'cat3'):
            want = ('tab', dict(catr=cur + t1, catl=t1 + cur, cats=cur + cur, cat3=cur + t1 + cur)[k])
        elif k == 'sort':
            kk = sch[op[1]][1]
            want = ('any',) if _is_nested(kk) or kk == 'list' else ('sorted', op[1])
        elif k == 'replace':
            kk = sch[op[1]][1]
            col = _in_col(kk, op[2]) if _col_valid(kk, op[2]) else None
            if col is not None and len(sch) == 1:
                want = ('tab', [(c,) for c in col])
            else:
                want = ('tab', [r[:op[1]] + (c,) + r[op[1] + 1:] for r, c in zip(cur, col)]) if col is not None and len(col) == n else ('err',)
        elif k == 'add':
            col = _in_col(op[2], op[3]) if _col_valid(op[2], op[3]) else None
            want = ('tab', [r + (c,) for r, c in zip(cur, col)]) if col is not None and len(col) == n else ('err',)
        elif k == 'addt1':
            col = _in_col(op[2], op[3]) if _col_valid(op[2], op[3]) else None
            want = ('tab', [r + (c,) for r, c in zip(t1, col)]) if col is not None and len(col) == len(t1) else ('err',)
        elif k in ('rows', 'dict', 'pandas'):
            want = ('tab', cur)
        elif k == 'index':
            want = ('rows', [cur[op[1]]]) if -n <= op[1] < n else ('err',)
        elif k == 'iter':
            want = ('rows', cur)
        got_rows = rows(ob) if 'rows' in ob else None
        ok = (want[0] == 'any'
              or (want[0] == 'err' and 'err' in ob)
              or (want[0] == 'tab' and got_rows is not None and got_rows == want[1])
              or (want[0] == 'rows' and 'rowsonly' in ob and [tuple(_val(c) for c in r) for r in ob['rowsonly']] == want[1])
              or (want[0] == 'sorted' and got_rows is not None
                  and got_rows == sorted(cur, key=lambda r: _sort_key(r[want[1]]))))
        if not ok:
            tag = None
            has_nested = any(_is_nested(kk) for _, kk in sch)
            if k == 'rows' and 'err' in ob and n == 0 and ob['err'] == 'TypeError':
                tag = 'C19-from-entry-tuples-zero-rows'
            elif k == 'rows' and 'err' in ob and n > 0 and has_nested and ob['err'] == 'AttributeError':
                tag = 'C19-from-entry-tuples-nested-table'
            elif k == 'add' and 'err' in ob and n == 0 and len(op[3]) == 0 and ob['err'] == 'IndexError':
                tag = 'C19-add-fields-zero-rows'
            elif k == 'sort' and ob.get('err') == 'TypeError' and sch[op[1]][1] in ('id', 'str', 'dna'):
                tag = 'C19-sort-by-string-column'
            elif k in ('catr', 'catl', 'cats', 'cat3', 'replace') and want[0] == 'tab' and got_rows is not None and _only_rounding(want[1], got_rows):
                kinds = _only_rounding(want[1], got_rows)
                tag = 'C19-int-list-column-promoted-to-float64' if kinds == {'l'} else 'C19-int-column-promoted-to-float64' if kinds == {'z'} else None
            elif k == 'replace' and want[0] == 'err' and got_rows is not None and _only_multichar_strand(sch[op[1]][1], op[2]):
                tag = 'C19-flat-encoded-column-multichar-entries'
            elif k == 'add' and want[0] == 'err' and got_rows is not None and _only_multichar_strand(op[2], op[3]):
                tag = 'C19-flat-encoded-column-multichar-entries'
            dev.append((i, op, ob, tag))
        if got_rows is not None:
            cur = got_rows
            if k == 'add':
                sch.append([op[1], op[2]])
            if k == 'addt1':
                sch = [list(f) for f in case['schema']] + [[op[1], op[2]]]
    if len(o['steps']) != len(case['prog']):
        dev.append((-1, None, None, None))
    # the second run, in which no intermediate table is looked at, must end with the same table and raise at the same steps
    last = o['t0']
    for st in o['steps']:
        if 'rows' in st:
            last = st
    lz = o.get('lazy')
    if not isinstance(lz, dict) or lz.get('rows') != last.get('rows'):
        dev.append((-2, ['lazy-final'], lz, None))
    twin_errs = [('err' in st) for st in o['steps']]
    lazy_errs = list(o.get('lazy_errs', []))
    if len(lazy_errs) != len(twin_errs):
        dev.append((-2, ['lazy-errors'], None, None))
    else:
        # per-column state of the unobserved run: a ragged column is an unmaterialised view after take / mask / slice /
        # sort_by, stays one through replace of another column and add_fields, and is rebuilt by everything else
        def rag(c):
            return c[0] == 'rag' or (c[0] == 'nest' and any(x[0] == 'rag' for x in c[1]))
        views = [False] * len(case['schema'])
        cur_cols = o['t0'].get('cols', [])
        for i, (op, st, a, b) in enumerate(zip(case['prog'], o['steps'], twin_errs, lazy_errs)):
            if op[0] == 'index':
                predicted = a or any(views)
                if a != b:
                    tag = 'C19-single-index-of-unmaterialised-ragged-view' if (b and not a and predicted) else None
                    dev.append((i, op, dict(err='raised only when the table was not looked at before'), tag))
                elif predicted != b:
                    dev.append((i, op, dict(err='single index on an unmaterialised ragged view did not raise'), None))
                continue
            if a != b:
                dev.append((i, op, dict(err='the unobserved run %s here, the observed one did not' % ('raised' if b else 'did not raise')), None))
            if 'err' in st and op[0] == 'sort' and op[1] < len(cur_cols) and cur_cols[op[1]][0] == 'rag' \
                    and cur_cols[op[1]][1] in ('I', 'F', 'B'):
                # a sort_by that raises on a List[int] key has flattened that column of its operand
                views = [False if j == op[1] else v for j, v in enumerate(views)]
            if 'cols' in st:
                cur_cols = st['cols']
                if op[0] in ('take', 'mask', 'slice', 'sort'):
                    views = [rag(c) for c in st['cols']]
                elif op[0] == 'replace':
                    views = [False if j == op[1] else v for j, v in enumerate(views)]
                elif op[0] == 'add':
                    views = views + [False]
                else:
                    views = [False] * len(st['cols'])
    return dev


def _has_ragged(k):
    if _is_nested(k):
        return any(_has_ragged(sk) for _, sk in k[1])
    return k in ('str', 'dna', 'list')


def _sort_key(c):
    # the stable sort of the row list by the key cell: numbers by value, strings by bytes
    return c[1] if c[0] == 'z' else bytes.fromhex(c[1]) if c[0] == 's' else 0


def _key_le(a, b):
    if a[0] == 'z':
        return a[1] <= b[1]
    if a[0] == 's':
        return bytes.fromhex(a[1]) <= bytes.fromhex(b[1])
    return True


def _mixed_big(col):
    """an int column given as python ints / array values both below and at-or-above 2**63 (all within [-2**63, 2**64))"""
    if not isinstance(col, dict):
        return False
    vs = [int(v) for v in _vals(col)]
    return (all(-2 ** 63 <= v < 2 ** 64 for v in vs) and any(v >= 2 ** 63 for v in vs) and any(v < 2 ** 63 for v in vs))


def _rows_mixed(rows_):
    """some numeric column of these rows holds values both below and at-or-above 2**63"""
    for j in range(len(rows_[0]) if rows_ else 0):
        vs = [r[j][1] for r in rows_ if r[j][0] == 'z']
        if vs and any(v >= 4 * 2 ** 63 for v in vs) and any(v < 4 * 2 ** 63 for v in vs):
            return True
    return False


def _only_rounding(want, got):
    """rows equal except numbers of magnitude >= 2^53 that came back as a neighbouring double.  Returns the set of cell
    kinds affected ({'z'} plain numeric cells, {'l'} elements of int-list cells), or None when rows differ otherwise
    or not at all."""
    def near(a, b):
        return abs(a) >= 4 * 2 ** 53 and abs(a - b) * 2 ** 52 <= abs(a)
    if len(want) != len(got):
        return None
    kinds = set()
    for rw, rg in zip(want, got):
        if len(rw) != len(rg):
            return None
        for a, b in zip(rw, rg):
            if a == b:
                continue
            if a[0] == 'z' and b[0] == 'z' and near(a[1], b[1]):
                kinds.add('z')
            elif (a[0] == 'l' and b[0] == 'l' and len(a[1]) == len(b[1])
                  and all(x == y or near(x, y) for x, y in zip(a[1], b[1]))):
                kinds.add('l')
            else:
                return None
    return kinds or None


def _operands_intact(o):
    def r(ob):
        return ob.get('rows') if isinstance(ob, dict) else None
    return o.get('unchanged') and r(o.get('t0')) == r(o['after'][0]) and r(o.get('t1')) == r(o['after'][1])


def finding(case, o):
    try:
        dev = _deviations(case, o)
        if not dev or not _operands_intact(o):
            return None
        tags = set(d[3] for d in dev)
        # a case may show several recorded findings; it is attributed to one only if ALL its deviations are recorded
        from harness.lib import load_findings
        listed = load_findings()
        if None not in tags and all(t in listed for t in tags):
            return sorted(tags)[0]
    except Exception:
        return None
    return None


def signature(case, o):
    try:
        dev = _deviations(case, o)
        if dev:
            i, op, ob, tag = dev[0]
            return '%s:%s:%s' % (op[0] if op else 'construct', (ob or {}).get('err', 'value'), tag)
    except Exception:
        pass
    return 'any'


def explain(case, o):
    return [dict(step=i, op=op, observed=(ob if ob is None or 'err' in ob else {k: ob[k] for k in ob if k in ('rows', 'rowsonly')}), matches=tag)
            for i, op, ob, tag in _deviations(case, o)]

"""C09 — genomic arrays are exact, lossless views of dense per-base arrays."""
import itertools
import random
from fractions import Fraction

from harness.lib import cz, cbool, clist

ID = 'C09'
RULE = ('genomes of 1..4 chromosomes (size 1..7); leaf arrays from bedGraphs (every shape class: starts at 0 / later x '
        'ends at size / earlier x gaps / touching records x int / float / bool values x empty; exhaustive record sets '
        'of <= 3 records on one chromosome of size <= 5 (quick: 4)), from interval sets (get_mask, get_pileup; '
        'unsorted, overlapping, touching across a chromosome boundary; structured family: duplicated rows, nested, zero-length, equal starts / stops, whole chromosome, a middle chromosome without rows) and from GenomicRunLengthArray.from_intervals '
        '(scalar / per-interval values, default value); bedGraphs whose neighbouring runs are np.isclose-equal but different (250 | 250+2^-10, 2^-40 next to 0, 2000000 | 2000001); interval sets of 2^15+1 / 2^16+1 rows (thorough: 2^16-1, 2^16, 100000, 2^17+1) on a tiny genome through get_pileup / get_mask, sent to Coq as (interval, multiplicity); well-typed expression trees over {+,-,*,<,>,==,&,|,~} with '
        'array and Python-scalar operands up to depth 3; np.sum / .sum() (positional, keyword and method forms of axis=None) and np.histogram of the result in every calling convention (bins int or explicit edges x positional / keyword, range positional / keyword / absent, default call), counts and edges compared.  STATE: every genomic-array object (each leaf, the result) is observed again after the caller edited IN PLACE every array earlier observations handed out (to_dict() arrays, get_data() columns, track[name] / track[intervals] expansions, ufunc results, histogram outputs; edits: += 1, blank, sort, clip, scale, flip for bool): each leaf twice more through one route, the result three times (routes A, B, A), routes = to_dict() / the second of two to_dict() results / track[name].to_array() / track[whole-chromosome intervals] / (track + 0 | track & True).to_dict() / str = np.asarray parsed (bool, int), always with a fresh get_data(), then np.sum and np.histogram again; every repeat must again be the lossless view of the dense array the records describe (routes and edits cycled over the cases).  non-trivial = some leaf has '
        'a record, and the case has two or more chromosomes or an operator')
EXHAUSTIVE = {'quick': False, 'thorough': False}
TIE = ('translator+correspondence: Gen/C09.v regenerated from /repo (from_bedgraph, from_intervals, to_array, slice bounds, offsets) bridged to the named formulas of Model/C09.v (C09_source_tie); get_pileup empty-set test / result / hand-over skeleton bridged to Model/C09_pileup.v (C09_pileup_source_tie); '
       'slicing, get_data, ufunc forwarding, sum, histogram evaluated in Coq on the same records and expression tree')
ASSUMPTIONS = ['values are finite and small (no overflow / NaN): every value is sent to Coq as an exact dyadic rational m/2^e',
               'float results are compared exactly (values are integers or small dyadic rationals, so dense NumPy and the '
               'run-length evaluation agree bit for bit)']
PARTIAL = ['npstructures RunLengthArray ufuncs / slicing / histogram / sum / RunLength2dArray pileup are external: modelled by their '
           'meaning on run lists (common refinement of the event lists, join of equal neighbours, clipping of runs) and tied by '
           'correspondence only; C09_ufunc_pointwise_partial, C09_expression_pointwise_partial, C09_expression_complete_partial, '
           'C09_histogram_partial, C09_sum_int_partial, C09_to_dict_entry are about that abstract model, not about npstructures source',
           'np.sum on float tracks: checked by correspondence only (C09_sum_int_partial covers bool / int tracks); the dyadic '
           'normalisation algebra needed for an exact-rational statement is not proved',
           'get_pileup (C09_pileup_events_flat / C09_pileup_end_to_end / C09_pileup_back_conversion) is proved about the event pipeline of '
           'Model/C09_pileup.v (row events 0 | start +1 | stop -1, stable sort, running sum, length appended, empty runs removed, constructor assertions); '
           'that these five steps are what npstructures RunLength2dArray.from_intervals(...).sum(axis=0) does is a NAMED MODELLING ASSUMPTION '
           '(external code, not translated), validated by the correspondence check (values and run structure); interval sets of more than 48 rows '
           '(size-threshold cases) are evaluated with the abstract coverage model `pileup` instead of the pipeline (C09_pileup_abstract_flat / '
           'C09_pileup_in_force_end_to_end prove that this model, and so the model in force, expands to the coverage count too)',
           'C09_mask_end_to_end_partial is history: C09_mask_end_to_end has no hypothesis on the merge step (the merge walk is the scan of Proofs/C08_merge.v, '
           'C08 lemmas imported); the literal vectorised merge_intervals code (maximum.accumulate, masks) is tied to that scan in C08 (merge_model_go), not again here',
           'C09_from_intervals_dense_partial / _touching_refuted / _array_refuted are history (the pinned constructor); the '
           'constructor in force is covered by C09_from_intervals_scalar_full / C09_from_intervals_array_full']
PER_FILE = 24

KINDS = 'bif'
NAMESETS = [['chr1', 'chr2', 'chr3', 'chr4'], ['chrB', 'chrA', 'chr10', 'chr9']]


# ----------------------------------------------------------------------------- values
def V(x):
    """python number -> [m, e] with x = m / 2**e (normalised)."""
    if isinstance(x, bool):
        return [int(x), 0]
    f = Fraction(x)
    e = f.denominator.bit_length() - 1
    assert f.denominator == 1 << e
    return [f.numerator, e]


def unV(v, kind):
    if kind == 'b':
        return bool(v[0])
    if kind == 'i':
        assert v[1] == 0
        return int(v[0])
    return v[0] / float(1 << v[1])


def kmax(a, b):
    return KINDS[max(KINDS.index(a), KINDS.index(b))]


def bin_kind(op, ka, kb):
    if op in '+*':
        return kmax(ka, kb)
    if op == '-':
        return None if ka == kb == 'b' else kmax(ka, kb)
    if op in ('<', '>', '=='):
        return 'b'
    k = kmax(ka, kb)
    return None if k == 'f' else k


def leaf_kind(l):
    return {0: l['kind'], 1: 'b', 2: 'i'}.get(l['tag'], l['kind'])


def expr_kind(e, leaves):
    t = e[0]
    if t == 'leaf':
        return leaf_kind(leaves[e[1]])
    if t == 'not':
        k = expr_kind(e[1], leaves)
        return None if k in (None, 'f') else k
    if t == 'aa':
        a, b = expr_kind(e[2], leaves), expr_kind(e[3], leaves)
        return None if a is None or b is None else bin_kind(e[1], a, b)
    if t == 'as':
        a = expr_kind(e[2], leaves)
        return None if a is None else bin_kind(e[1], a, e[3])
    if t == 'sa':
        b = expr_kind(e[4], leaves)
        return None if b is None else bin_kind(e[1], e[2], b)
    raise ValueError(t)


def expr_depth(e):
    t = e[0]
    if t == 'leaf':
        return 0
    if t == 'not':
        return 1 + expr_depth(e[1])
    if t == 'aa':
        return 1 + max(expr_depth(e[2]), expr_depth(e[3]))
    if t == 'as':
        return 1 + expr_depth(e[2])
    return 1 + expr_depth(e[4])


def expr_ops(e, acc):
    t = e[0]
    if t == 'not':
        acc.add('~')
        expr_ops(e[1], acc)
    elif t == 'aa':
        acc.add(e[1])
        expr_ops(e[2], acc)
        expr_ops(e[3], acc)
    elif t == 'as':
        acc.add(e[1] + 's')
        expr_ops(e[2], acc)
    elif t == 'sa':
        acc.add('s' + e[1])
        expr_ops(e[4], acc)
    return acc


def apply_expr(e, leaves_arr):
    """Evaluate the tree with Python operators (works for GenomicArray and for dense numpy arrays)."""
    t = e[0]
    if t == 'leaf':
        return leaves_arr[e[1]]
    if t == 'not':
        return ~apply_expr(e[1], leaves_arr)
    if t == 'aa':
        a, b = apply_expr(e[2], leaves_arr), apply_expr(e[3], leaves_arr)
    elif t == 'as':
        a, b = apply_expr(e[2], leaves_arr), unV(e[4], e[3])
    else:
        a, b = unV(e[3], e[2]), apply_expr(e[4], leaves_arr)
    op = e[1]
    if op == '+':
        return a + b
    if op == '-':
        return a - b
    if op == '*':
        return a * b
    if op == '<':
        return a < b
    if op == '>':
        return a > b
    if op == '==':
        return a == b
    if op == '&':
        return a & b
    if op == '|':
        return a | b
    raise ValueError(op)


# ----------------------------------------------------------------------------- generator
def record_sets(n, kmax_):
    """all sorted, non-overlapping, non-empty record sets (start, stop) with <= kmax_ records on [0, n]."""
    out = [[]]
    pts = range(n + 1)
    for k in range(1, kmax_ + 1):
        for c in itertools.combinations_with_replacement(pts, 2 * k):
            ok = all(c[2 * i] < c[2 * i + 1] for i in range(k))
            if ok:
                out.append([(c[2 * i], c[2 * i + 1]) for i in range(k)])
    return out


def rand_value(rng, kind, nonzero=False):
    if kind == 'b':
        return V(True if nonzero else rng.random() < 0.8)
    if kind == 'i':
        x = rng.choice([1, 2, 3, 5, -1, -4, 7] if nonzero else [0, 1, 1, 2, 3, 5, -1, -4, 7])
        return V(x)
    x = rng.choice([0.5, 1.5, 2.0, -0.25, 3.0, 1.0, 0.75] if nonzero else [0.0, 0.5, 1.5, 2.0, -0.25, 3.0, 1.0, 0.75, 2.0])
    return V(x)


def bedgraph_leaf(rng, kind, per_chrom_sets, equal_neighbours=False):
    recs = []
    for c, rs in enumerate(per_chrom_sets):
        prev = None
        for s, e in rs:
            v = rand_value(rng, kind)
            if equal_neighbours and prev is not None and rng.random() < 0.5:
                v = prev
            prev = v
            recs.append([c, s, e, v])
    if not recs:
        kind = 'i'      # an empty bedGraph carries no dtype; the library answers with an int64 zero track
    return dict(tag=0, kind=kind, recs=recs, value=V(0), default=V(0))


def rand_record_set(rng, n, maxk=3):
    k = rng.randint(0, min(maxk, n))
    if k == 0:
        return []
    # boundary-heavy: often start at 0, end at n, touch
    pts = sorted(rng.choice([0, n, rng.randint(0, n), rng.randint(0, n)]) for _ in range(2 * k))
    rs = [(pts[2 * i], pts[2 * i + 1]) for i in range(k) if pts[2 * i] < pts[2 * i + 1]]
    return rs


def interval_leaf(rng, tag, sizes):
    recs = []
    n_iv = rng.choice([0, 1, 2, 3, 4, 5])
    for _ in range(n_iv):
        c = rng.randrange(len(sizes))
        n = sizes[c]
        s = rng.choice([0, rng.randrange(n), rng.randrange(n)])
        e = rng.choice([n, rng.randint(s + 1, n), rng.randint(s + 1, n)])
        recs.append([c, s, e, V(1)])
    if rng.random() < 0.4:
        recs.sort()
    return dict(tag=tag, kind='b' if tag == 1 else 'i', recs=recs, value=V(1), default=V(0))


IV_FEATURES = ['dup', 'nested', 'border', 'zero', 'touch', 'full', 'same_start', 'same_stop']


def structured_interval_leaf(rng, tag, sizes, feats, empty_mid=False):
    """interval set (get_mask / get_pileup) built from named features: duplicated rows, nested intervals, a pair touching
    across a chromosome border (stop = chromosome size | start = 0 of the next), zero-length rows, touching inside a
    chromosome, a whole chromosome, equal starts / equal stops; optionally a middle chromosome without any row."""
    nc = len(sizes)
    skip = rng.randrange(1, nc - 1) if (empty_mid and nc >= 3) else None
    chroms = [c for c in range(nc) if c != skip]
    recs = []

    def add(c, s, e):
        recs.append([c, s, e, V(1)])
    for f in feats:
        c = rng.choice(chroms)
        n = sizes[c]
        s = rng.randrange(n)
        e = rng.randint(s + 1, n)
        if f == 'dup':
            for _ in range(rng.choice([2, 2, 3])):
                add(c, s, e)
        elif f == 'nested':
            s2 = rng.randint(s, e - 1)
            add(c, s, e)
            add(c, s2, rng.randint(s2 + 1, e))
        elif f == 'border':
            pairs = [c0 for c0 in range(nc - 1) if c0 != skip and c0 + 1 != skip]
            if pairs:
                c0 = rng.choice(pairs)
                add(c0, rng.randrange(sizes[c0]), sizes[c0])
                add(c0 + 1, 0, rng.randint(1, sizes[c0 + 1]))
            else:
                add(c, s, n)
        elif f == 'zero':
            add(c, s, s)
        elif f == 'touch' and n >= 2:
            m = rng.randint(1, n - 1)
            add(c, rng.randrange(m), m)
            add(c, m, rng.randint(m + 1, n))
        elif f == 'full':
            add(c, 0, n)
        elif f == 'same_start':
            add(c, s, e)
            add(c, s, rng.randint(s + 1, n))
        elif f == 'same_stop':
            add(c, s, e)
            add(c, rng.randrange(e), e)
        else:
            add(c, s, e)
    r = rng.random()
    if r < 0.4:
        rng.shuffle(recs)
    elif r < 0.6:
        recs.sort(reverse=True)
    return dict(tag=tag, kind='b' if tag == 1 else 'i', recs=recs, value=V(1), default=V(0), feats=sorted(set(feats)) + (['empty_mid'] if skip is not None else []))


def expand_rows(recs):
    """interval records with multiplicities -> the rows of the interval set, round robin over the distinct records
    (record j of k occurs N // k + (1 if j < N % k else 0) times for N rows in total)."""
    mult = [r[3][0] for r in recs]
    if all(m == 1 for m in mult):
        return recs
    k, n = len(recs), sum(mult)
    assert mult == [n // k + (1 if j < n % k else 0) for j in range(k)], mult
    return [recs[i % k] for i in range(n)]


def big_interval_leaf(rng, tag, sizes, n_rows):
    """size-threshold case: an interval set of n_rows rows (k distinct intervals, round robin) on a tiny genome"""
    k = rng.randint(3, 6)
    recs = []
    for j in range(k):
        c = rng.randrange(len(sizes))
        n = sizes[c]
        s = rng.randrange(n)
        e = rng.randint(s + 1, n)
        recs.append([c, s, e, V(n_rows // k + (1 if j < n_rows % k else 0))])
    return dict(tag=tag, kind='b' if tag == 1 else 'i', recs=recs, value=V(1), default=V(0), rows=n_rows)


NEAR = {'f250': ('f', [250.0, 250 + 2.0 ** -10, 250 + 2.0 ** -9]),          # np.isclose-equal, different (dyadic: sums stay exact)
        'f1': ('f', [1 + 2.0 ** -20, 1 + 2.0 ** -19, 1.0]),
        'tiny': ('f', [2.0 ** -40, 2.0 ** -30, 2.0 ** -27]),                # below atol 1e-8: close to a zero gap
        'ibig': ('i', [2000000, 2000001, 2000002])}


def near_leaf(rng, sizes, fam):
    """bedGraph whose NEIGHBOURING runs hold values that differ by less than np.isclose's tolerance"""
    kind, vals = NEAR[fam]
    recs, j = [], rng.randrange(3)
    for c, n in enumerate(sizes):
        if n < 2 or rng.random() < 0.2:
            continue
        cuts = sorted(set([0, n] + [rng.randint(1, n - 1) for _ in range(rng.randint(1, 3))]))
        if fam == 'tiny' or rng.random() < 0.3:          # leave a zero run next to a value
            cuts = cuts[rng.randint(0, 1):]
        for a, b in zip(cuts[:-1], cuts[1:]):
            if fam == 'tiny' and rng.random() < 0.3:
                continue
            recs.append([c, a, b, V(vals[j % 3])])
            j += 1
    return dict(tag=0, kind=kind if recs else 'i', recs=recs, value=V(0), default=V(0))


def direct_leaf(rng, sizes, array_values=None, touching=False):
    """GenomicRunLengthArray.from_intervals on the flat genome axis (intervals sorted, strictly separated
    unless `touching`)."""
    tot = sum(sizes)
    kind = rng.choice(KINDS)
    k = rng.randint(0, min(3, (tot + 1) // 2))
    for _ in range(50):
        pts = sorted(rng.choice([0, tot, rng.randint(0, tot), rng.randint(0, tot)]) for _ in range(2 * k))
        ivs = [(pts[2 * i], pts[2 * i + 1]) for i in range(k)]
        if all(a < b for a, b in ivs) and all((ivs[i][1] <= ivs[i + 1][0]) if touching else (ivs[i][1] < ivs[i + 1][0])
                                              for i in range(k - 1)):
            break
    else:
        ivs = [(0, tot)] if k else []
    if array_values is None:
        array_values = rng.random() < 0.3 and len(ivs) > 0
    value = rand_value(rng, kind, nonzero=True)
    default = V(0) if rng.random() < 0.7 else rand_value(rng, kind)
    if kind == 'b':
        default = V(False) if value[0] else V(True)
        if rng.random() < 0.7:
            value, default = V(True), V(False)
    recs = [[0, s, e, (rand_value(rng, kind) if array_values else value)] for s, e in ivs]
    return dict(tag=4 if array_values else 3, kind=kind, recs=recs, value=value, default=default)


SCALARS = {'i': [0, 1, 2, -1, 3], 'f': [0.5, 1.5, -0.5, 2.0, 0.0], 'b': [True, False]}
EDGES = [[-2, 0, 1, 2, 4], [0, 0.5, 1, 3, 10], [-10, -1, 0, 1, 10], [0, 1, 2, 3, 4, 5, 6, 8]]


def rand_expr(rng, leaves, depth):
    """random well-typed tree of exactly/at most the given depth."""
    for _ in range(200):
        e = _rand_expr(rng, leaves, depth)
        if expr_kind(e, leaves) is not None:
            return e
    return ['leaf', 0]


def _rand_expr(rng, leaves, depth):
    if depth == 0:
        return ['leaf', rng.randrange(len(leaves))]
    r = rng.random()
    op = rng.choice(['+', '-', '*', '<', '>', '==', '&', '|'])
    if r < 0.15:
        return ['not', _rand_expr(rng, leaves, depth - 1)]
    if r < 0.55:
        d2 = rng.randint(0, depth - 1)
        a, b = _rand_expr(rng, leaves, depth - 1), _rand_expr(rng, leaves, d2)
        if rng.random() < 0.5:
            a, b = b, a
        return ['aa', op, a, b]
    sub = _rand_expr(rng, leaves, depth - 1)
    ka = expr_kind(sub, leaves)
    ks = rng.choice('if')
    if op in '&|':
        ks = 'b' if ka == 'b' and rng.random() < 0.7 else 'i'
    s = V(rng.choice(SCALARS[ks]))
    if rng.random() < 0.6:
        return ['as', op, sub, ks, s]
    return ['sa', op, ks, s, sub]


HIST_STYLES = ['kw_edges', 'pos_edges', 'pos_int', 'pos_int_range', 'kw_int_range', 'mixed', 'default', 'kw_int', 'pos_edges_none']
SUM_STYLES = ['np', 'np_pos_none', 'np_kw_none', 'method', 'method_kw']
HIST_RANGES = [(0, 9), (-2, 6), (0, 1), (0.5, 4.5), (0, 3)]
HIST_NBINS = [1, 2, 3, 4, 7, 10]
_MK = [0]


def mk(sizes, leaves, expr, edges=None, names=0):
    """the calling conventions of np.histogram / np.sum are cycled deterministically over the cases"""
    j = _MK[0]
    _MK[0] += 1
    rg = HIST_RANGES[(j // len(HIST_STYLES)) % len(HIST_RANGES)]
    return dict(sizes=list(sizes), leaves=leaves, expr=expr, edges=[V(x) for x in (edges or EDGES[0])], names=names,
                hist=dict(style=HIST_STYLES[j % len(HIST_STYLES)], bins=HIST_NBINS[(j // 3) % len(HIST_NBINS)], range=[V(rg[0]), V(rg[1])]),
                sum_style=SUM_STYLES[j % len(SUM_STYLES)], rep=j)


def hist_call(np, x, case):
    """np.histogram(x, ...) in the calling convention of the case (same call for the genomic and the dense array)."""
    h = case.get('hist') or dict(style='kw_edges')
    edges = [unV(v, 'f') for v in case['edges']]
    n = h.get('bins', 4)
    rg = tuple(unV(v, 'f') for v in h['range']) if h.get('range') else (0, 9)
    st = h['style']
    if st == 'kw_edges':
        return np.histogram(x, bins=edges)
    if st == 'pos_edges':
        return np.histogram(x, edges)
    if st == 'pos_edges_none':
        return np.histogram(x, edges, None)
    if st == 'pos_int':
        return np.histogram(x, n)
    if st == 'kw_int':
        return np.histogram(x, bins=n)
    if st == 'pos_int_range':
        return np.histogram(x, n, rg)
    if st == 'kw_int_range':
        return np.histogram(x, bins=n, range=rg)
    if st == 'mixed':
        return np.histogram(x, n, range=rg)
    if st == 'default':
        return np.histogram(x)
    raise ValueError(st)


def sum_call(np, x, case):
    st = case.get('sum_style', 'np')
    if st == 'np':
        return np.sum(x)
    if st == 'np_pos_none':
        return np.sum(x, None)
    if st == 'np_kw_none':
        return np.sum(x, axis=None)
    if st == 'method':
        return x.sum()
    if st == 'method_kw':
        return x.sum(axis=None)
    raise ValueError(st)


def generate(tier, seed):
    rng = random.Random(seed * 7919 + 9)
    _MK[0] = seed
    cases = []
    quick = tier == 'quick'
    # A. every bedGraph shape on one chromosome (exhaustive record sets), kinds cycled, identity / scalar expression
    i = 0
    for n in range(1, (4 if quick else 5) + 1):
        for rs in record_sets(n, 3):
            kinds = [KINDS[i % 3]] if quick else KINDS
            for kind in kinds:
                leaf = bedgraph_leaf(rng, kind, [rs], equal_neighbours=(i % 4 == 0))
                ex = ['leaf', 0] if i % 2 == 0 else rand_expr(rng, [leaf], 1)
                cases.append(mk([n], [leaf], ex, EDGES[i % len(EDGES)]))
            i += 1
    # B. two chromosomes: every pair of record sets with <= 2 records on sizes (2,2),(3,1),(1,3) ; sampled on larger ones
    for sizes in ([(2, 2), (3, 1), (1, 3)] if quick else [(2, 2), (3, 1), (1, 3), (3, 2), (2, 3), (3, 3)]):
        sets = [record_sets(n, 2) for n in sizes]
        pairs = list(itertools.product(*sets))
        if quick and len(pairs) > 120:
            pairs = rng.sample(pairs, 120)
        for pr in pairs:
            kind = KINDS[i % 3]
            leaf = bedgraph_leaf(rng, kind, list(pr), equal_neighbours=(i % 3 == 0))
            cases.append(mk(sizes, [leaf], ['leaf', 0] if i % 3 else rand_expr(rng, [leaf], 1), EDGES[i % len(EDGES)], names=i % 2))
            i += 1
    # D. GenomicRunLengthArray.from_intervals: every sorted, non-overlapping interval set with <= 3 intervals (touching ones
    #    included) on a flat axis of length n, scalar and per-interval values alternating, genome [n] or split in two
    for n in range(1, (4 if quick else 5) + 1):
        for rs in record_sets(n, 3):
            kind = KINDS[i % 3]
            arr = (i % 2 == 1) and len(rs) > 0
            value = rand_value(rng, kind, nonzero=True)
            default = V(0) if i % 3 else rand_value(rng, kind)
            if kind == 'b':
                value, default = (V(True), V(False)) if i % 4 else (V(False), V(True))
            leaf = dict(tag=4 if arr else 3, kind=kind, recs=[[0, a, b, (rand_value(rng, kind) if arr else value)] for a, b in rs],
                        value=value, default=default)
            sizes = [n] if (n < 2 or i % 2 == 0) else [1 + i % (n - 1), n - 1 - i % (n - 1)]
            cases.append(mk(sizes, [leaf], ['leaf', 0] if i % 3 else rand_expr(rng, [leaf], 1), EDGES[i % len(EDGES)], names=i % 2))
            i += 1
    # E. neighbouring runs with nearly equal values (np.isclose-equal but different), zero gaps next to tiny values
    for fam in ('f250', 'f1', 'tiny', 'ibig'):
        for j in range(12 if quick else 60):
            sizes = [rng.randint(2, 7) for _ in range(rng.randint(1, 3))]
            leaf = near_leaf(rng, sizes, fam)
            cases.append(mk(sizes, [leaf], ['leaf', 0] if j % 2 == 0 else rand_expr(rng, [leaf], 1), EDGES[j % len(EDGES)], names=j % 2))
    # F. size thresholds: interval sets with just over 2^15 / 2^16 rows (not multiples) on a tiny genome, pileup and mask
    for n_rows in ([2 ** 15 + 1, 2 ** 16 + 1] if quick else [2 ** 15 + 1, 2 ** 16 - 1, 2 ** 16, 2 ** 16 + 1, 100000, 2 ** 17 + 1]):
        for tag in (2, 1):
            sizes = [rng.randint(2, 9) for _ in range(rng.randint(1, 3))]
            leaf = big_interval_leaf(rng, tag, sizes, n_rows)
            cases.append(mk(sizes, [leaf], ['leaf', 0], EDGES[3], names=tag % 2))
        sizes = [rng.randint(2, 9) for _ in range(2)]
        lp, lm = big_interval_leaf(rng, 2, sizes, n_rows), big_interval_leaf(rng, 1, sizes, n_rows - 1000)
        cases.append(mk(sizes, [lp, lm], ['aa', '*', ['leaf', 0], ['leaf', 1]], EDGES[3]))
    # G. structured interval sets through get_pileup / get_mask: duplicated rows, nested, touching across a chromosome border,
    #    zero-length rows, equal starts / stops, a whole chromosome, a middle chromosome without rows; every feature alone and
    #    random combinations of two or three
    combos = [[f] for f in IV_FEATURES] + [rng.sample(IV_FEATURES, rng.choice([2, 2, 3])) for _ in range(14 if quick else 120)]
    for j, feats in enumerate(combos):
        for tag in (2, 1):
            nchrom = rng.randint(1, 4) if j % 3 else rng.randint(3, 4)
            sizes = [rng.randint(1, 6) for _ in range(nchrom)]
            leaf = structured_interval_leaf(rng, tag, sizes, feats, empty_mid=(j % 2 == 0))
            ex = ['leaf', 0] if j % 4 else rand_expr(rng, [leaf], 1)
            cases.append(mk(sizes, [leaf], ex, EDGES[j % len(EDGES)], names=j % 2))
    # C. random genomes, mixed leaves, expression trees to depth 3
    n_rand = 1000 if quick else 8000
    for j in range(n_rand):
        nchrom = rng.randint(1, 4)
        sizes = [rng.randint(1, 7 if j % 5 == 0 else 4) for _ in range(nchrom)]
        nleaves = rng.randint(1, 3)
        leaves = []
        for _ in range(nleaves):
            r = rng.random()
            if r < 0.5:
                leaves.append(bedgraph_leaf(rng, rng.choice(KINDS), [rand_record_set(rng, n) for n in sizes],
                                            equal_neighbours=rng.random() < 0.3))
            elif r < 0.68:
                leaves.append(interval_leaf(rng, 1, sizes))
            elif r < 0.86:
                leaves.append(interval_leaf(rng, 2, sizes))
            else:
                leaves.append(direct_leaf(rng, sizes, touching=(rng.random() < 0.4)))
        depth = rng.choice([0, 1, 1, 2, 2, 3, 3])
        cases.append(mk(sizes, leaves, rand_expr(rng, leaves, depth), rng.choice(EDGES), names=j % 2))
    return cases


# ----------------------------------------------------------------------------- implementation runner
def _dense_leaf(np, case, l):
    """ground truth: the dense flat array the records describe (plain loops)."""
    sizes = case['sizes']
    offs = [sum(sizes[:c]) for c in range(len(sizes))]
    tot = sum(sizes)
    k = leaf_kind(l)
    dt = {'b': bool, 'i': np.int64, 'f': np.float64}[k]
    if l['tag'] == 0:
        a = np.zeros(tot, dtype=dt)
        for c, s, e, v in l['recs']:
            a[offs[c] + s: offs[c] + e] = unV(v, k)
    elif l['tag'] == 1:
        a = np.zeros(tot, dtype=bool)
        for c, s, e, v in l['recs']:
            a[offs[c] + s: offs[c] + e] = True
    elif l['tag'] == 2:
        a = np.zeros(tot, dtype=np.int64)
        for c, s, e, v in l['recs']:
            a[offs[c] + s: offs[c] + e] += v[0]          # the value field of an interval record is its multiplicity
    else:
        a = np.full(tot, unV(l['default'], k), dtype=dt)
        for c, s, e, v in l['recs']:
            a[s:e] = unV(v, k)
    return a


def _arr_vals(a):
    k = a.dtype.kind
    if k == 'b':
        return [[int(x), 0] for x in a.tolist()]
    if k in 'iu':
        return [[int(x), 0] for x in a.tolist()]
    return [V(float(x)) for x in a.tolist()]


def _kind_of(dtype):
    k = dtype.kind
    return 'b' if k == 'b' else ('i' if k in 'iu' else ('f' if k == 'f' else '?'))


def _rows_of_data(np, data, names, handed=None):
    chrom = data.chromosome.tolist()
    starts, stops = data.start.tolist(), data.stop.tolist()
    if hasattr(data, 'value'):
        vals = _arr_vals(np.asarray(data.value))
    else:
        vals = [[1, 0]] * len(chrom)
    if handed is not None:
        handed.extend([data.start, data.stop] + ([data.value] if hasattr(data, 'value') else []))
    return [[names.index(str(c)), int(s), int(e), v] for c, s, e, v in zip(chrom, starts, stops, vals)]


# ---- repeated observation of ONE genomic-array object with caller-side in-place edits of earlier results in between ----
REP_ROUTES = ['to_dict', 'sibling', 'chrom', 'intervals', 'ufunc', 'str']
REP_EDITS = ['add', 'blank', 'sort', 'clip', 'scale']


def _edit_in_place(np, handed, how):
    """what a caller may do to arrays it was handed (its own copies): pseudo count, clip, sort, blank, normalise, flip.
    Every writable array is really changed (if the chosen edit is a no-op on it, one is added / it is flipped)."""
    for a in handed:
        if not isinstance(a, np.ndarray) or a.size == 0 or not a.flags.writeable:
            continue
        before = a.copy()
        try:
            if a.dtype == bool:
                if how in ('blank', 'clip'):
                    a[:] = False
                elif how == 'sort':
                    a.sort()
                else:
                    a[:] = ~a
            elif how == 'add':
                a += 1
            elif how == 'blank':
                a[:] = 0
            elif how == 'sort':
                a.sort()
            elif how == 'clip':
                np.clip(a, 0, 1, out=a)
            else:
                a *= 3
            if np.array_equal(a, before):
                if a.dtype == bool:
                    a[:] = ~a
                else:
                    a += 1
        except Exception:
            pass


def _parse_str(np, text, names, kind):
    """str(track) / np.asarray(track): one line 'name: [v v v]' per chromosome (exact for bool / int arrays)"""
    lines = text.split('\n')
    if len(lines) != len(names):
        raise ValueError('str: %d lines for %d chromosomes' % (len(lines), len(names)))
    out = []
    for n, ln in zip(names, lines):
        head, _, body = ln.partition(': ')
        if head != n or not (body.startswith('[') and body.endswith(']')):
            raise ValueError('str: unexpected line %r' % ln)
        toks = body[1:-1].split()
        if kind == 'b':
            out.append(np.array([{'True': True, 'False': False}[t] for t in toks], dtype=bool))
        else:
            out.append(np.array([int(t) for t in toks], dtype=np.int64))
    return out


def _rep_round(np, bnp, g, x, names, sizes, route, how, handed):
    """one more observation of x through `route`, after everything handed out before was edited in place (`how`);
    each observation must be re-derived from the records: same dense arrays, same get_data() rows."""
    from bionumpy.datatypes import Interval
    try:
        pending = None
        if route == 'sibling':           # two conversions; the first is edited, the second is read afterwards
            first, pending = x.to_dict(), x.to_dict()
            handed.extend(first[n] for n in names)
        _edit_in_place(np, handed, how)
        kind = _kind_of(x.dtype)
        if route == 'str' and kind not in 'bi':
            route = 'chrom'
        src = x
        if route == 'to_dict':
            d = x.to_dict()
            arrs = [d[n] for n in names]
        elif route == 'sibling':
            arrs = [pending[n] for n in names]
        elif route == 'chrom':
            arrs = [x[n].to_array() for n in names]
        elif route == 'intervals':
            iv = g.get_intervals(Interval(list(names), [0] * len(names), list(sizes)))
            r = x[iv]
            arrs = [np.asarray(r[i].to_array()) for i in range(len(names))]
        elif route == 'ufunc':
            src = (x & True) if kind == 'b' else (x + 0)
            d = src.to_dict()
            arrs = [d[n] for n in names]
            kind = _kind_of(src.dtype)
        else:
            t1, t2 = str(x), str(np.asarray(x))
            if t1 != t2:
                raise ValueError('str(x) != str(np.asarray(x))')
            arrs = _parse_str(np, t1, names, kind)
        arrs = [np.asarray(a) for a in arrs]
        if any(_kind_of(a.dtype) != kind for a in arrs):
            return dict(ok=False, err='%s: dtype of the per-chromosome arrays %r, of the track %s' % (route, [str(a.dtype) for a in arrs], kind))
        dense = [_arr_vals(a) for a in arrs]
        rows = _rows_of_data(np, src.get_data(), names, handed)
        handed.extend(arrs)
        return dict(ok=True, kind=kind, dense=dense, data=rows, route=route, edit=how)
    except Exception as e:
        return dict(ok=False, err='%s after %s: %s: %s' % (route, how, type(e).__name__, str(e)[:100]), route=route, edit=how)


def _observe_array(np, x, names, handed=None):
    d = x.to_dict()
    if list(d.keys()) != names:
        return dict(ok=False, err='to_dict keys %r' % (list(d.keys()),))
    dense = [_arr_vals(np.asarray(d[n])) for n in names]
    if handed is not None:
        handed.extend(d[n] for n in names)
    kind = _kind_of(x.dtype)
    data = x.get_data()
    if handed is not None:
        handed.extend([data.start, data.stop] + ([data.value] if hasattr(data, 'value') else []))
    chrom = data.chromosome.tolist()
    starts, stops = data.start.tolist(), data.stop.tolist()
    rows = []
    if hasattr(data, 'value'):
        vals = _arr_vals(np.asarray(data.value))
    else:
        vals = [[1, 0]] * len(chrom)
    for c, s, e, v in zip(chrom, starts, stops, vals):
        rows.append([names.index(str(c)), int(s), int(e), v])
    return dict(ok=True, kind=kind, dense=dense, data=rows, data_type=type(data).__name__)


def observe(case):
    import numpy as np
    import bionumpy as bnp
    from bionumpy.datatypes import BedGraph, Interval
    from bionumpy.arithmetics.intervals import GenomicRunLengthArray
    from bionumpy.genomic_data.genomic_track import GenomicArray
    sizes = case['sizes']
    names = NAMESETS[case.get('names', 0)][:len(sizes)]
    g = bnp.Genome.from_dict(dict(zip(names, sizes)))
    tot = sum(sizes)
    arrays, lobs = [], []
    handed = []          # every array an earlier observation handed to the caller (edited in place before each repeat)
    rep = case.get('rep', 0)
    for l in case['leaves']:
        k = leaf_kind(l)
        dt = {'b': bool, 'i': np.int64, 'f': np.float64}[k]
        try:
            if l['tag'] == 0:
                bg = BedGraph([names[r[0]] for r in l['recs']], [r[1] for r in l['recs']], [r[2] for r in l['recs']],
                              np.array([unV(r[3], k) for r in l['recs']], dtype=dt))
                x = g.get_track(bg)
            elif l['tag'] in (1, 2):
                rows = expand_rows(l['recs'])
                iv = g.get_intervals(Interval([names[r[0]] for r in rows], [r[1] for r in rows], [r[2] for r in rows]))
                x = iv.get_mask() if l['tag'] == 1 else iv.get_pileup()
            else:
                starts = np.array([r[1] for r in l['recs']], dtype=int)
                ends = np.array([r[2] for r in l['recs']], dtype=int)
                if l['tag'] == 3:
                    values = unV(l['value'], k)
                else:
                    values = np.array([unV(r[3], k) for r in l['recs']], dtype=dt)
                rle = GenomicRunLengthArray.from_intervals(starts, ends, tot, values=values, default_value=unV(l['default'], k))
                x = GenomicArray.from_global_data(rle, g.get_genome_context())
            o = _observe_array(np, x, names, handed)
        except Exception as e:
            x, o = None, dict(ok=False, err='%s: %s' % (type(e).__name__, str(e)[:100]))
        arrays.append(x)
        lobs.append(o)
    out = dict(leaves=lobs)
    # the same tree on dense NumPy arrays (ground truth)
    dense = [_dense_leaf(np, case, l) for l in case['leaves']]
    d = np.asarray(apply_expr(case['expr'], dense))
    hd = hist_call(np, d, case)
    out['np'] = dict(kind=_kind_of(d.dtype), dense=_arr_vals(d), sum=V(sum_call(np, d, case).item()),
                     hist=[int(c) for c in hd[0]], edges=[V(float(x)) for x in hd[1]])
    if any(a is None for a in arrays):
        out['res'] = dict(ok=False, err='leaf failed')
        return out
    def sum_hist(o, r, sfx):
        o['sum' + sfx] = V(sum_call(np, r, case).item())
        hr = hist_call(np, r, case)
        h = hr[0]
        o['hist' + sfx] = [int(c) for c in np.asarray(h).tolist()]
        if any(float(c) != int(c) for c in np.asarray(h).tolist()):
            o['hist' + sfx] = [-1]
        o['edges' + sfx] = [V(float(x)) for x in np.asarray(hr[1]).tolist()]
        handed.extend(a for a in hr if isinstance(a, np.ndarray))
    try:
        r = apply_expr(case['expr'], arrays)
        o = _observe_array(np, r, names, handed)
        sum_hist(o, r, '')
        s = str(r)
        o['str_lines'] = s.count('\n') + 1
    except Exception as e:
        o = dict(ok=False, err='%s: %s' % (type(e).__name__, str(e)[:100]))
    out['res'] = o
    # repeated observation of the SAME objects (every leaf once more, the result three more times, through routes and
    # in-place edits cycled over the cases), everything handed out so far edited in place before each one; then sum and
    # histogram of the result once more
    if o.get('ok'):
        nr, ne = len(REP_ROUTES), len(REP_EDITS)
        # every route is read at least twice on one object with edits in between (a cache behind track[name] or
        # track[intervals] only shows when that route is asked again); the result is read A, B, A with the pair (A, B) cycled
        lroute = [REP_ROUTES[(rep + i) % nr] for i in range(len(arrays))]
        out['leaf_reps'] = [_rep_round(np, bnp, g, x, names, sizes, lroute[i], REP_EDITS[(rep + i) % ne], handed)
                            for i, x in enumerate(arrays)]
        ra, rb = REP_ROUTES[rep % nr], REP_ROUTES[(rep + 1 + (rep // nr) % (nr - 1)) % nr]
        out['res_reps'] = [_rep_round(np, bnp, g, r, names, sizes, rt, REP_EDITS[(rep // nr + i) % ne], handed)
                           for i, rt in enumerate([ra, rb, ra])]
        out['leaf_reps2'] = [_rep_round(np, bnp, g, x, names, sizes, lroute[i], REP_EDITS[(rep + i + 1) % ne], handed)
                             for i, x in enumerate(arrays)]
        try:
            _edit_in_place(np, handed, REP_EDITS[(rep + 2) % ne])
            sum_hist(o, r, '2')
        except Exception as e:
            o['sum2'], o['hist2'], o['edges2'], o['err2'] = [0, 0], [-2], [], '%s: %s' % (type(e).__name__, str(e)[:100])
    return out


# ----------------------------------------------------------------------------- Coq emitter
def cv(v):
    return '(%d, %d)' % (v[0], v[1]) if v[0] >= 0 else '((%d), %d)' % (v[0], v[1])


def cvl(vs):
    return clist([cv(v) for v in vs], 'val')


def ck(k):
    return {'b': 'KB', 'i': 'KI', 'f': 'KF'}.get(k, 'KF')


def crec(r):
    return '(%s, %s, %s, %s)' % (cz(r[0]), cz(r[1]), cz(r[2]), cv(r[3]))


OPS = {'+': 'Add', '-': 'Sub', '*': 'Mul', '<': 'Lt', '>': 'Gt', '==': 'Eq', '&': 'And', '|': 'Or'}


def cexpr(e):
    t = e[0]
    if t == 'leaf':
        return '(Leaf %d)' % e[1]
    if t == 'not':
        return '(Not %s)' % cexpr(e[1])
    if t == 'aa':
        return '(BinAA %s %s %s)' % (OPS[e[1]], cexpr(e[2]), cexpr(e[3]))
    if t == 'as':
        return '(BinAS %s %s %s %s)' % (OPS[e[1]], cexpr(e[2]), ck(e[3]), cv(e[4]))
    return '(BinSA %s %s %s %s)' % (OPS[e[1]], ck(e[2]), cv(e[3]), cexpr(e[4]))


def cobs(o):
    if not o.get('ok'):
        return '{| o_ok := false; o_kind := KB; o_dense := []; o_data := [] |}'
    return '{| o_ok := true; o_kind := %s; o_dense := %s; o_data := %s |}' % (
        ck(o['kind']), clist([cvl(d) for d in o['dense']], 'list val'), clist([crec(r) for r in o['data']], 'grec'))


def to_coq(case, o):
    from harness.lib import zl
    leaves = clist(['{| lf_tag := %d; lf_kind := %s; lf_recs := %s; lf_value := %s; lf_default := %s |}' % (
        l['tag'], ck(l['kind']), clist([crec(r) for r in l['recs']], 'grec'), cv(l['value']), cv(l['default']))
        for l in case['leaves']], 'leaf')
    res = o['res']
    npd = o['np']
    return ('{| k_sizes := %s; k_leaves := %s; k_lobs := %s; k_expr := %s; k_res := %s; k_np_kind := %s; k_np := %s; '
            'k_sum := %s; k_np_sum := %s; k_edges := %s; k_obs_edges := %s; k_hist := %s; k_np_hist := %s; '
            'k_lreps := %s; k_lreps2 := %s; k_rreps := %s; k_sum2 := %s; k_obs_edges2 := %s; k_hist2 := %s |}' % (
                zl(case['sizes']), leaves, clist([cobs(x) for x in o['leaves']], 'obs'), cexpr(case['expr']), cobs(res),
                ck(npd['kind']), cvl(npd['dense']),
                cv(res['sum']) if res.get('ok') else '(0, 0)', cv(npd['sum']), cvl(npd['edges']),
                cvl(res['edges']) if res.get('ok') else '(@nil val)',
                zl(res['hist']) if res.get('ok') else '(@nil Z)', zl(npd['hist']),
                clist([cobs(x) for x in o.get('leaf_reps', [])], 'obs'), clist([cobs(x) for x in o.get('leaf_reps2', [])], 'obs'),
                clist([cobs(x) for x in o.get('res_reps', [])], 'obs'),
                cv(res['sum2']) if res.get('ok') else '(0, 0)',
                cvl(res['edges2']) if res.get('ok') else '(@nil val)',
                zl(res['hist2']) if res.get('ok') else '(@nil Z)'))


# ----------------------------------------------------------------------------- evidence helpers
def nontrivial(case, o):
    has_rec = any(l['recs'] for l in case['leaves'])
    return has_rec and (len(case['sizes']) > 1 or case['expr'][0] != 'leaf')


def describe(case, o):
    return dict(sizes=case['sizes'], leaves=[dict(tag=l['tag'], kind=l['kind'], recs=[[r[0], r[1], r[2], unV(r[3], 'f')] for r in l['recs']])
                                             for l in case['leaves']],
                expr=case['expr'], result_kind=o['res'].get('kind'), result=o['res'].get('dense'), error=o['res'].get('err'),
                repeats=[(x.get('route'), x.get('edit'), x.get('ok')) for x in o.get('leaf_reps', []) + o.get('res_reps', []) + o.get('leaf_reps2', [])])


def shape_class(case, l):
    """(starts at 0, ends at size, has gap, has touching) of a bedGraph leaf on the flat axis."""
    sizes = case['sizes']
    offs = [sum(sizes[:c]) for c in range(len(sizes))]
    g = [(offs[r[0]] + r[1], offs[r[0]] + r[2]) for r in l['recs']]
    if not g:
        return 'empty'
    gap = any(g[i][1] != g[i + 1][0] for i in range(len(g) - 1))
    touch = any(g[i][1] == g[i + 1][0] for i in range(len(g) - 1))
    return 'start0=%d,endsize=%d,gap=%d,touch=%d' % (g[0][0] == 0, g[-1][1] == sum(sizes), gap, touch)


def distribution(cases, obs):
    d = dict(chromosomes={}, leaf_tags={}, bedgraph_kinds={}, bedgraph_shapes={}, interval_features={}, repeat_routes={}, depth={}, operators={}, histogram_call={}, sum_call={}, errors=0)
    for c, o in zip(cases, obs):
        k = str(len(c['sizes']))
        d['chromosomes'][k] = d['chromosomes'].get(k, 0) + 1
        for l in c['leaves']:
            t = str(l['tag'])
            d['leaf_tags'][t] = d['leaf_tags'].get(t, 0) + 1
            for f in l.get('feats', []):
                d['interval_features'][f] = d['interval_features'].get(f, 0) + 1
            if l['tag'] == 0:
                d['bedgraph_kinds'][l['kind']] = d['bedgraph_kinds'].get(l['kind'], 0) + 1
                s = shape_class(c, l)
                d['bedgraph_shapes'][s] = d['bedgraph_shapes'].get(s, 0) + 1
        hs = (c.get('hist') or {}).get('style', 'kw_edges')
        d['histogram_call'][hs] = d['histogram_call'].get(hs, 0) + 1
        ss = c.get('sum_style', 'np')
        d['sum_call'][ss] = d['sum_call'].get(ss, 0) + 1
        dp = str(expr_depth(c['expr']))
        d['depth'][dp] = d['depth'].get(dp, 0) + 1
        for op in expr_ops(c['expr'], set()):
            d['operators'][op] = d['operators'].get(op, 0) + 1
        if isinstance(o, dict):
            for x in o.get('leaf_reps', []) + o.get('res_reps', []) + o.get('leaf_reps2', []):
                k2 = '%s after %s' % (x.get('route'), x.get('edit'))
                d['repeat_routes'][k2] = d['repeat_routes'].get(k2, 0) + 1
        if isinstance(o, dict) and not o.get('res', {}).get('ok', False):
            d['errors'] += 1
    return d


def _bool_bedgraph_promoted(case, o):
    """a Boolean bedGraph whose last record ends before the genome end comes back as int64."""
    for l, lo in zip(case['leaves'], o['leaves']):
        if l['tag'] == 0 and l['kind'] == 'b' and l['recs'] and lo.get('ok') and lo.get('kind') == 'i':
            sizes = case['sizes']
            last = l['recs'][-1]
            if sum(sizes[:last[0]]) + last[2] != sum(sizes):
                return True
    return False


def _array_values_raises(case, o):
    return any(l['tag'] == 4 and not lo.get('ok') and str(lo.get('err', '')).startswith('AttributeError')
               for l, lo in zip(case['leaves'], o['leaves']))


def _touching_raises(case, o):
    for l, lo in zip(case['leaves'], o['leaves']):
        if l['tag'] in (3, 4) and not lo.get('ok') and 'Empty run not allowed' in str(lo.get('err', '')):
            if any(l['recs'][i][2] == l['recs'][i + 1][1] for i in range(len(l['recs']) - 1)):
                return True
    return False


def finding(case, o):
    """No failure mode of C09 is listed as an open finding any more: the three defects met in phase 1 (Boolean bedGraph
    promoted to int64, from_intervals with array values, from_intervals with touching intervals) are repaired in /repo
    (known_findings.json lists them under `fixed:`) and the model follows the repaired code.  Every failing case is
    therefore a violation; nothing is swallowed."""
    return None


def search(tier, seed, disagreeing):
    """extra inputs when only the correspondence (or a proof) broke: a differently seeded sample."""
    return generate('quick', seed + 1)[:800]


def signature(case, o):
    """which part of the observation is wrong first (one root cause -> one VIOLATION line)."""
    import numpy as np
    for l, lo in zip(case['leaves'], o['leaves']):
        if not lo.get('ok'):
            return 'leaf-tag%d-error:%s' % (l['tag'], str(lo.get('err', '')).split(':')[0])
        d = _dense_leaf(np, case, l)
        if lo.get('kind') != _kind_of(d.dtype) and l['recs']:
            return 'leaf-tag%d-dtype' % l['tag']
        if [v for ch in lo['dense'] for v in ch] != _arr_vals(d):
            return 'leaf-tag%d-dense' % l['tag']
    r = o['res']
    if not r.get('ok'):
        return 'result-error:' + str(r.get('err', '')).split(':')[0]
    if r.get('kind') != o['np']['kind'] or [v for ch in r['dense'] for v in ch] != o['np']['dense']:
        return 'result-dense'
    if r.get('sum') != o['np']['sum']:
        return 'sum'
    if r.get('hist') != o['np']['hist'] or r.get('edges') != o['np']['edges']:
        return 'histogram:' + (case.get('hist') or {}).get('style', 'kw_edges')
    # repeated observations of the same objects after in-place edits of earlier results
    for what, reps, firsts in (('leaf', o.get('leaf_reps', []), o['leaves']), ('result', o.get('res_reps', []), [r] * 3),
                               ('leaf', o.get('leaf_reps2', []), o['leaves'])):
        for rp, first in zip(reps, firsts):
            if not rp.get('ok'):
                return 'repeat-%s-%s-error' % (what, rp.get('route'))
            if rp.get('kind') != first.get('kind') or rp['dense'] != first['dense']:
                return 'repeat-%s-%s-dense-after-inplace-edit' % (what, rp.get('route'))
            if rp['data'] != first['data']:
                return 'repeat-%s-%s-get_data-after-inplace-edit' % (what, rp.get('route'))
    if r.get('sum2') != r.get('sum') or r.get('hist2') != r.get('hist') or r.get('edges2') != r.get('edges'):
        return 'repeat-sum-histogram-after-inplace-edit'
    return 'get_data'

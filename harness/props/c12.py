"""C12 — per-chromosome streaming never silently drops or misattributes entries."""
import itertools
import os
import random
import shutil
import tempfile

from harness.lib import hx, zl, cz, cbool, clist

ID = 'C12'
RULE = ('a genome of 1..4 contigs (with and without names containing "_", keep-all and ignore-underscore filter, optionally '
        'one name added by with_ignored_added) x every ordered subset of (genome names + one unknown name + one ignored '
        'name) as the sequence of contig groups (1..3 entries each, ids unique) x chunkings of the entries (one chunk, '
        'one entry per chunk, random cuts; all 2^(m-1) cuts for selected sequences). Three routes per data set: '
        'Genome.get_intervals/get_track/read_intervals(stream) under bnp.compute (get_data, start/stop, pileup sum), '
        'MultiStream attribute / zip first, second and third slot / get_contingency_table+forbes+jaccard — each with the data as a chunk '
        'stream AND as one table held in memory —, left_join over groupby. '
        'Every data class also with the contig names held as integer codes of a StringEncoding (label order = genome order, '
        'reversed, non-genome names first) next to plain text; sessions with two genomes alive (g2 = g.with_ignored_added(0..2 '
        'names incl. a genome contig), consumers run on g — which must behave as if nothing had been derived — and on g2, data '
        'naming the added contigs). non-trivial = at least two groups, or a group order that must raise')
EXHAUSTIVE = {'quick': False, 'thorough': False}
TIE = ('translator+correspondence: translate/gen_c12.py regenerates the decision rules (ignored/included, walked order, '
       '_included_groups skip/raise/yield, iter_chromosomes sort-order and left-over tests and their position before the '
       'yield, SynchedStream guards (_check_name), skipping loop, loop shape (_with_following pairs; the following group through the same guards before `yield data`), left_join tests, group boundary = inequality of whole adjacent keys, '
       'fast path, join key, get_data argument order) into Gen/C12.v; Bridge/C12.v proves them equal to the named rules of '
       'Model/C12.v and that the model\'s state machines step by those rules; the generators, consumers and the chunked '
       'groupby are additionally evaluated inside Coq on every case (correspondence)')
ASSUMPTIONS = ['entries of one contig are contiguous in the data (the property\'s precondition; checked per case in Coq: gen_ok; '
               'C12_group_names_distinct / contiguous_entries_of relate it to pairwise distinct group names)',
               'a chunking is a cut into NON-EMPTY consecutive chunks: an empty chunk in a stream makes groupby raise ValueError '
               '(a loud error, nothing is dropped); no reader produces one — outside the quantifier, not generated',
               'the genome has at least one included contig: with none, get_intervals(stream) lets a bare StopIteration escape '
               'from StreamNode.__init__ (loud, nothing to synchronise) — outside the quantifier, not generated',
               'all contigs have the same size and every entry lies inside it, so the per-contig operation (pileup, '
               'from_bedgraph, boolean mask) cannot fail and identifies each delivered entry by its position / value',
               'a generator is modelled by its trace (yields, then StopIteration or an exception); the consumers are the pull '
               'machine `lockstep` (sources asked in list order per round, first exhausted source ends the iteration) whose '
               'source orders and shape facts are regenerated from computation_graph.py / decorators.py / the call sites '
               '(C12_source_tie); C12_machine_* prove the pull depths (pull_all / pull_n) from it']
PARTIAL = ['C12_genome_partial: with the pre-fix chromosome_order() exactness needs that no included contig name contains "_" '
           '(history; /repo HEAD has the fix: C12_head_genome_end_to_end is unguarded)',
           'C12_zip_second_partial / C12_zip_second_refuted / C12_pinned_multistream_end_to_end: the code BEFORE notes/C12.fix-4.diff '
           '(history): the second stream of zip(ms.a, ms.b, ms.lengths) was exact only for order-compatible data; /repo HEAD has '
           'the fix: C12_multistream_every_consumer_exact, C12_zip_second_exact, C12_zip_every_stream_exact, '
           'C12_head_multistream_end_to_end and C12_model_ok_implies_spec_ok_multistream are unguarded (at least one contig)']
PER_FILE = 40
L = 40                      # common contig size
UNKNOWN = 'chrU'
LONG = [(['scaffold1', 'scaffold2', 'scaffold3'], 'scaffoldU'),                                  # 8-byte prefix, last byte differs
        (['scaffoldX1', 'scaffoldX2', 'scaffoldX3'], 'scaffoldXU'),                              # 9-byte prefix
        (['chrUnKI270302', 'chrUnKI270304', 'chrUnKI270312'], 'chrUnKI270399'),                   # 11/12-byte prefixes
        (['contigAAAABBBBCC1', 'contigAAAABBBBCC2', 'contigAAAABBBBCC3'], 'contigAAAABBBBCCU'),   # 16-byte prefix
        (['scaffold', 'scaffold1', 'scaffold10'], 'scaffold100')]                                 # strict prefixes (8, 9, 10 bytes)
LONG_US = ['chrUn_KI270302', 'chrUn_KI270304']
EXTRA = 'chrI'


# ----------------------------------------------------------------------------- generation
def compositions(m):
    out = []
    for mask in range(1 << (m - 1)):
        sizes, cur = [], 1
        for i in range(m - 1):
            if mask >> i & 1:
                sizes.append(cur)
                cur = 1
            else:
                cur += 1
        sizes.append(cur)
        out.append(sizes)
    return out


def _chunking(rng, m, kind):
    if m == 0:
        return []
    if kind == 0:
        return [m]
    if kind == 1:
        return [1] * m
    sizes, cur = [], 1
    for _ in range(m - 1):
        if rng.random() < 0.5:
            sizes.append(cur)
            cur = 1
        else:
            cur += 1
    sizes.append(cur)
    return sizes


def _mk(route, genome, keepall, extra, names, counts, chunks):
    groups, i = [], 0
    for n, k in zip(names, counts):
        groups.append([n, list(range(i, i + k))])
        i += k
    return dict(route=route, genome=list(genome), keepall=bool(keepall), extra=list(extra), groups=groups, chunks=list(chunks))


def _genomes(n):
    """name lists of n contigs: plain, one underscore name at each position, and a prefix-name family"""
    base = ['chr1', 'chr2', 'chr3', 'chr4'][:n]
    out = [base]
    for j in range(n):
        g = list(base)
        g[j] = g[j] + '_alt'
        out.append(g)
    if n >= 2:
        out.append(['chr1', 'chr10', 'chr1_b', 'chr11'][:n])
    return out


def _sequences(pool, maxlen=None):
    maxlen = len(pool) if maxlen is None else maxlen
    for k in range(0, maxlen + 1):
        for p in itertools.permutations(pool, k):
            yield list(p)


def generate(tier, seed):
    rng = random.Random(seed * 7919 + 12)
    cases = []
    quick = tier == 'quick'

    def add(route, genome, keepall, extra, names, kinds):
        if not names:
            return
        if route == 0 and not _ctx(dict(route=0, genome=genome, keepall=keepall, extra=extra))[0]:
            return        # no included contig at all: nothing to synchronise (StreamNode lets StopIteration escape; see notes)
        counts = [rng.choice([1, 1, 2, 3]) for _ in names]
        m = sum(counts)
        for kind in kinds:
            cases.append(_mk(route, genome, keepall, extra, names, counts, _chunking(rng, m, kind)))

    def sweep(n, frac_rest, kinds_n, frac0=None):
        for gi, genome in enumerate(_genomes(n)):
            frac = frac_rest if (gi > 0 or frac0 is None) else frac0
            for keepall in (False, True):
                for extra in ([], [EXTRA]):
                    if extra and (gi > 1 or keepall):
                        continue
                    pool = genome + [UNKNOWN] + extra
                    for names in _sequences(pool):
                        if frac < 1 and rng.random() > frac:
                            continue
                        add(0, genome, keepall, extra, names, [rng.randrange(3) for _ in range(kinds_n)])
            if gi in (0, 1, len(_genomes(n)) - 1):
                pool = genome + [UNKNOWN]
                for names in _sequences(pool):
                    if frac < 1 and rng.random() > frac:
                        continue
                    add(1, genome, False, [], names, [rng.randrange(3) for _ in range(kinds_n)])
                    if gi == 0 or rng.random() < 0.3:
                        add(2, genome, False, [], names, [rng.randrange(3)])
    # small genomes first
    sweep(1, 1, 1)
    sweep(2, 1, 1)
    if quick:
        sweep(3, 0.25, 1)
        sweep(4, 0.02, 1)
    else:
        sweep(3, 1, 2)
        sweep(4, 0.15, 1, frac0=1)       # plain 4-contig genome: every ordered subset, both filters, all routes
    # order-compatible data: every subset of the genome in genome order (plus ignored names in between), all routes
    for n in (3, 4):
        for genome in _genomes(n)[:3]:
            for mask in range(1, 1 << n):
                names = [c for j, c in enumerate(genome) if mask >> j & 1]
                for keepall in (False, True):
                    add(0, genome, keepall, [], names, [rng.randrange(3)])
                add(0, genome, False, [EXTRA], names[:1] + [EXTRA] + names[1:], [rng.randrange(3)])
                add(1, genome, False, [], names, [rng.randrange(3)])
                add(2, genome, False, [], names, [rng.randrange(3)])
    # long contig names sharing 8-, 9-, 12- and 16-byte prefixes, one name a strict prefix of another, names differing
    # only in the last byte; the unknown name shares the prefix too.  Group boundaries are decided by comparing whole
    # names: a comparison of a fixed-width prefix (first machine word) would merge adjacent contigs inside one chunk.
    # Chunk kind 0 (everything in one chunk) is always present so both contigs of every pair share a chunk.
    for genome, unknown in LONG:
        pool = genome + [unknown]
        for names in _sequences(pool):
            if not names or (quick and (len(names) > 3 or (len(names) == 3 and rng.random() > 0.15))):
                continue
            counts = [rng.choice([1, 2]) for _ in names]
            m = sum(counts)
            if quick:
                chs = [[m], _chunking(rng, m, 2)]
            elif m <= 4:
                chs = compositions(m)
            else:
                chs = [[m], [1] * m, _chunking(rng, m, 2)]
            seen_ch = []
            for ch in chs:
                if ch in seen_ch:
                    continue
                seen_ch.append(ch)
                cases.append(_mk(0, genome, False, [], names, counts, ch))
                if not quick or ch == [m]:
                    cases.append(_mk(1, genome, False, [], names, counts, ch))
                if ch == [m] and (not quick or len(names) <= 2):
                    cases.append(_mk(2, genome, False, [], names, counts, ch))
    for names in _sequences(LONG_US + ['chrUn_KI270399']):
        if names:
            counts = [rng.choice([1, 2]) for _ in names]
            for ch in ([sum(counts)], _chunking(rng, sum(counts), 2)):
                cases.append(_mk(0, LONG_US, True, [], names, counts, ch))     # keep-all: '_' names are contigs
                cases.append(_mk(0, LONG_US + ['chr1'], False, [], names, counts, ch))   # default: all of them ignored
    # ---- contig names held as integer codes of a StringEncoding (Genome.get_intervals(table).data, encoding.encode(names))
    # next to plain text: label order = genome order (others after), reversed, others first.  The group borders inside
    # a chunk must come from comparing neighbouring rows whatever the codes are, so: everything in one chunk, unequal
    # group sizes, data orders that disagree with the label order (mis-ordered, unknown / ignored names anywhere).
    def label_orders(genome, names, extra):
        others = [x for x in dict.fromkeys(list(names) + list(extra)) if x not in genome]
        a = list(genome) + others
        return [a, a[::-1], others + list(genome)]

    def with_enc(c, labels):
        c = dict(c)
        c['enc'] = list(labels)
        return c

    for n in (2, 3):
        for gi, genome in enumerate(_genomes(n)[:2] + [LONG[0][0][:n]]):
            for extra in ([], [EXTRA]):
                pool = genome + [UNKNOWN] + extra
                for names in _sequences(pool, 3):
                    if len(names) < 2 or rng.random() > ((0.5 if n == 2 else 0.12) if quick else (1.0 if n == 2 else 0.3)):
                        continue
                    sizes_ = [[1, 2, 3], [3, 1, 2], [2, 1, 1]][rng.randrange(3)][:len(names)]
                    m = sum(sizes_)
                    los = label_orders(genome, names, extra)
                    for k, ch in enumerate([[m]] + ([] if quick else [_chunking(rng, m, 2)])):
                        lo = los[(len(cases) + k) % 3] if quick else None
                        for labels in ([lo] if quick else los):
                            cases.append(with_enc(_mk(0, genome, False, extra, names, sizes_, ch), labels))
                            if not extra:
                                cases.append(with_enc(_mk(1, genome, False, [], names, sizes_, ch), labels))
                                if k == 0 and (not quick or rng.random() < 0.3):
                                    cases.append(with_enc(_mk(2, genome, False, [], names, sizes_, ch), labels))
    # the generic sweeps again, sampled, with a rotating label order
    base = [c for c in cases if not c.get('enc') and len(c['groups']) >= 2]
    step = 9 if quick else 12
    for j, c in enumerate(base[::step]):
        los = label_orders(c['genome'], [g[0] for g in c['groups']], c['extra'])
        cases.append(with_enc(c, los[j % 3]))

    # ---- two genomes alive: g2 = g.with_ignored_added(derive) is derived from g, then the consumers run on g (must behave
    # exactly as if nothing had been derived) and on g2 (ignores the added names), with data naming the added contigs
    OTHER = 'chrJ'
    for n in (1, 2, 3):
        for genome in _genomes(n)[:2]:
            for keepall in (False, True):
                for derive in ([], [EXTRA], [EXTRA, OTHER], [genome[-1]], [EXTRA, genome[0]]):
                    pool = list(dict.fromkeys(genome + [UNKNOWN] + derive))
                    for names in _sequences(pool, 3):
                        if not names:
                            continue
                        hits = any(x in derive for x in names)
                        p = (0.22 if hits else 0.04) if quick else (1.0 if hits else 0.4)
                        if rng.random() > p * (1.0 if n < 3 else 0.35):
                            continue
                        counts = [rng.choice([1, 2]) for _ in names]
                        ch = _chunking(rng, sum(counts), rng.randrange(3))
                        for use in ('base', 'derived'):
                            if not _ctx(dict(route=0, genome=genome, keepall=keepall, extra=[], session=dict(derive=derive, use=use)))[0]:
                                continue
                            c = _mk(0, genome, keepall, [], names, counts, ch)
                            c['session'] = dict(derive=list(derive), use=use, warm=bool(rng.randrange(2)))
                            if rng.random() < 0.25:
                                c['enc'] = label_orders(genome, names, derive)[rng.randrange(3)]
                            cases.append(c)
    # every chunking of selected data sets (good order, swapped, unknown in the middle / at the end, ignored)
    g3 = ['chr1', 'chr2', 'chr3']
    sel = [(g3, ['chr1', 'chr2', 'chr3'], [2, 2, 1]), (g3, ['chr1', 'chr3'], [3, 2]), (g3, ['chr2', 'chr1'], [2, 2]),
           (g3, ['chr1', UNKNOWN, 'chr3'], [2, 1, 2]), (g3, ['chr2', 'chr3', UNKNOWN], [1, 2, 1]),
           (['chr1', 'chr2_alt', 'chr3'], ['chr1', 'chr2_alt', 'chr3'], [1, 2, 2]),
           (['chr1', 'chr10', 'chr11'], ['chr1', 'chr10', 'chr11'], [2, 2, 2])]
    for genome, names, counts in sel:
        comps = compositions(sum(counts))
        if quick:
            comps = comps[::3]
        for ch in comps:
            for route in (0, 1, 2):
                for keepall in ((False, True) if route == 0 else (False,)):
                    cases.append(_mk(route, genome, keepall, [], names, counts, ch))
    return cases


# ----------------------------------------------------------------------------- implementation
def _entries(case):
    return [(n, i) for n, ids in case['groups'] for i in ids]


def _cut(ents, chunks):
    out, p = [], 0
    for k in chunks:
        out.append(ents[p:p + k])
        p += k
    assert p == len(ents)
    return out


def _code(e):
    """exception -> small enum (see Model/C12.v error codes)"""
    seen = 0
    while type(e).__name__ == 'ComputationException' and e.__cause__ is not None and seen < 5:
        e = e.__cause__
        seen += 1
    t, msg = type(e).__name__, str(e)
    if t == 'GenomeError':
        if 'not included in genome' in msg:
            return 1
        if 'Sort order discrepancy' in msg:
            return 2
        if msg == '' or 'was not used' in msg:
            return 3
        return 30
    if t == 'StreamError':
        if 'already occured' in msg:
            return 4
        if 'Stream had value not present in contig order' in msg:
            return 5
        return 50
    if t == 'AssertionError':
        return 6
    if t == 'IndexError':
        return 7
    if t == 'StopIteration':
        return 8
    return 99


def _try(f):
    try:
        return dict(done=f())
    except BaseException as e:            # StopIteration / AssertionError are observations here
        if isinstance(e, (KeyboardInterrupt, SystemExit, MemoryError)):
            raise
        c = _code(e)
        d = dict(err=c)
        if c in (30, 50, 99):
            d['text'] = '%s: %s' % (type(e).__name__, str(e)[:200])
        return d


def observe(case):
    import numpy as np
    import bionumpy as bnp
    from bionumpy.datatypes import Interval, BedGraph
    from bionumpy.streams import NpDataclassStream, MultiStream, groupby
    ents = _entries(case)
    chunks = _cut(ents, case['chunks'])
    sizes = {n: L for n in case['genome']}

    labels = case.get('enc')          # None: plain-text names; else the label order of a StringEncoding

    def coded(tab):
        """the same table with its chromosome column held as integer codes of StringEncoding(labels)"""
        if not labels:
            return tab
        from bionumpy.encodings.string_encodings import StringEncoding
        return bnp.replace(tab, chromosome=StringEncoding(list(labels)).encode(tab.chromosome))

    def iv_stream():
        return NpDataclassStream(iter([coded(Interval.from_entry_tuples([(n, i, i + 1) for n, i in ch])) for ch in chunks]), Interval)

    out = {}
    if case['route'] == 0:
        from bionumpy.genomic_data.genome_context import ignore_underscores

        def genome():
            g = bnp.Genome.from_dict(sizes, filter_function=(lambda x: True) if case['keepall'] else ignore_underscores)
            if case['extra']:
                g = g.with_ignored_added(case['extra'])
            sess = case.get('session')
            if sess is not None:
                # two genomes alive: g2 is derived from g; deriving must change nothing in g
                g2 = g.with_ignored_added(list(sess['derive']))
                if sess.get('warm'):      # use the derived genome once before the base one is used
                    try:
                        bnp.compute(g2.get_intervals(iv_stream()).get_pileup().sum())
                    except Exception:
                        pass
                return g2 if sess['use'] == 'derived' else g
            return g

        def rows_pileup():
            r = bnp.compute(genome().get_intervals(iv_stream()).get_pileup().get_data())
            rows = []
            for c, a, b, v in zip(r.chromosome.tolist(), r.start.tolist(), r.stop.tolist(), r.value.tolist()):
                for pos in range(int(a), int(b)):
                    rows += [[c, pos]] * int(v)
            return rows

        def rows_track():
            # every group tiles its contig: entry j covers [j, j+1), the last one reaches the contig end; value = id + 1
            bch = []
            first = {}
            for n, ids in case['groups']:
                for j, i in enumerate(ids):
                    first[i] = (j, j + 1 if j + 1 < len(ids) else L)
            for ch in chunks:
                bch.append(coded(BedGraph.from_entry_tuples([(n, first[i][0], first[i][1], i + 1) for n, i in ch])))
            t = genome().get_track(NpDataclassStream(iter(bch), BedGraph))
            r = bnp.compute(t.get_data())
            return [[c, int(v) - 1] for c, v in zip(r.chromosome.tolist(), r.value.tolist()) if int(v) > 0]

        def flat():
            gi = genome().get_intervals(iv_stream())
            a, b = bnp.compute((gi.start, gi.stop))
            a, b = a.tolist(), b.tolist()
            assert [x + 1 for x in a] == b
            return [int(x) for x in a]

        def total():
            return int(bnp.compute(genome().get_intervals(iv_stream()).get_pileup().sum()))

        def total_file():
            d = tempfile.mkdtemp(prefix='c12_')
            try:
                p = os.path.join(d, 'a.bed')
                with open(p, 'w') as f:
                    for n, i in ents:
                        f.write('%s\t%d\t%d\n' % (n, i, i + 1))
                return int(bnp.compute(genome().read_intervals(p, stream=True).get_pileup().sum()))
            finally:
                shutil.rmtree(d, ignore_errors=True)
        out['rows'] = [_try(rows_pileup), _try(rows_track)]
        out['flat'] = [_try(flat)]
        out['sum'] = [_try(total), _try(total_file)]
    elif case['route'] == 1:
        from bionumpy.arithmetics.similarity_measures import get_contingency_table, forbes, jaccard
        n = len(case['genome'])

        def ref():      # reference first stream: one entry per contig, in contig order, at positions the data never uses
            return Interval.from_entry_tuples([(c, L - 1 - j, L - j) for j, c in enumerate(case['genome'])])

        def mslist():
            ms = MultiStream(sizes, a=iv_stream())
            return [[int(v) for v in x.start.tolist()] for x in ms.a]

        def mszip():
            ms = MultiStream(sizes, a=ref(), b=iv_stream())
            res = []
            for j, (x, y, l) in enumerate(zip(ms.a, ms.b, ms.lengths)):
                assert x.start.tolist() == [L - 1 - j] and l == L
                res.append([int(v) for v in y.start.tolist()])
            return res

        def ct():
            ms = MultiStream(sizes, a=ref(), b=iv_stream())
            t = get_contingency_table(ms.a, ms.b, ms.lengths)
            assert int(t[0][0]) == 0
            return [int(t[0][1]), int(t[1][0])]
        def table():       # the same data handed over as ONE TABLE held in memory
            return coded(Interval.from_entry_tuples([(n_, i, i + 1) for n_, i in ents]))

        def mslist_tab():
            ms = MultiStream(sizes, a=table())
            return [[int(v) for v in x.start.tolist()] for x in ms.a]

        def zipfirst_tab():       # the table as FIRST stream of the zip: it is run to its end
            ms = MultiStream(sizes, a=table(), b=ref())
            res = []
            for j, (x, y, l) in enumerate(zip(ms.a, ms.b, ms.lengths)):
                assert y.start.tolist() == [L - 1 - j] and l == L
                res.append([int(v) for v in x.start.tolist()])
            return res

        def mszip_tab():
            ms = MultiStream(sizes, a=ref(), b=table())
            res = []
            for j, (x, y, l) in enumerate(zip(ms.a, ms.b, ms.lengths)):
                assert x.start.tolist() == [L - 1 - j] and l == L
                res.append([int(v) for v in y.start.tolist()])
            return res

        def ct_tab():
            ms = MultiStream(sizes, a=ref(), b=table())
            t = get_contingency_table(ms.a, ms.b, ms.lengths)
            assert int(t[0][0]) == 0
            return [int(t[0][1]), int(t[1][0])]

        def agree(c, call, what):
            # forbes / jaccard are the public callers of exactly this zip: they must raise iff (and as) `c` does
            for f in (forbes, jaccard):
                with np.errstate(all='ignore'):
                    r = _try(lambda: float(call(f)))
                if ('err' in r) != ('err' in c) or ('err' in r and r['err'] != c['err']):
                    return dict(err=98, text='%s %s disagrees: %r vs %r' % (f.__name__, what, r, c))
            return c
        def zipfirst():           # the stream as FIRST stream of the zip
            ms = MultiStream(sizes, a=iv_stream(), b=ref())
            res = []
            for j, (x, y, l) in enumerate(zip(ms.a, ms.b, ms.lengths)):
                assert y.start.tolist() == [L - 1 - j] and l == L
                res.append([int(v) for v in x.start.tolist()])
            return res
        out['mslist'] = [_try(mslist), agree(_try(zipfirst), lambda f: f(sizes, iv_stream(), ref()), 'with the stream as first argument')]
        def mszip_third():        # the stream in THIRD position of a four-way zip over MultiStream attributes
            ms = MultiStream(sizes, a=ref(), b=ref(), c=iv_stream())
            res = []
            for j, (x, y, z, l) in enumerate(zip(ms.a, ms.b, ms.c, ms.lengths)):
                assert x.start.tolist() == [L - 1 - j] and y.start.tolist() == [L - 1 - j] and l == L
                res.append([int(v) for v in z.start.tolist()])
            return res
        out['mszip'] = [_try(mszip), _try(mszip_third)]
        zf = _try(zipfirst_tab)
        out['mslist_tab'] = [_try(mslist_tab), agree(zf, lambda f: f(sizes, table(), ref()), 'with the table as first argument')]
        out['mszip_tab'] = [_try(mszip_tab)]
        out['ct_tab'] = [agree(_try(ct_tab), lambda f: f(sizes, ref(), table()), 'with the table as second argument')]
        c = _try(ct)
        # forbes / jaccard are the public callers of exactly this zip: they must raise iff the table does
        for f in (forbes, jaccard):
            with np.errstate(all='ignore'):
                r = _try(lambda: float(f(sizes, ref(), iv_stream())))
            if ('err' in r) != ('err' in c) or ('err' in r and r['err'] != c['err']):
                c = dict(err=98, text='%s disagrees with get_contingency_table: %r vs %r' % (f.__name__, r, c))
        out['ct'] = [c]
    else:
        from bionumpy.streams.left_join import left_join

        def lj():
            left = [(c, j) for j, c in enumerate(case['genome'])]
            res = []
            for name, j, data in left_join(iter(left), groupby(iv_stream(), 'chromosome')):
                res.append([name, int(j), None if data is None else [int(v) for v in data.start.tolist()]])
            return res
        out['lj'] = [_try(lj)]
    return out


# ----------------------------------------------------------------------------- Coq terms
def _nm(s):
    return hx(s.encode())


def _res(o, f):
    if 'err' in o:
        return '(Err %s)' % cz(o['err'])
    return '(Done %s)' % f(o['done'])


def _uniq(l):
    out = []
    for x in l:
        if x not in out:
            out.append(x)
    return out


def to_coq(case, o):
    ents = _entries(case)
    chunks = _cut(ents, case['chunks'])
    row = lambda r: '(%s, %s)' % (_nm(r[0]), cz(r[1]))
    rows = lambda rs: clist([row(r) for r in rs], 'bname * Z')
    zll = lambda ls: clist([zl(x) for x in ls], 'list Z')
    ljrow = lambda r: '(%s, %s, %s)' % (_nm(r[0]), cz(r[1]), '(@None ids)' if r[2] is None else '(Some %s)' % zl(r[2]))
    f = lambda key, conv, ty: clist([_res(x, conv) for x in _uniq(o.get(key, []))], 'res (%s)' % ty)
    return ('{| k_route := %s; k_genome := %s; k_keepall := %s; k_extra := %s; k_groups := %s; k_chunks := %s; '
            'k_rows := %s; k_flat := %s; k_sum := %s; k_mslist := %s; k_mszip := %s; k_ct := %s; k_mslist_tab := %s; k_mszip_tab := %s; k_ct_tab := %s; k_lj := %s |}' % (
                cz(case['route']), clist([_nm(n) for n in case['genome']], 'bname'), cbool(case['keepall']),
                clist([_nm(n) for n in _extra(case)], 'bname'),
                clist(['(%s, %s)' % (_nm(n), zl(ids)) for n, ids in case['groups']], 'bname * ids'),
                clist([rows(ch) for ch in chunks], 'list (bname * Z)'),
                f('rows', rows, 'list (bname * Z)'), f('flat', zl, 'list Z'), f('sum', cz, 'Z'),
                f('mslist', zll, 'list ids'), f('mszip', zll, 'list ids'),
                f('ct', lambda p: '(%s, %s)' % (cz(p[0]), cz(p[1])), 'Z * Z'),
                f('mslist_tab', zll, 'list ids'), f('mszip_tab', zll, 'list ids'),
                f('ct_tab', lambda p: '(%s, %s)' % (cz(p[0]), cz(p[1])), 'Z * Z'),
                f('lj', lambda rs: clist([ljrow(r) for r in rs], 'bname * Z * option ids'), 'list (bname * Z * option ids)')))


# ----------------------------------------------------------------------------- python-side expectation (for findings / evidence only)
def _extra(case):
    """names ignored through with_ignored_added in the genome the consumers run on: deriving g2 from g adds names to g2 only"""
    sess = case.get('session')
    return list(case['extra']) + (list(sess['derive']) if sess and sess['use'] == 'derived' else [])


def _ctx(case):
    if case['route'] != 0:
        return list(case['genome']), []
    ign = ([] if case['keepall'] else [n for n in case['genome'] if '_' in n]) + _extra(case)
    return [n for n in case['genome'] if n not in ign], ign


def _expected(case):
    """per-contig assignment (list of id lists in contig order) or None when an error is due"""
    G, I = _ctx(case)
    D = [(n, ids) for n, ids in case['groups'] if n not in I]
    it = iter(G)
    if not all(any(n == c for c in it) for n, _ in D):
        return None
    d = dict(D)
    return [d.get(c, []) for c in G]


def _failing(case, o):
    """names of the observations that do not meet the property, with the kind of failure"""
    exp = _expected(case)
    G, _ = _ctx(case)
    bad = []

    def chk(key, conv):
        for x in o.get(key, []):
            if exp is None:
                if 'err' not in x:
                    bad.append((key, 'silent'))
            elif 'err' in x:
                bad.append((key, 'spurious-error-%d' % x['err']))
            elif x['done'] != conv(exp):
                bad.append((key, 'wrong'))
    chk('rows', lambda a: [[c, i] for c, ids in zip(G, a) for i in ids])
    chk('flat', lambda a: [i for ids in a for i in ids])
    chk('sum', lambda a: sum(len(ids) for ids in a))
    chk('mslist', lambda a: a)
    chk('mszip', lambda a: a)
    chk('ct', lambda a: [len(G), sum(len(ids) for ids in a)])
    chk('mslist_tab', lambda a: a)
    chk('mszip_tab', lambda a: a)
    chk('ct_tab', lambda a: [len(G), sum(len(ids) for ids in a)])
    chk('lj', lambda a: [[c, j, (ids if c in dict(case['groups']) else None)] for j, (c, ids) in enumerate(zip(G, a))])
    return sorted(set(bad))


def finding(case, o):
    """No finding of C12 is open: the former C12-multistream-second-stream-unchecked (second stream of a zip truncated
    silently) is repaired by notes/C12.fix-4.diff and its input class is generated as ordinary cases, so every failing
    case is a VIOLATION."""
    return None


def signature(case, o):
    return 'route%d:%s' % (case['route'], ','.join('%s-%s' % b for b in _failing(case, o)) or 'coq-only')


def explain(case, o):
    return dict(expected_assignment=_expected(case), failing=_failing(case, o),
                call={0: 'Genome.from_dict(sizes, filter_function).get_intervals/get_track(stream) under bnp.compute',
                      1: 'MultiStream(sizes, a=reference, b=stream); zip(ms.a, ms.b, ms.lengths); forbes/jaccard',
                      2: 'left_join(sizes.items(), groupby(stream))'}[case['route']])


def nontrivial(case, o):
    return len(case['groups']) >= 2 or _expected(case) is None


def describe(case, o):
    return dict(route=case['route'], genome=case['genome'], keepall=case['keepall'], extra=case['extra'], enc=case.get('enc'), session=case.get('session'),
                groups=case['groups'], chunks=case['chunks'], observed=o, expected=_expected(case))


def distribution(cases, obs):
    d = dict(route={}, genome_size={}, groups={}, chunks={'one': 0, 'per_entry': 0, 'other': 0}, must_raise=0,
             keepall=0, underscore_included=0, with_unknown=0, with_ignored=0, outcome={})
    for c, o in zip(cases, obs):
        d['route'][str(c['route'])] = d['route'].get(str(c['route']), 0) + 1
        k = str(len(c['genome']))
        d['genome_size'][k] = d['genome_size'].get(k, 0) + 1
        k = str(len(c['groups']))
        d['groups'][k] = d['groups'].get(k, 0) + 1
        m = sum(c['chunks'])
        d['chunks']['one' if len(c['chunks']) == 1 else 'per_entry' if len(c['chunks']) == m else 'other'] += 1
        d['must_raise'] += _expected(c) is None
        d['keepall'] += c['keepall']
        G, I = _ctx(c)
        d['underscore_included'] += any('_' in n for n in G)
        d['with_unknown'] += any(n not in c['genome'] and n not in _extra(c) for n, _ in c['groups'])
        d['encoded_names'] = d.get('encoded_names', 0) + bool(c.get('enc'))
        d['two_genomes'] = d.get('two_genomes', 0) + (c.get('session') is not None)
        d['long_names'] = d.get('long_names', 0) + any(len(n) > 8 for n in c['genome'])
        d['with_ignored'] += any(n in I for n, _ in c['groups'])
        if isinstance(o, dict):
            for key, l in o.items():
                for x in l if isinstance(l, list) else []:
                    kk = '%s:%s' % (key, 'err%d' % x['err'] if 'err' in x else 'done')
                    d['outcome'][kk] = d['outcome'].get(kk, 0) + 1
    return d

"""C18 — numbers survive conversion between text and arrays."""
import itertools
import os
import random
import re
import shutil
import struct
import tempfile

from harness.lib import hx, zl, cz, clist

ID = 'C18'
RULE = ('batches of int64 values / integer texts / integer lists / float texts / doubles converted through '
        'bionumpy.io.strops (direct) and through integer, list and float columns of written and parsed files; '
        'values 0, +-(10^k + d) for k <= 18, d in -2..2, the int64 extremes, the double-rounding and log10 '
        'carry thresholds; batches mixing widths 1..19 and signs; for batches of <= 4 rows every ordered '
        'sub-batch is converted separately (row independence); float texts with 1..17 significant digits, '
        'optional sign, fraction, exponent -300..300; buffers with integer fields at any offset (a short field at offset 0 '
        'before a 19-digit field) through move_intervals_to_digit_array and as the first column of a file; every output of '
        'a row must be identical across all sub-batches it was converted in; the direct parsing runs of a case all use ONE '
        'array object (for canonical integer texts the output object of ints_to_strings): it is parsed whole more than once, '
        'sub-batches/permutations are taken from it, and its text is read back after all runs (inputs unchanged); batches '
        'mixing valid texts with malformed ones (no digits, sign only, two points, exponent without digits, letters): must '
        'raise the parse error at the first malformed row, sub-batches without one convert as usual; every memory layout '
        '(contiguous, strided, negative stride, matrix column / row, C and Fortran order, transposed and stacked-transposed '
        'views) x dtype (int8..int64, uint8..uint64, float32/64) into ints_to_strings, float_to_strings, '
        'int_lists_to_strings, written file columns and matrix_to_csv (field (i,j) = element (i,j), read back by '
        'parse_matrix); the text of a row must not depend on the layout. non-trivial = a row of width >= 2, a signed row, a batch '
        'with rows of different width, or a float text with a fraction or an exponent')
EXHAUSTIVE = {'quick': False, 'thorough': False}
TIE = ('translator+correspondence: translate/gen_c18.py regenerates 22 arithmetic kernels of strops.py / file_buffers.py into Gen/C18.v, '
       'Bridge/C18.v proves them equal to the named kernels the model is written in (C18_source_tie); '
       'correspondence (power-index array, str_to_int ragged and digit-matrix variants, ints_to_strings, '
       'int_lists_to_strings, list-column parser, exact-rational float parser evaluated in Coq on the same batches)')
ASSUMPTIONS = ['int64 arithmetic of NumPy is arithmetic modulo 2^64 (wrap64 in the model)',
               'FLOATS, modelled evaluation (E1-E3 in Model/C18.v), checked BIT FOR BIT per case, not provable from the Python '
               'source: (E1) + * / on float64 are IEEE round-to-nearest-even; (E2) the row sum is np.add.reduceat = first '
               'element + NumPy pairwise_sum of the rest (8 accumulators, rows <= 129 characters); (E3) 10.**k on an integer '
               'array is a fixed platform function P (NOT correctly rounded with this NumPy/AVX512 build: 10.**-5 = '
               '9.999999999999999e-06); P is observed in the same process and handed to the model, which checks every entry to '
               'be within 1 ulp of 10^k and exact for 0 <= k <= 22',
               'FLOAT ACCURACY IS A TEST, NOT A PROOF: each parsed double is compared in Coq with the exact rational the text '
               'denotes: <= 1/2 ulp for plain decimals whose digits form an integer < 2^53 with <= 22 fraction digits (the class '
               'of C18_float_short_decimal_partial), <= 4 ulp otherwise; format-then-parse identity is compared bit for bit '
               '(known finding C18-float-roundtrip-ulps)',
               'float_to_strings is Python repr (shortest round-trip text); it is not modelled, its output is checked per case '
               'to denote the double to within half an ulp',
               'the pinned variant of the integer formatter (kept for the refutation theorems only) assumes a correctly rounded '
               'log10 (table log10_carry)']
PARTIAL = ['malformed texts: the outcome (values / EncodingError at a row / other exception) is modelled for the code as it '
           'is and for notes/C18.fix-3.diff and compared per run; proved: valid integer batches never raise, and for the repaired '
           'variant the error is reported at the first malformed row (C18_parse_errors_fixed); the float side of the error '
           'model is tested only; empty texts are not generated (an offset cannot identify an empty row)',
           'floats: proved are the exact decomposition (C18_float_rational_partial, C18_float_decomposition_exact), that the '
           'double of a row depends on that row and P only (C18_float_double_rowwise), exactness of the integer mantissa step '
           'for digit strings < 2^53 (C18_float_mantissa_exact_partial) and the single-division form of short decimals '
           '(C18_float_short_decimal_partial); NOT proved: an ulp bound for the double evaluation in general, that the modelled '
           'division/rounding is the nearest double, float format->parse identity (false: known finding)',
           'C18_format_pinned_partial / C18_lists_split_partial / C18_float_rational_pinned_partial are about the code before '
           'the repairs 70440c1, 8a5819c, 37d8ec4 and are kept with their _refuted witnesses as history',
           'link theorems model_ok -> spec_ok exist for format ints, parse ints, format lists, parse lists, parse floats '
           '(tolerance part) and the digit matrix; for format floats there is none (float_to_strings is not modelled) and the '
           'cross-run consistency clause of spec_ok is a direct observation']
PER_FILE = 16
I64MAX = 2 ** 63 - 1
I64MIN = -2 ** 63
FMT_INT, PARSE_INT, FMT_LIST, PARSE_LIST, PARSE_FLOAT, FMT_FLOAT, DIGIT_MATRIX, MAL_INT, MAL_FLOAT = range(9)
# smallest value of k digits that the pinned width computation already gives k+1 digits
CARRY = {15: 10 ** 15 - 2, 16: 10 ** 16 - 21, 17: 10 ** 17 - 407, 18: 10 ** 18 - 4031}


# ----------------------------------------------------------------------------- doubles
def d2b(x):
    return struct.unpack('<Q', struct.pack('<d', x))[0]


def b2d(b):
    return struct.unpack('<d', struct.pack('<Q', b))[0]


def _ord(b):
    return b if b < 2 ** 63 else -(b - 2 ** 63)


# ----------------------------------------------------------------------------- generator
INT_DTYPES = ['int64', 'int32', 'int16', 'int8', 'uint8', 'uint16', 'uint32', 'uint64']
FLOAT_DTYPES = ['float64', 'float32']
N_LAY1, N_LAY2 = 6, 8


def _dtype_range(dt):
    bits = int(dt.lstrip('uint'))
    return (0, 2 ** bits - 1) if dt.startswith('u') else (-2 ** (bits - 1), 2 ** (bits - 1) - 1)


def _lay1(values, dtype, layout):
    """a 1-D array holding `values` with the given memory layout (0 contiguous, 1 every 2nd element of a larger
    array, 2 negative stride, 3 column of a C-ordered matrix, 4 every 3rd element from offset 2, 5 row of an F-ordered matrix)"""
    import numpy as np
    n = len(values)
    v = np.array(values, dtype=dtype)
    if layout == 0:
        return v
    if layout == 1:
        big = np.zeros(2 * n + 1, dtype=dtype); big[1::2] = v
        return big[1::2]
    if layout == 2:
        return np.ascontiguousarray(v[::-1])[::-1]
    if layout == 3:
        m = np.zeros((n, 3), dtype=dtype); m[:, 1] = v
        return m[:, 1]
    if layout == 4:
        big = np.zeros(3 * n + 2, dtype=dtype); big[2::3] = v
        return big[2::3]
    m = np.asfortranarray(np.zeros((2, n), dtype=dtype)); m[1, :] = v
    return m[1, :]


def _lay2(rows, dtype, layout):
    """a 2-D array equal to `rows` with the given memory layout (0 C, 1 Fortran, 2 transposed view, 3 every 2nd column
    of a wider array, 4 every 2nd row of a taller array, 5 negative row stride, 6 negative column stride,
    7 columns stacked then transposed)"""
    import numpy as np
    m = np.array(rows, dtype=dtype)
    r, c = m.shape
    if layout == 0:
        return m
    if layout == 1:
        return np.asfortranarray(m)
    if layout == 2:
        return np.ascontiguousarray(m.T).T
    if layout == 3:
        big = np.zeros((r, 2 * c), dtype=dtype); big[:, ::2] = m
        return big[:, ::2]
    if layout == 4:
        big = np.zeros((2 * r, c), dtype=dtype); big[::2] = m
        return big[::2]
    if layout == 5:
        return np.ascontiguousarray(m[::-1])[::-1]
    if layout == 6:
        return np.ascontiguousarray(m[:, ::-1])[:, ::-1]
    return np.stack([np.ascontiguousarray(m[:, j]) for j in range(c)], axis=0).T


def _layout_cases(rng, quick):
    """every memory layout x dtype for the formatters and the matrix writer/reader: text field (i, j) must be element (i, j)"""
    cases = []
    for di, dt in enumerate(INT_DTYPES):
        lo, hi = _dtype_range(dt)
        pool = sorted(set([lo, hi, 0, 1, hi - 1, lo + 1] + [s * (10 ** k + d) for k in range(0, 20) for d in (-1, 0, 1) for s in (1, -1)
                                                            if lo <= s * (10 ** k + d) <= hi]))
        for rep_ in range(1 if quick else 3):
            n = rng.randint(3, 7)
            vals = [rng.choice(pool) if rng.random() < 0.7 else rng.randint(lo, hi) for _ in range(n)]
            runs = [[100 + 10 * lay + di, list(range(n))] for lay in range(N_LAY1)]
            runs += [[300 + 10 * lay + di, list(range(n))] for lay in (0, 1, 3)]           # the same views as a written file column
            runs += [[100 + 10 * rng.randrange(N_LAY1) + di, rng.sample(range(n), rng.randint(1, n))] for _ in range(2)]
            cases.append(_mk(FMT_INT, vals, runs))
            r, c = rng.randint(2, 4), rng.randint(2, 4)
            rows = [[rng.choice(pool) if rng.random() < 0.7 else rng.randint(lo, hi) for _ in range(c)] for _ in range(r)]
            runs = [[100 + 10 * lay + di, list(range(r))] for lay in range(N_LAY2)]           # matrix_to_csv (+ parse_matrix back)
            runs += [[300 + 10 * lay + di, list(range(r))] for lay in range(N_LAY1)]          # int_lists_to_strings on a strided flat array
            runs += [[100 + 10 * rng.randrange(N_LAY2) + di, rng.sample(range(r), rng.randint(1, r))] for _ in range(2)]
            cases.append(_mk(FMT_LIST, rows, runs))
            if dt == 'int64':
                texts = [','.join(str(v) for v in row) for row in rows]
                cases.append(_mk(PARSE_LIST, texts, [[6, list(range(r))], [1, list(range(r))], [6, list(range(r))[::-1]]]))
    for di, dt in enumerate(FLOAT_DTYPES):
        for rep_ in range(1 if quick else 3):
            n = rng.randint(3, 7)
            if dt == 'float64':
                xs = [_rand_double(rng) for _ in range(n)]
            else:       # float32: values both types represent exactly and print alike
                xs = [rng.choice([0.5, -1.25, 3.0, 1e10, -0.0, 0.0, 1024.0, 2.0 ** -10, 7.75, -65536.0, 1e-3 * 0 + 0.375]) for _ in range(n)]
            bits = [d2b(x) for x in xs]
            runs = [[100 + 10 * lay + di, list(range(n))] for lay in range(N_LAY1)]
            runs += [[100 + 10 * rng.randrange(N_LAY1) + di, rng.sample(range(n), rng.randint(1, n))]]
            if dt == 'float64':     # (the shortest text of a float32 may differ from the float64's: 1e+10 / 10000000000.0)
                runs.append([0, list(range(n))])
            cases.append(_mk(FMT_FLOAT, bits, runs))
    # float texts through parse_matrix
    texts = ['1.5', '-2.25', '1e5', '.5', '12', '2.5e-3', '7.', '-0.0']
    cases.append(_mk(PARSE_FLOAT, texts, [[2, list(range(len(texts)))], [0, list(range(len(texts)))], [2, [3, 1, 0]]]))
    return cases


def _all_runs(m, route=0):
    """every non-empty ordered sub-batch of m rows (m <= 4): 64 runs for m = 4"""
    out = []
    for k in range(1, m + 1):
        for sub in itertools.permutations(range(m), k):
            out.append([route, list(sub)])
    return out


def _some_runs(m, rng, routes):
    runs = [[r, list(range(m))] for r in routes]
    runs.append([0, list(range(m))[::-1]])
    for _ in range(3):
        k = rng.randint(1, m)
        runs.append([0, rng.sample(range(m), k)])
    for i in rng.sample(range(m), min(m, 4)):
        runs.append([0, [i]])
    return runs


def _mk(kind, rows, runs):
    if kind in (PARSE_INT, PARSE_FLOAT) and rows:
        # parse the whole batch again at the very end (same array object: the first parse must not have changed it)
        runs = list(runs) + [[0, list(range(len(rows)))]]
    return dict(kind=kind, rows=rows, runs=runs)


BAD_INTS = ['-', '+', '1a', 'a', '1.5', '--5', '1-2', ' 3', '+-1', '1P', '12 ', '0x1', '1e3']
BAD_FLOATS = ['1.2.3', '.', '+.', '-.', '-', '+', '1e', '1e+', '2e-', 'e5', 'abc', '1ee2', '1e2e3', '1e5.5', '1 2', '1E5',
              '..', '1.e', '.e1', 'e', '1,5', '--1', '1.5.']


def _rand_int(rng, width=None, signed=True):
    w = width or rng.randint(1, 19)
    lo = 10 ** (w - 1) if w > 1 else 0
    hi = min(10 ** w - 1, I64MAX)
    r = rng.random()
    if r < 0.25:
        n = lo + rng.randint(0, 2)
    elif r < 0.5:
        n = hi - rng.randint(0, 2)
    else:
        n = rng.randint(lo, hi)
    n = max(0, min(n, I64MAX))
    if signed and rng.random() < 0.4:
        n = -n
    return n


def _int_text(rng, n, fancy=True):
    s = str(abs(n))
    if fancy and rng.random() < 0.3:
        s = '0' * rng.randint(1, 4) + s
    if n < 0 or (n == 0 and fancy and rng.random() < 0.2):
        return '-' + s
    if fancy and rng.random() < 0.2:
        return '+' + s
    return s


def _float_text(rng, plus=False):
    nd = rng.randint(1, 17)
    ds = ''.join(rng.choice('0123456789') for _ in range(nd))
    if rng.random() < 0.6:
        ds = ds.lstrip('0') or '0'
    form = rng.choice([0, 1, 1, 2, 2, 3])
    s = ds
    if form in (1, 2):
        c = rng.randint(0, len(ds))
        s = ds[:c] + '.' + ds[c:]
    if form in (2, 3):
        e = rng.choice([0, 1, -1, 5, -5, 22, 23, -22, -23, 300, -300]) if rng.random() < 0.3 else rng.randint(-300, 300)
        es = str(e)
        if e >= 0 and rng.random() < 0.4:
            es = '+' + es
        if rng.random() < 0.2:
            es = es[0] + '0' + es[1:] if es[0] in '+-' else '0' + es
        s += 'e' + es
    r = rng.random()
    if r < 0.3:
        s = '-' + s
    elif plus and r < 0.4:
        s = '+' + s
    return s


def _float_text_ok(s):
    """keep the value inside the finite, normal range unless it overflows clearly"""
    v = abs(float(s))
    return v == 0.0 or 1e-305 < v


def _rand_double(rng):
    r = rng.random()
    if r < 0.25:
        x = b2d(rng.getrandbits(64))
        while x != x or not (1e-300 <= abs(x) <= 1e300):
            x = b2d(rng.getrandbits(64))
        return x
    if r < 0.45:
        return float(rng.randint(-10 ** rng.randint(1, 17), 10 ** rng.randint(1, 17)))
    if r < 0.65:
        return round(rng.uniform(-1000, 1000), rng.randint(0, 6))
    if r < 0.8:
        return float('%de%d' % (rng.randint(1, 99999), rng.randint(-300, 295)))
    if r < 0.9:
        return rng.choice([0.0, -0.0, 0.1, 0.2, 0.3, 0.1 + 0.2, 1.0, -1.0, 1e15, 1e16, 1e-4, 1e-5, 123456.789, 2.5e-300, 1e300, 1e22, 1e23])
    return rng.random() * 10 ** rng.randint(-20, 20)


def generate(tier, seed):
    rng = random.Random(seed * 104729 + 18)
    quick = tier == 'quick'
    cases = []
    # ---- integers: the named boundary values, formatted and parsed, one case per power of ten
    specials = [0, 1, -1, I64MAX, I64MIN, I64MIN + 1, I64MAX - 1, 2 ** 53, 2 ** 53 + 1, -(2 ** 53 + 1), 2 ** 62, -2 ** 62]
    for k in range(0, 19):
        vals = []
        for d in (-2, -1, 0, 1, 2):
            for s in (1, -1):
                n = s * (10 ** k + d)
                if I64MIN <= n <= I64MAX and n not in vals:
                    vals.append(n)
        m = len(vals)
        runs = [[0, list(range(m))], [1, list(range(m))], [2, list(range(m))], [0, list(range(m))[::-1]]] + [[0, [i]] for i in range(m)]
        cases.append(_mk(FMT_INT, vals, runs))
        texts = [str(v) for v in vals]
        cases.append(_mk(PARSE_INT, texts, [[0, list(range(m))], [1, list(range(m))], [2, list(range(m))]] + [[0, [i]] for i in range(m)]))
        pos = [str(v) for v in vals if v >= 0]
        cases.append(_mk(PARSE_INT, pos, [[1, list(range(len(pos)))], [0, list(range(len(pos)))]]))
    cases.append(_mk(FMT_INT, specials, [[0, list(range(len(specials)))], [1, list(range(len(specials)))]] + [[0, [i]] for i in range(len(specials))]))
    cases.append(_mk(PARSE_INT, [str(v) for v in specials], [[0, list(range(len(specials)))], [1, list(range(len(specials)))]] + [[0, [i]] for i in range(len(specials))]))
    # both sides of the log10 carry thresholds and of the int64 -> double rounding
    for k, t in CARRY.items():
        vals = [t - 2, t - 1, t, t + 1, -(t - 1), -t, 10 ** k - 1, (t + 10 ** k) // 2]
        cases.append(_mk(FMT_INT, vals, [[0, list(range(len(vals)))]] + [[0, [i]] for i in range(len(vals))]))
    # leading zeros, explicit plus, signed zero, wide texts
    texts = ['0', '-0', '+0', '000', '007', '-007', '+007', '0000000000000000000001', '-00000000000000000000012',
             '9223372036854775807', '-9223372036854775808', '+9223372036854775807', '00009223372036854775807']
    cases.append(_mk(PARSE_INT, texts, [[0, list(range(len(texts)))], [1, list(range(len(texts)))]] + [[0, [i]] for i in range(len(texts))]))
    # a column with '+' but no '-' (the sign test of the file reader), and one with '-' but no '+'
    for texts in (['+5', '12', '007', '+0'], ['-5', '12', '007', '-0']):
        cases.append(_mk(PARSE_INT, texts, [[1, [0, 1, 2, 3]], [0, [0, 1, 2, 3]], [1, [1, 2]], [1, [3, 0]]]))
    # ---- the digit matrix at buffer level: fields anywhere in a buffer, in particular a short field that ends
    #      closer to the buffer start than the widest field is long (window index negative -> NumPy wraps around)
    n_dm = 16 if quick else 80
    for i in range(n_dm):
        m = rng.randint(2, 4) if i % 2 == 0 else rng.randint(5, 10)
        fields = [str(_rand_int(rng, signed=False)) if rng.random() < 0.8 else '0' * rng.randint(1, 3) + str(rng.randint(0, 99))
                  for _ in range(m)]
        if i % 3 == 0:
            fields[0] = str(rng.randint(0, 9))                      # a 1-digit field at offset 0 ...
            fields[rng.randrange(1, m)] = str(10 ** 18 + rng.randint(0, 9))   # ... and a 19-digit one later
        lead = '' if i % 3 == 0 else rng.choice(['', 'x', 'ab\t'])
        data, ivs = lead, []
        for f in fields:
            ivs.append([len(data), len(data) + len(f)])
            data += f + rng.choice(['\t', '\n', '\tq\n'])
        runs = (_all_runs(m) if m <= 3 else _some_runs(m, rng, [0]))
        runs = [[r, [j + 1 for j in idx]] for r, idx in runs]      # row 0 is the buffer
        cases.append(_mk(DIGIT_MATRIX, [data] + ivs, runs))
        # the same fields as the FIRST column of a file (the first field then starts at buffer offset 0)
        cases.append(_mk(PARSE_INT, fields, [[4, list(range(m))], [0, list(range(m))]] + [[4, [j]] for j in range(min(m, 3))]))
    # ---- malformed texts among valid ones: the batch must raise, at its FIRST malformed row; sub-batches without a
    #      malformed row convert as usual
    n_mal = 14 if quick else 70
    for i in range(n_mal):
        m = rng.choice([2, 3, 3, 4]) if i % 3 else rng.randint(5, 9)
        for kind, bad_pool in ((MAL_INT, BAD_INTS), (MAL_FLOAT, BAD_FLOATS)):
            rows = []
            for j in range(m):
                if rng.random() < 0.4:
                    rows.append(bad_pool[(i * 7 + j * 3 + rng.randrange(3)) % len(bad_pool)])
                elif kind == MAL_INT:
                    rows.append(_int_text(rng, _rand_int(rng)))
                else:
                    t = _float_text(rng, plus=True)
                    while not _float_text_ok(t):
                        t = _float_text(rng, plus=True)
                    rows.append(t)
            if not any(r in bad_pool for r in rows):
                rows[rng.randrange(m)] = bad_pool[i % len(bad_pool)]
            runs = _all_runs(m) if m <= 4 else _some_runs(m, rng, [0])
            cases.append(_mk(kind, rows, runs))
    # every malformed text alone and after / before a valid row
    for kind, bad_pool, good in ((MAL_INT, BAD_INTS, '-12'), (MAL_FLOAT, BAD_FLOATS, '-2.5e1')):
        for b in bad_pool:
            cases.append(_mk(kind, [good, b, '7'], _all_runs(3)))
    # ---- memory layouts and dtypes
    cases += _layout_cases(rng, quick)
    # exponent texts that end in a zero digit, whole numbers, and the shortest forms around them (format floats)
    xs = [1.5e+30, 2.5e-10, 1e+20, 3e-07, 1.25e+100, 1e+16, 2e+30, -4.5e-20, 5.0, 100.0, 1e+22, 1.0e+300, 7e-300, 120.0, 0.5, 1e-05]
    cases.append(_mk(FMT_FLOAT, [d2b(x) for x in xs], [[0, list(range(len(xs)))], [1, list(range(len(xs)))]] + [[0, [i]] for i in range(len(xs))]))
    # ---- small mixed batches with every ordered sub-batch
    n_small = 24 if quick else 150
    for i in range(n_small):
        m = rng.choice([2, 3, 4, 4])
        widths = rng.sample(range(1, 20), m)
        vals = [_rand_int(rng, w) for w in widths]
        cases.append(_mk(FMT_INT, vals, _all_runs(m) + [[1, list(range(m))]]))
        texts = [_int_text(rng, _rand_int(rng, w)) for w in rng.sample(range(1, 20), m)]
        cases.append(_mk(PARSE_INT, texts, _all_runs(m) + [[1, list(range(m))]]))
    # ---- larger mixed batches
    n_big = 20 if quick else 120
    for i in range(n_big):
        m = rng.randint(5, 24)
        vals = [_rand_int(rng) for _ in range(m)]
        cases.append(_mk(FMT_INT, vals, _some_runs(m, rng, [0, 1, 2])))
        signed = i % 3 != 0
        texts = [_int_text(rng, _rand_int(rng, signed=signed), fancy=signed) for _ in range(m)]
        cases.append(_mk(PARSE_INT, texts, _some_runs(m, rng, [0, 1, 2])))
    # ---- integer lists
    n_list = 24 if quick else 150
    for i in range(n_list):
        m = rng.randint(1, 4) if i % 2 == 0 else rng.randint(5, 10)
        rows = [[_rand_int(rng) for _ in range(rng.randint(1, 5))] for _ in range(m)]
        runs = (_all_runs(m) if m <= 3 else _some_runs(m, rng, [0])) + [[1, list(range(m))]]
        cases.append(_mk(FMT_LIST, rows, runs))
        lo = 0 if i % 4 == 3 else 1        # every fourth batch may contain empty lists
        if lo == 0:
            rows = [r if rng.random() < 0.7 else [] for r in rows]
            if not any(rows):
                rows[0] = [7]
            # a batch consisting only of empty lists is outside the property (ints_to_strings([]) raises IndexError)
            runs = [r for r in runs if any(rows[j] for j in r[1])]
            cases[-1] = _mk(FMT_LIST, rows, runs)
        trows = [','.join(_int_text(rng, _rand_int(rng)) for _ in range(rng.randint(lo, 5))) for _ in range(m)]
        if not any(trows):
            trows[-1] = '5'
        truns = [[1, list(range(m))], [3, list(range(m))], [1, list(range(m))[::-1]]] + [[1, [j]] for j in range(min(m, 4))]
        cases.append(_mk(PARSE_LIST, trows, truns))
    # ---- float texts
    fixed = ['0', '0.0', '-0.0', '1', '1.5', '-2.25', '.5', '5.', '-.5', '0.1', '0.30000000000000004', '1e5', '1e+5', '1e-5',
             '1.5e-3', '-1.25e+10', '1e300', '1e-300', '12345678901234567', '1.2345678901234567', '12345678901234567e-17',
             '9007199254740993', '1e22', '1e23', '123456789012345.67e300', '0.000001', '100000000000000000000']
    cases.append(_mk(PARSE_FLOAT, fixed, [[0, list(range(len(fixed)))], [1, list(range(len(fixed)))]] + [[0, [i]] for i in range(len(fixed))]))
    n_float = 40 if quick else 300
    for i in range(n_float):
        m = rng.choice([1, 2, 3, 4]) if i % 2 == 0 else rng.randint(5, 16)
        texts = []
        while len(texts) < m:
            s = _float_text(rng, plus=(i % 10 == 9))
            if _float_text_ok(s):
                texts.append(s)
        runs = (_all_runs(m) if m <= 3 else _some_runs(m, rng, [0])) + [[1, list(range(m))]]
        cases.append(_mk(PARSE_FLOAT, texts, runs))
    # ---- doubles: format, then parse back
    n_dbl = 30 if quick else 200
    for i in range(n_dbl):
        m = rng.randint(1, 4) if i % 2 == 0 else rng.randint(5, 12)
        xs = [d2b(_rand_double(rng)) for _ in range(m)]
        runs = (_all_runs(m) if m <= 3 else _some_runs(m, rng, [0])) + [[1, list(range(m))]]
        cases.append(_mk(FMT_FLOAT, xs, runs))
    return cases


# ----------------------------------------------------------------------------- implementation runner
_DC = {}


def _classes():
    if _DC:
        return _DC
    from typing import List
    from bionumpy.bnpdataclass import bnpdataclass
    from bionumpy.io.delimited_buffers import get_bufferclass_for_datatype

    @bnpdataclass
    class IntRow:
        name: str
        a: int

    @bnpdataclass
    class IntRowFirst:
        a: int
        name: str

    @bnpdataclass
    class FloatRow:
        name: str
        f: float

    @bnpdataclass
    class ListRow:
        name: str
        l: List[int]

    @bnpdataclass
    class ListRowFirst:
        l: List[int]
        name: str
    for k, c in (('int', IntRow), ('int_first', IntRowFirst), ('float', FloatRow), ('list', ListRow), ('list_first', ListRowFirst)):
        _DC[k] = (c, get_bufferclass_for_datatype(c, delimiter='\t', has_header=True))
    return _DC


def _write_table(d, key, names, column):
    import bionumpy as bnp
    cls, buf = _classes()[key]
    path = os.path.join(d, 'w_%s.tsv' % key)
    with bnp.open(path, 'w', buffer_type=buf) as f:
        f.write(cls(names, column))
    lines = open(path, 'rb').read().split(b'\n')
    assert lines[-1] == b'', lines
    return path, [ln.split(b'\t')[1].decode('latin1') for ln in lines[1:-1]]


def _read_table(d, key, texts, first=False):
    import bionumpy as bnp
    cls, buf = _classes()[key]
    path = os.path.join(d, 'r_%s.tsv' % key)
    fields = [f.name for f in __import__('dataclasses').fields(cls)]
    with open(path, 'wb') as f:
        f.write(('\t'.join(fields) + '\n').encode())
        for i, t in enumerate(texts):
            f.write((('%s\tr%d\n' % (t, i)) if first else ('r%d\t%s\n' % (i, t))).encode('latin1'))
    return bnp.open(path, buffer_type=buf).read()


def _run(kind, route, sel, d):
    import numpy as np
    from npstructures import RaggedArray
    from bionumpy.encoded_array import as_encoded_array
    from bionumpy.io import strops
    names = ['r%d' % i for i in range(len(sel))]
    lay, dti = ((route % 100) // 10, route % 10) if route >= 100 else (0, 0)
    if kind == FMT_INT and route >= 100:
        arr = _lay1(sel, INT_DTYPES[dti], lay)
        assert arr.tolist() == list(sel)
        if route >= 300:
            return _write_table(d, 'int', names, arr)[1]
        return [x.to_string() for x in strops.ints_to_strings(arr)]
    if kind == FMT_LIST and 100 <= route < 300:
        from bionumpy.io.matrix_dump import matrix_to_csv, parse_matrix
        m = _lay2(sel, INT_DTYPES[dti], lay)
        assert m.tolist() == [list(r) for r in sel]
        header = ['c%d' % j for j in range(m.shape[1])]
        s = matrix_to_csv(m, header=header, sep=',').to_string()
        lines = s.split('\n')
        assert lines[-1] == '' and lines[0] == ','.join(header), lines
        if lines[1:-1] == [','.join(str(v) for v in r) for r in sel]:
            # the text is right: reading it back must give the matrix (str_to_int is an int64 parser: skip larger uint64)
            back = parse_matrix(s, field_type=int, rowname_type=None, sep=',').data
            if (INT_DTYPES[dti] != 'uint64' or m.max() < 2 ** 63) and \
                    (back.shape != m.shape or back.astype(object).tolist() != m.astype(object).tolist()):
                raise AssertionError('parse_matrix(matrix_to_csv(m)) != m')
        return lines[1:-1]
    if kind == FMT_LIST and route >= 300:
        flat = _lay1([v for r in sel for v in r], INT_DTYPES[dti], lay)
        ra = RaggedArray(flat, [len(r) for r in sel])
        return [x.to_string() for x in strops.int_lists_to_strings(ra, sep=',')]
    if kind == PARSE_LIST and route == 6:
        from bionumpy.io.matrix_dump import parse_matrix
        ncol = sel[0].count(',') + 1
        text = ','.join('c%d' % j for j in range(ncol)) + '\n' + ''.join(t + '\n' for t in sel)
        m = parse_matrix(text, field_type=int, rowname_type=None, sep=',').data
        return [[int(v) for v in row] for row in m]
    if kind == PARSE_FLOAT and route == 2:
        from bionumpy.io.matrix_dump import parse_matrix
        m = parse_matrix('a\n' + ''.join(t + '\n' for t in sel), field_type=float, rowname_type=None, sep='\t')
        return [d2b(float(v)) for v in m.data.ravel()]
    if kind == FMT_FLOAT and route >= 100:
        xs = _lay1([b2d(b) for b in sel], FLOAT_DTYPES[dti], lay)
        assert [float(x) for x in xs] == [b2d(b) for b in sel]
        texts = [x.to_string() for x in strops.float_to_strings(xs)]
        back = strops.str_to_float(as_encoded_array(texts))
        return [[d2b(float(v)), t] for v, t in zip(back, texts)]
    if kind == FMT_INT:
        arr = np.array(sel, dtype=np.int64)
        if route == 0:
            return [x.to_string() for x in strops.ints_to_strings(arr)]
        if route == 1:
            return _write_table(d, 'int', names, arr)[1]
        from bionumpy.io.matrix_dump import matrix_to_csv
        s = matrix_to_csv(arr.reshape(-1, 1), sep=',').to_string()
        assert s.endswith('\n')
        return s[:-1].split('\n')
    if kind == PARSE_INT:
        if route == 0:
            return [int(v) for v in strops.str_to_int(as_encoded_array(sel))]
        if route == 1:
            return [int(v) for v in _read_table(d, 'int', sel).a]
        if route == 4:
            return [int(v) for v in _read_table(d, 'int_first', sel, first=True).a]
        from bionumpy.io.matrix_dump import parse_matrix
        m = parse_matrix('a\n' + ''.join(t + '\n' for t in sel), field_type=int, rowname_type=None, sep='\t')
        return [int(v) for v in m.data.ravel()]
    if kind == FMT_LIST:
        ra = RaggedArray(np.array([v for r in sel for v in r], dtype=np.int64), [len(r) for r in sel])
        if route == 0:
            return [x.to_string() for x in strops.int_lists_to_strings(ra, sep=',')]
        return _write_table(d, 'list', names, ra)[1]
    if kind == PARSE_LIST:
        data = _read_table(d, 'list_first' if route == 3 else 'list', sel, first=(route == 3))
        return [[int(v) for v in row] for row in data.l.tolist()]
    if kind == PARSE_FLOAT:
        if route == 0:
            vals = strops.str_to_float(as_encoded_array(sel))
        else:
            vals = _read_table(d, 'float', sel).f
        return [d2b(float(v)) for v in vals]
    if kind == FMT_FLOAT:
        xs = np.array([b2d(b) for b in sel], dtype=np.float64)
        if route == 0:
            texts = [x.to_string() for x in strops.float_to_strings(xs)]
            back = strops.str_to_float(as_encoded_array(texts))
        else:
            texts = _write_table(d, 'float', names, xs)[1]
            back = _read_table(d, 'float', texts).f
        return [[d2b(float(v)), t] for v, t in zip(back, texts)]
    raise ValueError(kind)


def _shared_batch(kind, rows):
    import numpy as np
    from bionumpy.encoded_array import as_encoded_array
    from bionumpy.io import strops
    canonical = re.compile(r'0|-?[1-9][0-9]*')
    if kind in (PARSE_INT, MAL_INT) and all(canonical.fullmatch(t) and -2 ** 63 <= int(t) < 2 ** 63 for t in rows):
        # canonical texts: take the formatter's own output object (format -> parse -> parse again -> read back)
        b = strops.ints_to_strings(np.array([int(t) for t in rows], dtype=np.int64))
        if [r.to_string() for r in b] == list(rows):
            return b
    return as_encoded_array(list(rows))


def _parse_shared(kind, shared, idx, n):
    from bionumpy.io import strops
    batch = shared if list(idx) == list(range(n)) else shared[list(idx)]
    if kind in (PARSE_INT, MAL_INT):
        return [int(v) for v in strops.str_to_int(batch)]
    return [d2b(float(v)) for v in strops.str_to_float(batch)]


def _pow_keys(case):
    """every k for which the float parser evaluates 10.**k on the texts of this case"""
    ks = set()
    for t in case.get('_float_texts', []):
        mant, _, ex = t.partition('e')
        ks.update(range(0, len(mant) + 1))
        if ex:
            try:
                if abs(int(ex)) <= 400:
                    ks.add(int(ex))
            except ValueError:
                pass
    return sorted(ks)


def _digit_matrix(data, ivs):
    import numpy as np
    from bionumpy.encoded_array import as_encoded_array
    from bionumpy.io.file_buffers import move_intervals_to_digit_array
    arr = as_encoded_array(data)
    starts = np.array([iv[0] for iv in ivs], dtype=int)
    ends = np.array([iv[1] for iv in ivs], dtype=int)
    m = move_intervals_to_digit_array(arr, starts, ends, '0')
    return [bytes(np.asarray(row.raw() if hasattr(row, 'raw') else row, dtype=np.uint8)).decode('latin1') for row in m]


def observe(case):
    import warnings
    warnings.simplefilter('ignore')
    import numpy as np
    np.seterr(all='ignore')
    from bionumpy.encodings.exceptions import EncodingError
    d = tempfile.mkdtemp(prefix='c18_')
    outs = []
    kind = case['kind']
    # ONE array object per case for the direct parsing runs: the whole batch is parsed from this very object (more than
    # once), sub-batches and permutations are taken from it, and its text is read back after all runs
    shared = None
    if kind in (PARSE_INT, PARSE_FLOAT, MAL_INT, MAL_FLOAT) and all(len(t) > 0 for t in case['rows']):
        shared = _shared_batch(kind, case['rows'])
    try:
        for route, idx in case['runs']:
            sel = [case['rows'][i] for i in idx]
            try:
                if kind == DIGIT_MATRIX:
                    r = _digit_matrix(case['rows'][0], sel)
                elif shared is not None and route == 0:
                    r = _parse_shared(kind, shared, idx, len(case['rows']))
                else:
                    r = _run(PARSE_INT if kind == MAL_INT else PARSE_FLOAT if kind == MAL_FLOAT else kind, route, sel, d)
                if len(r) != len(sel):
                    r = dict(error='length %d for %d rows' % (len(r), len(sel)), cls=2, row=-1)
            except EncodingError as e:
                ends = np.cumsum([len(t) for t in sel]) if sel and isinstance(sel[0], str) else np.array([0])
                r = dict(error='EncodingError', cls=1, row=int(np.searchsorted(ends, int(e.offset), side='right')))
            except Exception as e:
                r = dict(error=type(e).__name__, cls=2, row=-1)
            outs.append(r)
    finally:
        shutil.rmtree(d, ignore_errors=True)
    res = dict(runs=outs)
    if shared is not None:
        res['after'] = [row.to_string() for row in shared]
    # the platform's 10.**k for every exponent the float parser needs on these texts (assumption E3 of the model)
    texts = []
    if case['kind'] in (PARSE_FLOAT, MAL_FLOAT):
        texts = list(case['rows'])
    elif case['kind'] == FMT_FLOAT:
        texts = [x[1] for r in outs if not isinstance(r, dict) for x in r]
    if texts:
        ks = _pow_keys(dict(_float_texts=texts))
        with np.errstate(all='ignore'):
            vals = 10. ** np.array(ks, dtype=np.int64)
        res['pow'] = [[k, d2b(float(v))] for k, v in zip(ks, vals)]
    return res


# ----------------------------------------------------------------------------- Coq emitter
def _row_in(kind, row):
    if kind == DIGIT_MATRIX:
        return hx(row) if isinstance(row, str) else zl(row)
    if kind in (FMT_INT, FMT_FLOAT):
        return zl([row])
    if kind == FMT_LIST:
        return zl(row)
    return hx(row)


def _row_out(kind, out):
    if kind in (FMT_INT, FMT_LIST, DIGIT_MATRIX):
        return hx(out)
    if kind in (PARSE_INT, PARSE_FLOAT, MAL_INT, MAL_FLOAT):
        return zl([out])
    if kind == PARSE_LIST:
        return zl(out)
    return '(%s :: %s)' % (cz(out[0]), hx(out[1]))


def to_coq(case, o):
    kind = case['kind']
    runs = []
    for (route, idx), out in zip(case['runs'], o['runs']):
        if isinstance(out, dict):
            ot = '(@None (list (list Z)))'
        else:
            ot = '(Some %s)' % clist([_row_out(kind, x) for x in out], 'list Z')
        runs.append('(%s, %s, %s)' % (cz(route), zl(idx), ot))
    pw = clist(['(%s, %s)' % (cz(k), cz(b)) for k, b in o.get('pow', [])], '(Z * Z)')
    errs = clist(['(%s, %s)' % (cz(out.get('cls', 2)), cz(out.get('row', -1))) if isinstance(out, dict) else '(0%Z, (-1)%Z)'
                  for out in o['runs']], '(Z * Z)')
    after = '(Some %s)' % clist([hx(t) for t in o['after']], 'list Z') if 'after' in o else '(@None (list (list Z)))'
    return '{| k_kind := %s; k_rows := %s; k_runs := %s; k_pow := %s; k_errs := %s; k_after := %s |}' % (
        cz(kind), clist([_row_in(kind, r) for r in case['rows']], 'list Z'), clist(runs, 'run'), pw, errs, after)


# ----------------------------------------------------------------------------- evidence helpers
def _width(row, kind):
    if kind == FMT_INT:
        return len(str(abs(row)))
    if kind == PARSE_INT:
        return len(row.lstrip('+-'))
    return None


def nontrivial(case, o):
    kind = case['kind']
    if kind in (FMT_INT, PARSE_INT):
        ws = [_width(r, kind) for r in case['rows']]
        return max(ws) >= 2 or len(set(ws)) > 1 or any(str(r)[0] in '+-' for r in case['rows'])
    if kind in (FMT_LIST, PARSE_LIST):
        return any(len(r) > 1 for r in case['rows'])
    if kind == PARSE_FLOAT:
        return any(('.' in r or 'e' in r) for r in case['rows'])
    if kind == DIGIT_MATRIX:
        return len(set(b - a for a, b in case['rows'][1:])) > 1
    return True


def describe(case, o):
    rows = case['rows']
    if case['kind'] == FMT_FLOAT:
        rows = [repr(b2d(b)) for b in rows]
    return dict(kind=['format ints', 'parse ints', 'format int lists', 'parse int lists', 'parse floats', 'format floats', 'digit matrix',
                      'parse ints (malformed rows)', 'parse floats (malformed rows)'][case['kind']],
                rows=rows[:8], n_rows=len(rows), n_runs=len(case['runs']),
                first_run=(o['runs'][0] if isinstance(o['runs'][0], dict) else o['runs'][0][:8]))


def distribution(cases, obs):
    names = ['format_ints', 'parse_ints', 'format_int_lists', 'parse_int_lists', 'parse_floats', 'format_floats', 'digit_matrix',
             'malformed_ints', 'malformed_floats']
    d = dict(cases={n: 0 for n in names}, rows=0, runs=0, converted_rows=0, batch_sizes={}, int_widths={}, routes={},
             exceptions=0, float_exponent_texts=0, float_fraction_texts=0, signed_rows=0)
    for c, o in zip(cases, obs):
        d['cases'][names[c['kind']]] += 1
        d['rows'] += len(c['rows'])
        d['runs'] += len(c['runs'])
        b = str(len(c['rows']))
        d['batch_sizes'][b] = d['batch_sizes'].get(b, 0) + 1
        for route, idx in c['runs']:
            d['converted_rows'] += len(idx)
            d['routes'][str(route)] = d['routes'].get(str(route), 0) + 1
        if isinstance(o, dict) and 'runs' in o:
            d['exceptions'] += sum(isinstance(r, dict) for r in o['runs'])
        if c['kind'] in (MAL_INT, MAL_FLOAT):
            d['malformed_rows'] = d.get('malformed_rows', 0) + sum(1 for r in c['rows'] if not _valid(c['kind'], r))
            continue
        if c['kind'] == DIGIT_MATRIX:
            d['matrix_fields_before_widest'] = d.get('matrix_fields_before_widest', 0) + sum(
                1 for a, b in c['rows'][1:] if b < max(y - x for x, y in c['rows'][1:]))
            continue
        for r in c['rows']:
            w = _width(r, c['kind'])
            if w is not None:
                d['int_widths'][str(w)] = d['int_widths'].get(str(w), 0) + 1
            if c['kind'] == PARSE_FLOAT:
                d['float_exponent_texts'] += 'e' in r
                d['float_fraction_texts'] += '.' in r
            if c['kind'] in (PARSE_INT, PARSE_FLOAT) and r[0] in '+-':
                d['signed_rows'] += 1
            if c['kind'] == FMT_INT and r < 0:
                d['signed_rows'] += 1
    return d


# ----------------------------------------------------------------------------- known findings
def _pinned_width_defect(n, text):
    """the exact wrong text the float-log10 width produces: one leading zero for |n| in a carry band,
    '-2' for the most negative int64"""
    if n == I64MIN:
        return text == '-2'
    a = abs(n)
    k = len(str(a))
    return k in CARRY and CARRY[k] <= a and text == ('-' if n < 0 else '') + '0' + str(a)


def _pinned_list_regroup(sel):
    """what the pinned list-column parser returns: all numbers of the column in order, cut into rows by the
    number of separators (= items + 1 per row, also for an empty field)"""
    flat = [int(p) for r in sel for p in r.split(',') if p]
    out, k = [], 0
    for r in sel:
        n = r.count(',') + 1
        out.append(flat[k:k + n])
        k += n
    return out


_RE_INT = re.compile(r'[+-]?[0-9]+')
_RE_FLOAT = re.compile(r'[+-]?([0-9]+\.?[0-9]*|\.[0-9]+)(e[+-]?[0-9]+)?')


def _valid(kind, t):
    return bool((_RE_INT if kind == MAL_INT else _RE_FLOAT).fullmatch(t))


def _mal_bad_runs(case, o):
    """runs of a malformed-rows case that violate the property: (sel, expected first bad row or None, observed)"""
    kind, bad = case['kind'], []
    for (route, idx), out in zip(case['runs'], o['runs']):
        sel = [case['rows'][i] for i in idx]
        k = next((j for j, t in enumerate(sel) if not _valid(kind, t)), None)
        if k is None:
            if isinstance(out, dict):
                bad.append((sel, k, out))
            elif kind == MAL_INT and out != [int(t) for t in sel]:
                bad.append((sel, k, out))
            elif kind == MAL_FLOAT and any(abs(_ord(x) - _ord(d2b(float(t)))) > 4 for t, x in zip(sel, out)):
                bad.append((sel, k, out))
        elif not (isinstance(out, dict) and out.get('cls') == 1 and out.get('row') == k):
            bad.append((sel, k, out))
    return bad


def _raises_other(kind, t):
    """texts on which the parsers raise ValueError instead of the parse error (model: POther)"""
    if t == '':
        return True
    if kind == MAL_FLOAT and 'e' in t:
        return t.count('e') > 1 or t.startswith('e') or t.endswith('e')
    return False


def _bad_rows(case, o):
    if case['kind'] in (MAL_INT, MAL_FLOAT):
        b = _mal_bad_runs(case, o)
        return [(sel, out) for sel, k, out in b], None, None
    """(row, out) pairs that violate the per-row property, by an independent Python reading of it; None if a run raised"""
    kind = case['kind']
    bad = []
    for (route, idx), out in zip(case['runs'], o['runs']):
        if isinstance(out, dict):
            return None, out['error'], [case['rows'][i] for i in idx]
        if kind == DIGIT_MATRIX:
            fields = [case['rows'][0][case['rows'][i][0]:case['rows'][i][1]] for i in idx]
            w = max(len(f) for f in fields)
            bad += [(f, x) for f, x in zip(fields, out) if x != f.rjust(w, '0')]
            continue
        for i, x in zip(idx, out):
            row = case['rows'][i]
            if kind == FMT_INT and x != str(row):
                bad.append((row, x))
            elif kind == FMT_LIST and x != ','.join(str(v) for v in row):
                bad.append((row, x))
            elif kind == PARSE_INT and x != int(row):
                bad.append((row, x))
            elif kind == PARSE_LIST and x != ([int(p) for p in row.split(',')] if row else []):
                bad.append((row, x))
            elif kind == PARSE_FLOAT and abs(_ord(x) - _ord(d2b(float(row)))) > 0:
                bad.append((row, x))
            elif kind == FMT_FLOAT and (x[0] != row or float(x[1]) != b2d(row)):
                bad.append((row, x))
    return bad, None, None


def finding(case, o):
    kind = case['kind']
    if kind in (MAL_INT, MAL_FLOAT):
        bad = _mal_bad_runs(case, o)
        if not bad or o.get('after', case['rows']) != case['rows']:
            return None
        ids = set()
        for sel, k, out in bad:
            if k is None or not isinstance(out, dict):
                return None
            if out.get('cls') == 2 and any(_raises_other(kind, t) for t in sel):
                ids.add('C18-malformed-number-other-exception')
            elif kind == MAL_INT and out.get('cls') == 1 and out.get('row', -1) > k and sel[out['row']] in ('+', '-') \
                    and sel[k] not in ('+', '-'):
                ids.add('C18-int-error-row-sign-first')
            else:
                return None
        return sorted(ids)[0] if len(ids) == 1 else 'C18-malformed-number-other-exception'
    bad, err, sel = _bad_rows(case, o)
    if kind in (FMT_INT, FMT_LIST):
        if bad is None or not bad:
            return None
        for row, x in bad:
            ns = [row] if kind == FMT_INT else row
            ts = x.split(',')
            if len(ts) != len(ns):
                return None
            wrong = [(n, t) for n, t in zip(ns, ts) if t != str(n)]
            if not wrong or not all(_pinned_width_defect(n, t) for n, t in wrong):
                return None
        return 'C18-log10-width'
    if kind == PARSE_FLOAT:
        # a leading '+' on a float text is rejected with EncodingError (whole batch)
        if bad is None:
            for (route, idx), out in zip(case['runs'], o['runs']):
                if isinstance(out, dict):
                    rows = [case['rows'][i] for i in idx]
                    if out['error'] not in ('EncodingError', 'FormatException') or not any(r.startswith('+') for r in rows):
                        return None
                elif any(abs(_ord(x) - _ord(d2b(float(case['rows'][i])))) > 4 for i, x in zip(idx, out)):
                    return None
            return 'C18-float-plus-sign'
        return None
    if kind == PARSE_LIST:
        # an empty list in the column: rows are regrouped by separator count, so later values move up a row
        if bad is None or not bad:
            return None
        for (route, idx), out in zip(case['runs'], o['runs']):
            sel = [case['rows'][i] for i in idx]
            if out != _pinned_list_regroup(sel):
                return None
            if out != [[int(p) for p in r.split(',')] if r else [] for r in sel] and '' not in sel:
                return None
        return 'C18-empty-list-row-shift'
    if kind == FMT_FLOAT:
        # format-then-parse is off by a few ulp for doubles whose shortest text has an exponent or whose digits
        # (point removed) form an integer >= 2^53 -- the two places where the double evaluation rounds
        if bad is None or not bad:
            return None
        for row, x in bad:
            t = x[1]
            mantissa = int(t.split('e')[0].replace('-', '').replace('.', ''))
            if float(t) != b2d(row) or abs(_ord(x[0]) - _ord(row)) > 4 or not ('e' in t or mantissa >= 2 ** 53):
                return None
        return 'C18-float-roundtrip-ulps'
    return None


def signature(case, o):
    if o.get('after', case['rows']) != case['rows'] and case['kind'] in (PARSE_INT, PARSE_FLOAT, MAL_INT, MAL_FLOAT):
        return '%d:input-text-changed' % case['kind']
    bad, err, sel = _bad_rows(case, o)
    if bad is None:
        return '%d:exception:%s' % (case['kind'], err)
    return '%d:wrong-value' % case['kind']


def explain(case, o):
    if o.get('after', case['rows']) != case['rows'] and case['kind'] in (PARSE_INT, PARSE_FLOAT, MAL_INT, MAL_FLOAT):
        return dict(input_text_changed_by_parsing=dict(before=case['rows'][:8], after=o['after'][:8]))
    if case['kind'] in (MAL_INT, MAL_FLOAT):
        return dict(wrong_runs=[dict(texts=sel, first_malformed_row=k, observed=out) for sel, k, out in _mal_bad_runs(case, o)[:4]])
    bad, err, sel = _bad_rows(case, o)
    if bad is None:
        return dict(exception=err, on_rows=sel)
    out = []
    for row, x in bad[:5]:
        if case['kind'] == FMT_FLOAT:
            out.append(dict(double=repr(b2d(row)), text=x[1], parsed_back=repr(b2d(x[0])), ulps=abs(_ord(x[0]) - _ord(row))))
        elif case['kind'] == PARSE_FLOAT:
            out.append(dict(text=row, got=repr(b2d(x)), nearest=repr(float(row)), ulps=abs(_ord(x) - _ord(d2b(float(row))))))
        else:
            out.append(dict(input=row, got=x))
    return dict(wrong_rows=out)


def search(tier, seed, disagreeing):
    return generate('thorough' if tier == 'quick' else 'quick', seed + 1)[:150]

"""C01 — chunked reading loses, duplicates or reorders no entry, for any chunk size."""
import gzip
import io
import os
import random
import shutil
import tempfile

from harness.lib import hx, cz, cbool, clist

ID = 'C01'
RULE = ('reader level: files of 0..4 records per format (BED, two-line FASTA, FASTQ, wrapped FASTA) x final newline yes/no x '
        'LF/CRLF x EVERY min_chunk_size 1..size+2 x {seek (plain file), prepend (gzip) mode}: exact bytes of every delivered '
        'buffer compared with the Coq reader model; end to end: bnp.open(path).read_chunks(k) vs .read() on real plain/.gz files '
        'of every listed format (identifier columns of very different widths, many-digit floats, 10/11-digit coordinates), lazy and '
        'eager; the stream is also consumed in two steps (loop left with break, then the rest of the same stream object) and its '
        'chunks are also joined with np.concatenate before being looked at - every variant must give the whole-file entries. '
        'non-trivial = more than one chunk delivered')
EXHAUSTIVE = {'quick': False, 'thorough': False}
TIE = 'translator+correspondence (Gen/C01.v regenerated from parser.py, one_line_buffer.py, fastq_buffer.py, delimited_buffers.py, npdataclassreader.py; Bridge/C01.v; reader state machine + cut functions evaluated in Coq on the same bytes and chunk size)'
ASSUMPTIONS = ['A-IO: read(n) on a regular file / BytesIO / GzipFile returns fewer than n bytes only at end of file',
               'gzip decompression is not modelled; .gz files are exercised end to end only']
PARTIAL = []
PER_FILE = 64

FMT = {'bed': 'Delim 9', 'fa2': 'TwoLineFasta', 'fq': 'FastQ', 'mfa': 'MultiFasta'}


def _entries(fmt, pattern, crlf):
    """pattern: list of small ints selecting a record shape."""
    eol = b'\r\n' if crlf else b'\n'
    recs = []
    for i, p in enumerate(pattern):
        if fmt == 'bed':
            chrom = [b'c', b'chr1', b'chrX_y'][p % 3]
            a, b = [(1, 2), (10, 200), (7, 1234567)][(p // 3) % 3]
            recs.append(chrom + b'\t%d\t%d' % (a, b) + eol)
        elif fmt == 'fa2':
            name = [b'a', b'seq%d' % i][p % 2]
            seq = [b'A', b'ACGTN', b'ACGTACGTAC'][(p // 2) % 3]
            recs.append(b'>' + name + eol + seq + eol)
        elif fmt == 'fq':
            name = [b'r', b'read%d' % i][p % 2]
            seq = [b'A', b'ACGT', b'ACGTACG'][(p // 2) % 3]
            plus = [b'+', b'+' + name][(p // 6) % 2]
            recs.append(b'@' + name + eol + seq + eol + plus + eol + b'!' * len(seq) + eol)
        elif fmt == 'mfa':
            name = [b'a', b'seq%d' % i][p % 2]
            seq = [b'A', b'ACG', b'ACGT', b'ACGTACG'][(p // 2) % 4]
            recs.append(b'>' + name + eol + b''.join(seq[j:j + 3] + eol for j in range(0, len(seq), 3)))
    return recs


def _reader_cases(fmt, pattern, crlf, final_nl, ks=None):
    recs = _entries(fmt, pattern, crlf)
    data = b''.join(recs)
    if not final_nl and data:
        data = data[:-(2 if crlf else 1)]
    out = []
    rng_k = ks if ks is not None else range(1, len(data) + 3)
    for k in rng_k:
        for mode in ('Seek', 'Prepend'):
            out.append(dict(kind='reader', fmt=fmt, data=data.hex(), k=k, mode=mode,
                            max_entry=max([len(r) for r in recs] + [0]), n=len(recs)))
    return out


# identifier columns of very different widths (a wide name early, short rows late: the padded-matrix extraction of an
# identifier column reads max-width windows that reach past short fields, also at the end of a chunk)
_CHR = [b'chrUn_KI270302v1_random', b'c', b'chr10', b'x', b'chr1_alt_long_contig_name']
_NAM = [b'a_rather_long_feature_name_%d', b'n%d', b'p%d', b'%d']


def _chr(i):
    return _CHR[i % len(_CHR)]


def _nam(i):
    return _NAM[i % len(_NAM)] % i


E2E = {
    'bed': lambda i: b'%s\t%d\t%d\t%s\t%d\t%s\n' % (_chr(i), 10 * i, 10 * i + 5 + i, _nam(i), i, b'+-'[i % 2:i % 2 + 1]),
    'bdg': lambda i: b'%s\t%d\t%d\t%d.5\n' % (_chr(i), 5 * i, 5 * i + 5, i),
    'narrowPeak': lambda i: b'%s\t%d\t%d\t%s\t%d\t.\t1.5\t2.5\t3.5\t%d\n' % (_chr(i), 10 * i, 10 * i + 8, _nam(i), i, i + 1),
    'vcf': lambda i: b'%s\t%d\t%s\tA\t%s\t.\t.\t.\n' % (_chr(i), 10 + i, [b'.', b'rs1234567890', b'r'][i % 3], [b'T', b'TGGGGGGGGGG', b'C'][i % 3]),
    'sam': lambda i: b'%s\t%d\t%s\t%d\t60\t4M\t*\t0\t0\tACGT\t!!!!%s\n' % (_nam(i), 16 * (i % 2), _chr(i), 5 + i, b'\tNM:i:0' if i % 2 else b''),
    'gtf': lambda i: b'%s\t%s\t%s\t%d\t%d\t.\t+\t.\tgene_id "g%d";\n' % (_chr(i), [b'src', b's'][i % 2], [b'gene', b'five_prime_UTR', b'CDS'][i % 3], 1 + 10 * i, 9 + 10 * i, i),
    # numbers whose parsed value must not depend on what else shares the chunk: many-digit decimals (a running float
    # total over the chunk loses the last place), coordinates of 10 and 11 digits around 2**31 and 2**32
    'bdg_long': lambda i: b'chr1\t%d\t%d\t1.%015d\n' % (5 * i, 5 * i + 5, (i * 7919 * 10 ** 9 + 26544369955123) % 10 ** 15),
    'bed_big': lambda i: b'c\t%d\t%d\n' % ([3000000000, 12000000000, 2147483648, 5, 9999999999, 4294967296][i % 6] + i,
                                            [3000000000, 12000000000, 2147483648, 5, 9999999999, 4294967296][i % 6] + i + 10),
    'fq': lambda i: b'@%s\n%s\n+\n%s\n' % ([b'r%d', b'a_long_read_name_%d/1'][i % 2] % i, b'ACGTA'[:1 + i % 5], b'!!!!!'[:1 + i % 5]),
    'fa': lambda i: b'>%s\n' % ([b's%d', b'sequence_with_long_name_%d'][i % 2] % i) + b''.join(b'ACGTACGTACG'[:2 + 3 * (i % 4)][j:j + 4] + b'\n' for j in range(0, 2 + 3 * (i % 4), 4)),
}
E2E_HEADER = {'vcf': b'##fileformat=VCFv4.2\n#CHROM\tPOS\tID\tREF\tALT\tQUAL\tFILTER\tINFO\n',
              'sam': b'@HD\tVN:1.0\n@SQ\tSN:chr1\tLN:1000\n'}


def _e2e_cases(rng, n_per_fmt):
    out = []
    for fmt, mk in E2E.items():
        for t in range(n_per_fmt):
            n = [1, 2, 3, 4, 7, 25][t % 6]
            recs = [mk(i) for i in range(n)]
            body = b''.join(recs)
            final_nl = t % 2 == 0
            crlf = (t % 5 == 3) and fmt in ('bed', 'fq', 'fa')
            if crlf:
                body = body.replace(b'\n', b'\r\n')
            if not final_nl:
                body = body[:-(2 if crlf else 1)]
            size = len(body)
            ks = sorted(set([1, 2, size // 2, size - 1, size, size + 1, size + 2, max(1, size // n), max(1, size // n) + 1]
                            + [d for d in range(1, size + 1) if size % d == 0][:6] + [rng.randint(1, size + 2) for _ in range(3)]))
            for k in ks:
                if k < 1:
                    continue
                out.append(dict(kind='e2e', fmt=fmt, body=body.hex(), k=k, gz=bool((t + k) % 2), lazy=[None, True, False][(t + k) % 3],
                                max_entry=max(len(r) for r in recs) + (1 if crlf else 0), n=n))
    return out


def generate(tier, seed):
    rng = random.Random(seed * 1000003 + 1)
    cases = []
    pats = {'quick': [[], [0], [1], [0, 4], [5, 2], [0, 1, 2], [7, 3, 8]],
            'thorough': [[], [0], [1], [2], [0, 4], [5, 2], [6, 6], [0, 1, 2], [7, 3, 8], [3, 3, 3], [0, 1, 2, 3], [8, 7, 6, 5], [4, 0, 4, 0]]}[tier]
    for fmt in FMT:
        for pat in pats:
            for final_nl in (True, False):
                for crlf in ((False,) if tier == 'quick' and len(pat) > 2 else (False, True)):
                    if not pat and (not final_nl or crlf):
                        continue
                    cases += _reader_cases(fmt, pat, crlf, final_nl)
    # sampled larger files: k from divisors of the size +-1 and a log grid
    for t in range(40 if tier == 'quick' else 400):
        fmt = list(FMT)[t % 4]
        n = rng.randint(5, 40)
        pat = [rng.randint(0, 11) for _ in range(n)]
        recs = _entries(fmt, pat, False)
        size = sum(len(r) for r in recs)
        ks = sorted(set([d + e for d in range(1, size + 1) if size % d == 0 for e in (-1, 0, 1) if d + e >= 1][:12]
                        + [rng.randint(1, size + 2) for _ in range(4)] + [size, size + 1]))
        cases += _reader_cases(fmt, pat, False, bool(t % 2), ks=ks[:10])
    cases += _e2e_cases(rng, 6 if tier == 'quick' else 24)
    return cases


def _buffer_type(fmt):
    from bionumpy.io.delimited_buffers import BedBuffer
    from bionumpy.io.one_line_buffer import TwoLineFastaBuffer
    from bionumpy.io.fastq_buffer import FastQBuffer
    from bionumpy.io.multiline_buffer import MultiLineFastaBuffer
    return {'bed': BedBuffer, 'fa2': TwoLineFastaBuffer, 'fq': FastQBuffer, 'mfa': MultiLineFastaBuffer}[fmt]


def _ser(table):
    """canonical serialisation of the entries of a (lazy or eager) table"""
    out = []
    for e in table.tolist():
        out.append(repr(e))
    return out


def observe(case):
    import numpy as np
    import bionumpy as bnp
    from bionumpy.io.exceptions import FormatException
    if case['kind'] == 'reader':
        from bionumpy.io.parser import NumpyFileReader
        data = bytes.fromhex(case['data'])
        r = NumpyFileReader(io.BytesIO(data), _buffer_type(case['fmt']))
        if case['mode'] == 'Prepend':
            r.set_prepend_mode()
        chunks = []
        try:
            for c in r.read_chunks(case['k']):
                d = c.data
                chunks.append(bytes(d.raw() if hasattr(d, 'raw') else d).hex())
                if len(chunks) > len(data) + 5:
                    return dict(error='runaway')
        except FormatException as e:
            return dict(format_error=int(e.line_number))
        except BaseException as e:
            return dict(error=type(e).__name__)
        return dict(chunks=chunks)
    # end to end
    d = tempfile.mkdtemp(prefix='c01_')
    try:
        path = os.path.join(d, 'f.' + {'bdg_long': 'bdg', 'bed_big': 'bed'}.get(case['fmt'], case['fmt']) + ('.gz' if case['gz'] else ''))
        body = E2E_HEADER.get(case['fmt'], b'') + bytes.fromhex(case['body'])
        with (gzip.open(path, 'wb') if case['gz'] else open(path, 'wb')) as f:
            f.write(body)
        out = {}
        try:
            out['whole'] = _ser(bnp.open(path, lazy=case['lazy']).read())
        except BaseException as e:
            out['whole_error'] = type(e).__name__ + ':' + str(e)[:100]
        try:
            got = []
            nchunks = 0
            for chunk in bnp.open(path, lazy=case['lazy']).read_chunks(min_chunk_size=case['k']):
                got += _ser(chunk)
                nchunks += 1
            out['chunked'] = got
            out['nchunks'] = nchunks
        except BaseException as e:
            out['chunked_error'] = type(e).__name__ + ':' + str(e)[:100]
        if 'chunked' in out:
            # the same stream consumed in other ways must give the same entries: (a) in two steps (a loop left with
            # `break`, then the rest of the SAME stream object), (b) chunks joined with np.concatenate before anything
            # of them was looked at.  The first variant that differs from the plain chunk-by-chunk result is what goes
            # to the comparison with the whole-file read.
            variants = {}
            try:
                stream = bnp.open(path, lazy=case['lazy']).read_chunks(min_chunk_size=case['k'])
                two = []
                stop_after = 1 + case['k'] % 2
                for j, chunk in enumerate(stream):
                    two += _ser(chunk)
                    if j + 1 == stop_after:
                        break
                for chunk in stream:
                    two += _ser(chunk)
                variants['two_step'] = two
            except BaseException as e:
                variants['two_step'] = ['<two-step iteration raised %s>' % type(e).__name__]
            try:
                chunks = list(bnp.open(path, lazy=case['lazy']).read_chunks(min_chunk_size=case['k']))
                if chunks:
                    variants['joined'] = _ser(np.concatenate(chunks))
            except BaseException as e:
                variants['joined'] = ['<np.concatenate(chunks) raised %s>' % type(e).__name__]
            for name, v in variants.items():
                if v != out['chunked']:
                    out['variant'] = name
                    out['chunked'] = v
                    break
        return out
    finally:
        shutil.rmtree(d, ignore_errors=True)


def to_coq(case, o):
    if case['kind'] == 'reader':
        if 'chunks' in o:
            ob = 'ODone %s' % clist([hx(bytes.fromhex(c)) for c in o['chunks']], 'list Z')
        elif 'format_error' in o:
            ob = 'OFormat %s' % cz(o['format_error'])
        else:
            ob = 'OError'
        return 'CReader (%s) %s %s %s %s (%s)' % (FMT[case['fmt']], case['mode'], cz(case['k']), hx(bytes.fromhex(case['data'])),
                                                  cz(case['max_entry']), ob)
    ch = '\n'.join(o.get('chunked', [])).encode()
    wh = '\n'.join(o.get('whole', [])).encode()
    return 'CE2E %s %s %s %s %s %s' % (hx(ch), hx(wh), cbool('chunked_error' in o), cbool('whole_error' in o), cz(case['k']), cz(case['max_entry']))


def nontrivial(case, o):
    if case['kind'] == 'reader':
        return len(o.get('chunks', [])) > 1 or 'chunks' not in o
    return o.get('nchunks', 0) > 1


def describe(case, o):
    if case['kind'] == 'reader':
        return dict(kind='reader', fmt=case['fmt'], file=bytes.fromhex(case['data']).decode('latin1'), k=case['k'], mode=case['mode'],
                    chunk_sizes=[len(c) // 2 for c in o.get('chunks', [])], error=o.get('error', o.get('format_error')))
    return dict(kind='e2e', fmt=case['fmt'], n_records=case['n'], k=case['k'], gz=case['gz'], lazy=case['lazy'],
                n_chunks=o.get('nchunks'), errors=[o.get('whole_error'), o.get('chunked_error')], differing_variant=o.get('variant'))


def distribution(cases, obs):
    d = {}
    for c, o in zip(cases, obs):
        key = c['kind'] + ':' + c['fmt']
        e = d.setdefault(key, dict(cases=0, multi_chunk=0, errors=0, k_divides_size=0))
        e['cases'] += 1
        e['multi_chunk'] += nontrivial(c, o) and ('chunks' in o or 'chunked' in o)
        e['errors'] += any(k in o for k in ('error', 'format_error', 'whole_error', 'chunked_error'))
        size = len(c.get('data', c.get('body', ''))) // 2
        e['k_divides_size'] += size > 0 and size % c['k'] == 0
    return d


def finding(case, o):
    return None


def signature(case, o):
    return '%s:%s' % (case['kind'], case['fmt'])


def explain(case, o):
    if case['kind'] == 'reader':
        return ('NumpyFileReader(BytesIO(bytes.fromhex(%r)), <%s buffer>)%s.read_chunks(%d) delivered %r'
                % (case['data'], case['fmt'], '.set_prepend_mode()' if case['mode'] == 'Prepend' else '', case['k'],
                   [bytes.fromhex(c) for c in o.get('chunks', [])] if 'chunks' in o else o))
    return 'bnp.open(<%s%s file>, lazy=%r).read_chunks(%d) vs .read(): %r' % (case['fmt'], '.gz' if case['gz'] else '', case['lazy'], case['k'],
                                                                              {k: (v if not isinstance(v, list) else len(v)) for k, v in o.items()})

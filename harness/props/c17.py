"""C17 — indexed FASTA random access agrees with the file."""
import itertools
import os
import random
import shutil
import tempfile

from harness.lib import hx, zl, cz, cbool, clist

ID = 'C17'
RULE = ('FASTA files generated from (header, sequence, line width) records; every interval [a,b) of every record '
        '(exhaustive for the small grid), library-built and supplied (faidx-style) index; non-trivial = some record '
        'spans more than one line, or an interval endpoint lies on/next to a line break; plus files of 3..8 records indexed by '
        'create_index with the reader asked for chunks of 1..size+1 bytes (three or more chunks), and one file of more than '
        '10 MB indexed with the library\'s own 5,000,000-byte chunks (checked from the shapes of its records); every contig fetched '
        'and kept before any is looked at; Genome route with whole contigs, with sub-intervals in a rotated row order, and with '
        'plain-text interval tables on a genome opened with the default (underscore-ignoring) filter; the same path rewritten with '
        'the records reversed and re-opened in the same process')
EXHAUSTIVE = {'quick': False, 'thorough': False}
TIE = 'translator+correspondence (Gen/C17.v regenerated from indexed_fasta.py, Bridge/C17.v; model_index, model_index_chunks over the C01 reader model, fetch_contig, fetch_interval evaluated in Coq on the file bytes; create_index offset accumulation regenerated as gen_ci_offsets / gen_ci_shift)'
ASSUMPTIONS = ['A-IO: file.seek/read/readinto on a regular file return the requested bytes',
               'small-file chunking of create_index is reached by wrapping the reader it opens so that read_chunks() asks for k bytes (harness-side, create_index itself untouched); the 5,000,000-byte default is exercised by one large file per run',
               'CRLF files without a final line break are not generated (the width of an unterminated last line is not defined by the format)',
               'interval fetch is exercised on LF files only (the property does not quantify over CRLF for random access); CRLF files are used for the index and whole-contig fetch']
PARTIAL = []
ALPH = b'ACGTNacgtn'


def _file_bytes(case):
    eol = b'\r\n' if case['crlf'] else b'\n'
    out = b''
    for name, seq, w in case['recs']:
        out += b'>' + name.encode() + eol
        for i in range(0, len(seq), w):
            out += seq[i:i + w].encode() + eol
    if not case['final_newline']:
        out = out[:-len(eol)]
    return out


def _mk(recs, crlf=False, final_newline=True, supplied=False, fetch='all', rng=None):
    case = dict(recs=recs, crlf=crlf, final_newline=final_newline, supplied=supplied)
    iv = []
    if not crlf:
        for n, (name, seq, w) in enumerate(recs):
            L = len(seq)
            allp = [(a, b) for a in range(L) for b in range(a + 1, L + 1)]
            if fetch == 'none':
                sel = []
            elif fetch == 'all' or len(allp) <= 60:
                sel = allp
            else:
                # endpoints on / before / after line breaks, plus random ones
                pts = sorted(set(p for k in range(0, L + w, w) for p in (k - 1, k, k + 1) if 0 <= p <= L) | {0, L})
                sel = [(a, b) for a in pts for b in pts if a < b]
                sel += rng.sample(allp, min(20, len(allp)))
                sel = sorted(set(sel))[:150]
            iv += [(n, a, b) for a, b in sel]
    case['intervals'] = iv
    return case


def generate(tier, seed):
    rng = random.Random(seed * 7919 + 17)
    cases = []

    def rseq(L):
        return ''.join(chr(rng.choice(ALPH)) for _ in range(L))
    # exhaustive single-record grid: every length 1..9 (quick) at every width 1..5
    maxL, maxW = (9, 5) if tier == 'quick' else (14, 7)
    for L in range(1, maxL + 1):
        for w in range(1, maxW + 1):
            cases.append(_mk([('s', rseq(L), w)], final_newline=bool((L + w) % 2)))
    # multi-record files, names with descriptions, mixed widths, both index sources, CRLF
    n_multi = 60 if tier == 'quick' else 600
    for i in range(n_multi):
        nrec = rng.randint(1, 3)
        recs = []
        for r in range(nrec):
            name = 'c%d' % r if rng.random() < 0.6 else 'chr%d_x some description %d' % (r, i)
            L = rng.choice([1, 2, 3, 5, 8, 9, 10, 12, 17, 24, 80, 81, 160]) if rng.random() < 0.5 else rng.randint(1, 30)
            w = rng.choice([1, 2, 3, 4, 5, 7, 10, 60, 80])
            recs.append((name, rseq(L), w))
        cases.append(_mk(recs, crlf=(i % 5 == 4), final_newline=(i % 3 != 0 or i % 5 == 4), supplied=(i % 2 == 1), fetch='some', rng=rng))
    # create_index over a chunked read: 3..8 records and a reader chunk size (injected from outside, see observe) small
    # enough for three or more chunks; offsets must accumulate over ALL earlier chunks
    n_chunked = 40 if tier == 'quick' else 400
    for i in range(n_chunked):
        nrec = rng.randint(3, 8)
        recs = []
        for r in range(nrec):
            name = 'k%d' % r if rng.random() < 0.7 else 'k%d desc %d' % (r, i)
            L = rng.randint(1, 40)
            w = rng.choice([1, 3, 4, 7, 10, 60])
            recs.append((name, rseq(L), w))
        c = _mk(recs, crlf=(i % 4 == 3), final_newline=(i % 3 != 0 or i % 4 == 3), supplied=False, fetch='none', rng=rng)
        size = len(_file_bytes(c))
        c['chunk_k'] = rng.choice([1, 2, 5, 16, 33, 64, max(1, size // 3), max(1, size // 2), size - 1, size, size + 1])
        cases.append(c)
    # the library's own chunking (5,000,000 bytes): a file of more than 10 MB is indexed in >= 3 chunks; only the
    # records' shapes go to Coq (C17_index_from_shapes)
    for i in range(1 if tier == 'quick' else 3):
        cases.append(dict(big=dict(nrec=50 + 7 * i, seqlen=200000 + 1000 * i + rng.randint(0, 99), width=[100, 60, 77][i % 3], crlf=(i == 2)),
                          recs=[], crlf=(i == 2), final_newline=True, supplied=True, intervals=[]))
    return cases


def observe(case):
    import numpy as np
    import bionumpy as bnp
    from bionumpy.datatypes import Interval
    d = tempfile.mkdtemp(prefix='c17_')
    try:
        path = os.path.join(d, 'g.fa')
        if case.get('big'):
            return _observe_big(case['big'], path)
        data = _file_bytes(case)
        open(path, 'wb').write(data)
        if case['supplied']:
            # a faidx-style index written by the harness from the ground truth (name = first word)
            eol = 2 if case['crlf'] else 1
            pos = 0
            with open(path + '.fai', 'w') as f:
                for name, seq, w in case['recs']:
                    off = pos + 1 + len(name) + eol
                    lc = min(w, len(seq))
                    f.write('%s\t%d\t%d\t%d\t%d\n' % (name.split()[0], len(seq), off, lc, lc + eol))
                    pos = off + len(seq) + eol * ((len(seq) + w - 1) // w)
        try:
            fa = bnp.open_indexed(path)
        except Exception as e:
            return dict(error='open_indexed: %s' % type(e).__name__)
        fai = []
        for line in open(path + '.fai', 'rb').read().split(b'\n'):
            if line:
                p = line.split(b'\t')
                fai.append([p[0].hex()] + [int(x) for x in p[1:5]])
        keys = list(fa.keys())
        lengths = fa.get_contig_lengths()
        out = dict(fai=fai, keys=keys, lengths=[int(lengths[k]) for k in keys])
        if case.get('chunk_k'):
            out['chunk'] = _create_index_chunked(path, case['chunk_k'])
        try:
            # every contig is fetched and KEPT before any is looked at, in file order and in reverse order: a
            # returned sequence must not change when another contig is fetched afterwards
            kept = [fa[k] for k in keys]
            kept_rev = [fa[k] for k in reversed(keys)][::-1]
            first = [bytes(x.raw()).hex() for x in kept]
            second = [bytes(x.raw()).hex() for x in kept_rev]
            again = [bytes(fa[k].raw()).hex() for k in keys]
            out['contigs'] = [a if a == b == c else 'ff' for a, b, c in zip(first, second, again)]
        except Exception as e:
            out['contigs'] = 'error:' + type(e).__name__
        iv = case['intervals']
        if iv:
            names = [case['recs'][n][0].split()[0] for n, a, b in iv]
            I = Interval.from_entry_tuples([(nm, a, b) for nm, (n, a, b) in zip(names, iv)])
            try:
                r = fa.get_interval_sequences(I)
                out['fetch'] = [bytes(x.raw()).hex() for x in r]
            except Exception as e:
                out['fetch'] = 'error:' + type(e).__name__
            # second route: chromosome column with a StringEncoding (the vectorised path)
            try:
                from bionumpy.encodings.string_encodings import StringEncoding
                # label order deliberately differs from the FASTA record order, and only the contigs
                # that occur are listed (the encoding, not the file order, defines the codes)
                labels = [k for k in reversed(keys) if k in set(names)]
                enc = StringEncoding(labels)
                I2 = Interval(enc.encode(names), [a for n, a, b in iv], [b for n, a, b in iv])
                r2 = fa.get_interval_sequences(I2)
                out['fetch_fast'] = [bytes(x.raw()).hex() for x in r2]
            except Exception as e:
                out['fetch_fast'] = 'error:' + type(e).__name__
        # Genome route (contig names are the first word of each header)
        if not case['crlf']:
            try:
                g = bnp.Genome.from_file(path, filter_function=lambda x: True)
                s = g.read_sequence()
                gi = g.get_intervals(Interval.from_entry_tuples([(r[0].split()[0], 0, len(r[1])) for r in case['recs']]))
                out['genome'] = [x.to_string().encode('latin1').hex() for x in s[gi]]
            except Exception as e:
                out['genome'] = 'error:' + type(e).__name__ + str(e)[:80]
            # sub-intervals in a shuffled order (three or more rows whose sort permutation is not its own inverse)
            sub = _shuffled_intervals(case)
            if sub:
                try:
                    g = bnp.Genome.from_file(path, filter_function=lambda x: True)
                    s = g.read_sequence()
                    gi = g.get_intervals(Interval.from_entry_tuples([(case['recs'][n][0].split()[0], a, b) for n, a, b in sub]))
                    out['genome_iv'] = [x.to_string().encode('latin1').hex() for x in s[gi]]
                except Exception as e:
                    out['genome_iv'] = 'error:' + type(e).__name__ + str(e)[:80]
                # the same rows as a plain Interval table (text names) on a genome opened with the DEFAULT filter
                # (names containing '_' are ignored by the genome but still fetchable from the sequence)
                try:
                    g = bnp.Genome.from_file(path)
                    s = g.read_sequence()
                    iv2 = Interval.from_entry_tuples([(case['recs'][n][0].split()[0], a, b) for n, a, b in sub])
                    r1 = [x.to_string().encode('latin1').hex() for x in s[iv2]]
                    r2 = [x.to_string().encode('latin1').hex() for x in s.extract_intervals(iv2)]
                    out['genome_iv_plain'] = r1 if r1 == r2 else 'error:two routes differ'
                except Exception as e:
                    out['genome_iv_plain'] = 'error:' + type(e).__name__ + str(e)[:80]
        # the same path, another file: records in reverse order, index rebuilt by the library, same process
        if len(case['recs']) >= 2 and not case['supplied'] and not case.get('chunk_k'):
            try:
                rev = dict(case, recs=case['recs'][::-1], final_newline=True)
                open(path, 'wb').write(_file_bytes(rev))
                os.remove(path + '.fai')
                fb = bnp.open_indexed(path)
                kb = list(fb.keys())
                lb = fb.get_contig_lengths()
                out['reopen'] = dict(keys=kb, lengths=[int(lb[k]) for k in kb], contigs=[bytes(fb[k].raw()).hex() for k in kb])
            except Exception as e:
                out['reopen'] = 'error:' + type(e).__name__
        return out
    finally:
        shutil.rmtree(d, ignore_errors=True)


def _shuffled_intervals(case):
    """(record, a, b) rows, rotated so that the row order is neither file order nor a product of swaps"""
    if case['crlf'] or len(case['recs']) < 2:
        return []
    rows = []
    for n, (name, seq, w) in enumerate(case['recs']):
        L = len(seq)
        rows += [(n, 0, L), (n, L // 2, L)] + ([(n, 1, min(L, 1 + w))] if L > 1 else [])
    rows = rows[:7]
    if len(rows) < 3:
        return []
    return rows[2:] + rows[:2]       # a rotation by two: its sort permutation is not an involution for >= 3 rows


def _create_index_chunked(path, k):
    """create_index itself, with the reader it opens asked for chunks of k bytes instead of the 5,000,000 default
    (the only way to reach its chunk bookkeeping with small files; the function under test is untouched)."""
    import bionumpy.io.indexed_fasta as ifa
    orig = ifa.bnp_open

    class _Reader:
        def __init__(self, r):
            self._r = r

        def read_chunks(self, *a, **kw):
            return self._r.read_chunks(min_chunk_size=k)

    ifa.bnp_open = lambda fn, **kw: _Reader(orig(fn, **kw))
    try:
        ix = ifa.create_index(path)
        names = ix.chromosome.tolist()
        return [[n.encode('latin1').hex(), int(a), int(b), int(c), int(e)] for n, a, b, c, e in
                zip(names, ix.length.tolist(), ix.start.tolist(), ix.characters_per_line.tolist(), ix.line_length.tolist())]
    except Exception as e:
        return 'error:' + type(e).__name__
    finally:
        ifa.bnp_open = orig


def _big_shapes(big):
    return [('b%d' % i, big['seqlen'] + 13 * i, big['width']) for i in range(big['nrec'])]


def _observe_big(big, path):
    import bionumpy as bnp
    eol = b'\r\n' if big['crlf'] else b'\n'
    sizes = []
    with open(path, 'wb') as f:
        for name, L, w in _big_shapes(big):
            seq = (b'ACGTTGCAAC' * (L // 10 + 1))[:L]
            rec = b'>' + name.encode() + eol + b''.join(seq[i:i + w] + eol for i in range(0, L, w))
            f.write(rec)
            sizes.append(len(rec))
    try:
        fa = bnp.open_indexed(path)
    except Exception as e:
        return dict(error='open_indexed: %s' % type(e).__name__)
    fai = []
    for line in open(path + '.fai', 'rb').read().split(b'\n'):
        if line:
            p = line.split(b'\t')
            fai.append([p[0].hex()] + [int(x) for x in p[1:5]])
    return dict(big_fai=fai, big_sizes=sizes, file_size=os.path.getsize(path))


def _obs_lists(case, o):
    """Canonical lists handed to Coq.  Anything that failed becomes a value no model/spec accepts."""
    bad = [['ff', -1, -1, -1, -1]]
    if 'error' in o:
        return bad, [-1], ['ff'], [(n, a, b, 'ff') for n, a, b in case['intervals']] or [(0, 0, 1, 'ff')], []
    contigs = o['contigs'] if isinstance(o['contigs'], list) else ['ff'] * len(o['fai'])
    fetch = []
    if case['intervals']:
        f1, f2 = o['fetch'], o['fetch_fast']
        for k, (n, a, b) in enumerate(case['intervals']):
            g1 = f1[k] if isinstance(f1, list) else 'ff'
            g2 = f2[k] if isinstance(f2, list) else 'ff'
            fetch.append((n, a, b, g1))
            if g2 != g1:
                fetch.append((n, a, b, g2))
    genome = []
    if 'genome' in o:
        g = o['genome']
        for n, r in enumerate(case['recs']):
            genome.append((n, g[n] if isinstance(g, list) and n < len(g) else 'ff'))
    # IndexedFasta keys must be the first word of each header, in file order
    if o['keys'] != [r[0].split()[0] for r in case['recs']]:
        contigs = ['ff'] * len(contigs)
    return o['fai'], o['lengths'], contigs, fetch, genome


def _idx_list(rows):
    return clist(['(%s, %s, %s, %s, %s)' % (hx(bytes.fromhex(r[0])), cz(r[1]), cz(r[2]), cz(r[3]), cz(r[4])) for r in rows])


EMPTY_TAIL = ('k_chunk := 0; k_chunk_raw := []; k_chunk_err := false; k_chunk_index := []; '
              'k_big_eollen := 1; k_big_shapes := []; k_big_index := []')


def to_coq(case, o):
    if case.get('big'):
        rows = o.get('big_fai') if 'error' not in o else [['ff', -1, -1, -1, -1]]
        sizes = o.get('big_sizes') or [0] * case['big']['nrec']
        shapes = clist(['{| s_name := %s; s_len := %s; s_width := %s; s_bytes := %s |}' % (hx(n.encode()), cz(L), cz(w), cz(b))
                        for (n, L, w), b in zip(_big_shapes(case['big']), sizes)])
        return ('{| k_recs := []; k_crlf := %s; k_file := []; k_supplied := true; k_index := []; k_lengths := []; '
                'k_contigs := []; k_fetch := []; k_genome := []; k_genome_iv := []; k_reopen_lengths := []; k_reopen_contigs := []; k_chunk := 0; k_chunk_raw := []; k_chunk_err := false; '
                'k_chunk_index := []; k_big_eollen := %s; k_big_shapes := %s; k_big_index := %s |}'
                % (cbool(case['crlf']), cz(2 if case['crlf'] else 1), shapes, _idx_list(rows)))
    fai, lengths, contigs, fetch, genome = _obs_lists(case, o)
    giv = []
    if isinstance(o, dict) and 'genome_iv' in o:
        sub = _shuffled_intervals(case)
        g = o['genome_iv']
        for k, (n, a, b) in enumerate(sub):
            giv.append((n, a, b, g[k] if isinstance(g, list) and k < len(g) else 'ff'))
        g2 = o.get('genome_iv_plain')
        if g2 is not None:
            for k, (n, a, b) in enumerate(sub):
                giv.append((n, a, b, g2[k] if isinstance(g2, list) and len(g2) == len(sub) else 'ff'))
    ro_l, ro_c = [], []
    if isinstance(o, dict) and 'reopen' in o:
        r = o['reopen']
        if isinstance(r, dict) and r['keys'] == [x[0].split()[0] for x in case['recs'][::-1]]:
            ro_l, ro_c = r['lengths'], r['contigs']
        else:
            ro_l, ro_c = [-1], ['ff']
    extra = ('k_genome_iv := %s; k_reopen_lengths := %s; k_reopen_contigs := %s; ' % (
        clist(['(%s, %s, %s, %s)' % (cz(n), cz(a), cz(b), hx(bytes.fromhex(gg))) for n, a, b, gg in giv], '(Z*Z*Z*list Z)'),
        zl(ro_l), clist([hx(bytes.fromhex(c)) for c in ro_c], 'list Z')))
    tail = EMPTY_TAIL
    if case.get('chunk_k'):
        ch = o.get('chunk', 'error:missing') if 'error' not in o else 'error:open'
        err = not isinstance(ch, list)
        tail = ('k_chunk := %s; k_chunk_raw := %s; k_chunk_err := %s; k_chunk_index := %s; '
                'k_big_eollen := 1; k_big_shapes := []; k_big_index := []'
                % (cz(case['chunk_k']), hx(_file_bytes(case)), cbool(err), _idx_list([] if err else ch)))
    recs = clist(['{| r_name := %s; r_seq := %s; r_width := %s |}' % (hx(n.encode()), hx(s.encode()), cz(w))
                  for n, s, w in case['recs']])
    # a supplied index names records by their first word; the library-built one by the whole header
    file_b = _file_bytes(case)
    if not case['final_newline']:
        file_b += b'\r\n' if case['crlf'] else b'\n'      # normalised text, as the reader delivers it
    idx = clist(['(%s, %s, %s, %s, %s)' % (hx(bytes.fromhex(r[0])), cz(r[1]), cz(r[2]), cz(r[3]), cz(r[4])) for r in fai])
    return ('{| k_recs := %s; k_crlf := %s; k_file := %s; k_supplied := %s; k_index := %s; k_lengths := %s; '
            'k_contigs := %s; k_fetch := %s; k_genome := %s; ' % (
                recs, cbool(case['crlf']), hx(file_b), cbool(case['supplied']), idx, zl(lengths),
                clist([hx(bytes.fromhex(c)) for c in contigs], 'list Z'),
                clist(['(%s, %s, %s, %s)' % (cz(n), cz(a), cz(b), hx(bytes.fromhex(g))) for n, a, b, g in fetch], '(Z*Z*Z*list Z)'),
                clist(['(%s, %s)' % (cz(n), hx(bytes.fromhex(g))) for n, g in genome], '(Z*list Z)'))
            + extra + tail + ' |}')


def nontrivial(case, o):
    return bool(case.get('big')) or any(len(s) > w for _, s, w in case['recs'])


def describe(case, o):
    return dict(recs=[(n, s, w) for n, s, w in case['recs']], crlf=case['crlf'], final_newline=case['final_newline'],
                supplied_index=case['supplied'], n_intervals=len(case['intervals']),
                fai=[[bytes.fromhex(r[0]).decode()] + r[1:] for r in o.get('fai', [])], lengths=o.get('lengths'),
                reader_chunk_size_for_create_index=case.get('chunk_k'), create_index_chunked=o.get('chunk'),
                big_file=case.get('big'), big_file_index_head=(o.get('big_fai') or [])[:3], big_file_size=o.get('file_size'))


def distribution(cases, obs):
    d = dict(records={}, multi_line=0, crlf=0, supplied=0, no_final_newline=0, intervals=0, create_index_chunked=0,
             create_index_chunk_sizes={}, big_files=0)
    for c in cases:
        if c.get('chunk_k'):
            d['create_index_chunked'] += 1
            kk = '<=5' if c['chunk_k'] <= 5 else '<=64' if c['chunk_k'] <= 64 else '>64'
            d['create_index_chunk_sizes'][kk] = d['create_index_chunk_sizes'].get(kk, 0) + 1
        d['big_files'] += bool(c.get('big'))
        k = str(len(c['recs']))
        d['records'][k] = d['records'].get(k, 0) + 1
        d['multi_line'] += any(len(s) > w for _, s, w in c['recs'])
        d['crlf'] += c['crlf']
        d['supplied'] += c['supplied']
        d['no_final_newline'] += not c['final_newline']
        d['intervals'] += len(c['intervals'])
    return d


def finding(case, o):
    return None


def signature(case, o):
    return 'any'

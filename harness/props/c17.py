"""C17 — indexed FASTA random access agrees with the file."""
import itertools
import os
import random
import shutil
import tempfile

from harness.lib import hx, zl, cz, cbool, clist

ID = 'C17'
RULE = ('FASTA files generated from (header, sequence, line width) records; every interval [a,b) of every record '
        '(exhaustive for the small grid), library-built and supplied (faidx-style) index; non-trivial = some record '
        'spans more than one line, or an interval endpoint lies on/next to a line break')
EXHAUSTIVE = {'quick': False, 'thorough': False}
TIE = 'translator+correspondence (Gen/C17.v regenerated from indexed_fasta.py, Bridge/C17.v; model_index, fetch_contig, fetch_interval evaluated in Coq on the file bytes)'
ASSUMPTIONS = ['A-IO: file.seek/read/readinto on a regular file return the requested bytes',
               'interval fetch is exercised on LF files only (the property does not quantify over CRLF for random access); CRLF files are used for the index and whole-contig fetch']
PARTIAL = []
ALPH = b'ACGTNacgtn'


def _file_bytes(case):
    eol = b'\r\n' if case['crlf'] else b'\n'
    out = b''
    for name, seq, w in case['recs']:
        out += b'>' + name.encode() + eol
        for i in range(0, len(seq), w):
            out += seq[i:i + w].encode() + eol
    if not case['final_newline']:
        out = out[:-len(eol)]
    return out


def _mk(recs, crlf=False, final_newline=True, supplied=False, fetch='all', rng=None):
    case = dict(recs=recs, crlf=crlf, final_newline=final_newline, supplied=supplied)
    iv = []
    if not crlf:
        for n, (name, seq, w) in enumerate(recs):
            L = len(seq)
            allp = [(a, b) for a in range(L) for b in range(a + 1, L + 1)]
            if fetch == 'all' or len(allp) <= 60:
                sel = allp
            else:
                # endpoints on / before / after line breaks, plus random ones
                pts = sorted(set(p for k in range(0, L + w, w) for p in (k - 1, k, k + 1) if 0 <= p <= L) | {0, L})
                sel = [(a, b) for a in pts for b in pts if a < b]
                sel += rng.sample(allp, min(20, len(allp)))
                sel = sorted(set(sel))[:150]
            iv += [(n, a, b) for a, b in sel]
    case['intervals'] = iv
    return case


def generate(tier, seed):
    rng = random.Random(seed * 7919 + 17)
    cases = []

    def rseq(L):
        return ''.join(chr(rng.choice(ALPH)) for _ in range(L))
    # exhaustive single-record grid: every length 1..9 (quick) at every width 1..5
    maxL, maxW = (9, 5) if tier == 'quick' else (14, 7)
    for L in range(1, maxL + 1):
        for w in range(1, maxW + 1):
            cases.append(_mk([('s', rseq(L), w)], final_newline=bool((L + w) % 2)))
    # multi-record files, names with descriptions, mixed widths, both index sources, CRLF
    n_multi = 60 if tier == 'quick' else 600
    for i in range(n_multi):
        nrec = rng.randint(1, 3)
        recs = []
        for r in range(nrec):
            name = 'c%d' % r if rng.random() < 0.6 else 'chr%d_x some description %d' % (r, i)
            L = rng.choice([1, 2, 3, 5, 8, 9, 10, 12, 17, 24, 80, 81, 160]) if rng.random() < 0.5 else rng.randint(1, 30)
            w = rng.choice([1, 2, 3, 4, 5, 7, 10, 60, 80])
            recs.append((name, rseq(L), w))
        cases.append(_mk(recs, crlf=(i % 5 == 4), final_newline=(i % 3 != 0 or i % 5 == 4), supplied=(i % 2 == 1), fetch='some', rng=rng))
    return cases


def observe(case):
    import numpy as np
    import bionumpy as bnp
    from bionumpy.datatypes import Interval
    d = tempfile.mkdtemp(prefix='c17_')
    try:
        path = os.path.join(d, 'g.fa')
        data = _file_bytes(case)
        open(path, 'wb').write(data)
        if case['supplied']:
            # a faidx-style index written by the harness from the ground truth (name = first word)
            eol = 2 if case['crlf'] else 1
            pos = 0
            with open(path + '.fai', 'w') as f:
                for name, seq, w in case['recs']:
                    off = pos + 1 + len(name) + eol
                    lc = min(w, len(seq))
                    f.write('%s\t%d\t%d\t%d\t%d\n' % (name.split()[0], len(seq), off, lc, lc + eol))
                    pos = off + len(seq) + eol * ((len(seq) + w - 1) // w)
        try:
            fa = bnp.open_indexed(path)
        except Exception as e:
            return dict(error='open_indexed: %s' % type(e).__name__)
        fai = []
        for line in open(path + '.fai', 'rb').read().split(b'\n'):
            if line:
                p = line.split(b'\t')
                fai.append([p[0].hex()] + [int(x) for x in p[1:5]])
        keys = list(fa.keys())
        lengths = fa.get_contig_lengths()
        out = dict(fai=fai, keys=keys, lengths=[int(lengths[k]) for k in keys])
        try:
            out['contigs'] = [bytes(fa[k].raw()).hex() for k in keys]
        except Exception as e:
            out['contigs'] = 'error:' + type(e).__name__
        iv = case['intervals']
        if iv:
            names = [case['recs'][n][0].split()[0] for n, a, b in iv]
            I = Interval.from_entry_tuples([(nm, a, b) for nm, (n, a, b) in zip(names, iv)])
            try:
                r = fa.get_interval_sequences(I)
                out['fetch'] = [bytes(x.raw()).hex() for x in r]
            except Exception as e:
                out['fetch'] = 'error:' + type(e).__name__
            # second route: chromosome column with a StringEncoding (the vectorised path)
            try:
                from bionumpy.encodings.string_encodings import StringEncoding
                # label order deliberately differs from the FASTA record order, and only the contigs
                # that occur are listed (the encoding, not the file order, defines the codes)
                labels = [k for k in reversed(keys) if k in set(names)]
                enc = StringEncoding(labels)
                I2 = Interval(enc.encode(names), [a for n, a, b in iv], [b for n, a, b in iv])
                r2 = fa.get_interval_sequences(I2)
                out['fetch_fast'] = [bytes(x.raw()).hex() for x in r2]
            except Exception as e:
                out['fetch_fast'] = 'error:' + type(e).__name__
        # Genome route (names without description only: Genome.from_file splits the .fai on white space)
        if all(' ' not in r[0] for r in case['recs']) and not case['crlf']:
            try:
                g = bnp.Genome.from_file(path, filter_function=lambda x: True)
                s = g.read_sequence()
                gi = g.get_intervals(Interval.from_entry_tuples([(r[0], 0, len(r[1])) for r in case['recs']]))
                out['genome'] = [x.to_string().encode('latin1').hex() for x in s[gi]]
            except Exception as e:
                out['genome'] = 'error:' + type(e).__name__ + str(e)[:80]
        return out
    finally:
        shutil.rmtree(d, ignore_errors=True)


def _obs_lists(case, o):
    """Canonical lists handed to Coq.  Anything that failed becomes a value no model/spec accepts."""
    bad = [['ff', -1, -1, -1, -1]]
    if 'error' in o:
        return bad, [-1], ['ff'], [(n, a, b, 'ff') for n, a, b in case['intervals']] or [(0, 0, 1, 'ff')], []
    contigs = o['contigs'] if isinstance(o['contigs'], list) else ['ff'] * len(o['fai'])
    fetch = []
    if case['intervals']:
        f1, f2 = o['fetch'], o['fetch_fast']
        for k, (n, a, b) in enumerate(case['intervals']):
            g1 = f1[k] if isinstance(f1, list) else 'ff'
            g2 = f2[k] if isinstance(f2, list) else 'ff'
            fetch.append((n, a, b, g1))
            if g2 != g1:
                fetch.append((n, a, b, g2))
    genome = []
    if 'genome' in o:
        g = o['genome']
        for n, r in enumerate(case['recs']):
            genome.append((n, g[n] if isinstance(g, list) and n < len(g) else 'ff'))
    # IndexedFasta keys must be the first word of each header, in file order
    if o['keys'] != [r[0].split()[0] for r in case['recs']]:
        contigs = ['ff'] * len(contigs)
    return o['fai'], o['lengths'], contigs, fetch, genome


def to_coq(case, o):
    fai, lengths, contigs, fetch, genome = _obs_lists(case, o)
    recs = clist(['{| r_name := %s; r_seq := %s; r_width := %s |}' % (hx(n.encode()), hx(s.encode()), cz(w))
                  for n, s, w in case['recs']])
    # a supplied index names records by their first word; the library-built one by the whole header
    file_b = _file_bytes(case)
    if not case['final_newline']:
        file_b += b'\r\n' if case['crlf'] else b'\n'      # normalised text, as the reader delivers it
    idx = clist(['(%s, %s, %s, %s, %s)' % (hx(bytes.fromhex(r[0])), cz(r[1]), cz(r[2]), cz(r[3]), cz(r[4])) for r in fai])
    return ('{| k_recs := %s; k_crlf := %s; k_file := %s; k_supplied := %s; k_index := %s; k_lengths := %s; '
            'k_contigs := %s; k_fetch := %s; k_genome := %s |}' % (
                recs, cbool(case['crlf']), hx(file_b), cbool(case['supplied']), idx, zl(lengths),
                clist([hx(bytes.fromhex(c)) for c in contigs], 'list Z'),
                clist(['(%s, %s, %s, %s)' % (cz(n), cz(a), cz(b), hx(bytes.fromhex(g))) for n, a, b, g in fetch], '(Z*Z*Z*list Z)'),
                clist(['(%s, %s)' % (cz(n), hx(bytes.fromhex(g))) for n, g in genome], '(Z*list Z)')))


def nontrivial(case, o):
    return any(len(s) > w for _, s, w in case['recs'])


def describe(case, o):
    return dict(recs=[(n, s, w) for n, s, w in case['recs']], crlf=case['crlf'], final_newline=case['final_newline'],
                supplied_index=case['supplied'], n_intervals=len(case['intervals']),
                fai=[[bytes.fromhex(r[0]).decode()] + r[1:] for r in o.get('fai', [])], lengths=o.get('lengths'))


def distribution(cases, obs):
    d = dict(records={}, multi_line=0, crlf=0, supplied=0, no_final_newline=0, intervals=0)
    for c in cases:
        k = str(len(c['recs']))
        d['records'][k] = d['records'].get(k, 0) + 1
        d['multi_line'] += any(len(s) > w for _, s, w in c['recs'])
        d['crlf'] += c['crlf']
        d['supplied'] += c['supplied']
        d['no_final_newline'] += not c['final_newline']
        d['intervals'] += len(c['intervals'])
    return d


def finding(case, o):
    return None


def signature(case, o):
    return 'any'

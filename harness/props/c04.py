"""C04 — unmodified records and fields are written back byte-for-byte.

A case = one generated file (records with non-canonical but valid spellings, unequal record lengths, LF or
CRLF) + one program over the table that `bnp.open(path).read()` returns: selections (slice / step / mask /
integer list with repeats / single index), concatenations, field replacements, and intermediate writes to a
scratch file (which compact the extractor in place).  The observation is the file the public writer produces.
"""
import gzip
import os
import random
import shutil
import struct
import tempfile

from harness.lib import hx, cz, clist

ID = 'C04'
RULE = ('[every index spelling: slice, mask as ndarray / list of bools / list of np.bool_, ints as list / list of np ints / ndarray of 9 int dtypes / empty list, single; fields looked at before a selection + attribute assignment; sessions: several tables derived from one source, source/intermediate tables written after the derived ones; selections that keep first+last record and permute / repeat equal-length inner records; round 6: FASTQ/FASTA replaced fields (lazy) and np.concatenate (eager) incl. quality (lazy and eager tables), mixed eager+lazy concatenation operands, CRLF VCFBuffer2/SAM replaced fields, with empty sequences, one-record files, empty/short/long replacement texts, first/last field, repeats then replacement, table ++ table, nested concatenations, operands with replaced columns] files of 1-5 records for BED/BED6/narrowPeak/VCF(VCFBuffer and VCFBuffer2, with and without genotype columns)/SAM '
        '(0-3 optional tags)/GTF/FASTQ(+name lines)/two-line FASTA/BAM with non-canonical spellings (leading zeros, +5, 1e3), '
        'LF and CRLF; programs = trees of selections (slice, step incl. negative, mask, int list with repeats, single index), '
        'concatenations (2-3 operands), replacements of 1-3 fields and intermediate writes; exhaustive index-menu programs of '
        'length <= 2 on 3-record BED6/FASTQ files.  Non-trivial = the program is not the identity and the records have unequal lengths')
EXHAUSTIVE = {'quick': False, 'thorough': False}
TIE = ('translator+correspondence: Gen/C04.v (translate/gen_c04.py) bridged to the model by Bridge/C04.v (C04_source_tie); Model.C04.model_out (from_raw_buffer offset tables, getitem, _make_contigous, concatenate, '
       'get_field / rest-of-line / SAM extra, lazy get_buffer, BAM block chain) evaluated in Coq on the file bytes and the program')
ASSUMPTIONS = ['A-IO: the whole file reaches from_raw_buffer in one chunk (bnp.open(..).read()); chunked reading is C01',
               'replaced values are handed to Coq as their canonical text (str(int), the given strings); number formatting is C03/C18',
               'index expressions are resolved by NumPy on np.arange(n) in the harness: that is the meaning of "NumPy-style indexing"',
               'eager (parsed) tables: text -> value -> text is the identity except for int columns (re-spelled canonically)']
PARTIAL = ['END-TO-END THEOREMS (file bytes -> written bytes satisfy the byte-level Spec, files of any size): every accepted program incl. '
           'field replacements for BED/BED6/narrowPeak (columns = entry fields), VCFBuffer on 8-column files (C04_delimited_program_end_to_end; '
           'LF both variants, CRLF repaired extractor), VCFBuffer2 with genotype columns (C04_vcf2_program_crlf_end_to_end, LF and CRLF), SAM with optional '
           'tags (C04_sam_program_crlf_end_to_end, LF and CRLF, repaired join), FASTQ / two-line FASTA incl. replaced fields and np.concatenate '
           '(eager from_data path), LF and CRLF (C04_oneline_program_end_to_end, invariant C04_oneline_rows); every selection program for BAM (C04_bam_end_to_end)',
           'still correspondence-only at byte level: GTF (read eagerly: known finding), BedBuffer/VCFBuffer files with more columns than the entry '
           'type under replacement (known finding: trailing columns dropped); for these the abstraction-level '
           'theorem C04_program_write + the per-file hypothesis check Corr.C04.hyp_ok + spec_ok per case apply',
           'history (explicit `pinned` variant, code before /repo ddae115): C04_fastq_lazy_quality_refuted — a LAZY FASTQ table with a replaced quality column was refused by the writer; '
           'repaired: C04_oneline_write_total (nothing is refused for FASTQ/FASTA), quality replacement on lazy tables and mixed eager+lazy np.concatenate operands '
           '(/repo 5965ca7) are ordinary generated programs covered by C04_oneline_program_end_to_end',
           'refuted for the code before fix-1/fix-2 (kept as history, explicit `pinned` variant): C04_crlf_selection_pinned_refuted, '
           'C04_sam_replace_pinned_refuted; still refuted at HEAD: C04_trailing_columns_pinned_refuted, C04_gtf_pinned_refuted',
           'concatenation of tabular operands (BED/VCF/SAM) that already carry replaced fields is outside the model (C05 covers it)']
PER_FILE = 24

# ----------------------------------------------------------------------------- formats
FMT_COQ = {'bed': '(FDelim 3)', 'bed6': '(FDelim 6)', 'np': '(FDelim 10)', 'vcf': '(FVcf 8)', 'vcf2': '(FVcf 9)',
           'sam': 'FSam', 'fastq': 'FFastq', 'fasta': 'FFasta', 'bam': 'FBam', 'gtf': 'FGtf'}
SUFFIX = {'bed': '.bed', 'bed6': '.bed', 'np': '.narrowPeak', 'vcf': '.vcf', 'vcf2': '.vcf', 'sam': '.sam',
          'fastq': '.fq', 'fasta': '.fa', 'bam': '.bam', 'gtf': '.gtf'}
NF = {'bed': 3, 'bed6': 6, 'np': 10, 'vcf': 8, 'vcf2': 9, 'sam': 12, 'fastq': 3, 'fasta': 2, 'bam': 9, 'gtf': 9}
# replaceable entry fields: (field number, name, kind)
FIELDS = {
    'bed': [(0, 'chromosome', 'id'), (1, 'start', 'int'), (2, 'stop', 'int')],
    'bed6': [(0, 'chromosome', 'id'), (1, 'start', 'int'), (2, 'stop', 'int'), (3, 'name', 'id')],
    'np': [(0, 'chromosome', 'id'), (1, 'start', 'int'), (2, 'stop', 'int'), (3, 'name', 'id'), (9, 'summit', 'int')],
    'vcf': [(0, 'chromosome', 'id'), (1, 'position', 'int1'), (2, 'id', 'str'), (3, 'ref_seq', 'str'), (4, 'alt_seq', 'str'),
            (5, 'quality', 'str'), (6, 'filter', 'str')],
    'sam': [(0, 'name', 'id'), (1, 'flag', 'int'), (2, 'chromosome', 'id'), (3, 'position', 'int'), (4, 'mapq', 'int'),
            (5, 'cigar', 'str'), (6, 'next_chromosome', 'str'), (7, 'next_position', 'int'), (8, 'length', 'int'),
            (9, 'sequence', 'str'), (10, 'quality', 'str')],
    'fastq': [(0, 'name', 'id'), (1, 'sequence', 'str'), (2, 'quality', 'qual')],
    'fasta': [(0, 'name', 'id'), (1, 'sequence', 'str')],
    'gtf': [(0, 'chromosome', 'id'), (1, 'source', 'str'), (2, 'feature_type', 'id'), (3, 'start', 'int'), (4, 'stop', 'int'),
            (5, 'score', 'str'), (7, 'phase', 'str'), (8, 'atributes', 'str')],
    'bam': [(4, 'mapq', 'int'), (3, 'position', 'int')],
}
FIELDS['vcf2'] = FIELDS['vcf']
VCF_HEAD = '##fileformat=VCFv4.2\n#CHROM\tPOS\tID\tREF\tALT\tQUAL\tFILTER\tINFO'
SAM_HEAD = '@HD\tVN:1.0\tSO:unsorted\n@SQ\tSN:chr1\tLN:100000\n@SQ\tSN:chr22\tLN:5000\n'


def _eol(case_or_rec):
    return '\r\n' if case_or_rec['eol'] == 'crlf' else '\n'


def _raw(fmt, cols, eol, plus=None):
    if fmt == 'fastq':
        return '@' + cols[0] + eol + cols[1] + eol + '+' + (cols[2] if plus is None else plus) + eol + cols[3] + eol
    if fmt == 'fasta':
        return '>' + cols[0] + eol + cols[1] + eol
    if fmt == 'bam':
        return cols[0]
    return '\t'.join(cols) + eol


def _body(case):
    return ''.join(_raw(case['fmt'], r['cols'], _eol(r)) for r in case['recs']).encode('latin1')


# ----------------------------------------------------------------------------- BAM encoding (generator side)
def _bam_rec(name, refid, pos, mapq, flag, cigar, seq, qual, tags=b''):
    rn = name + b'\0'
    code = {c: i for i, c in enumerate('=ACMGRSVTWYHKDBN')}
    s = seq + ('=' if len(seq) % 2 else '')
    sb = bytes((code[s[i]] << 4) | code[s[i + 1]] for i in range(0, len(s), 2))
    cg = b''.join(struct.pack('<I', (l << 4) | 'MIDNSHP=X'.index(o)) for l, o in cigar)
    body = struct.pack('<iiBBHHHiiii', refid, pos, len(rn), mapq, 4680, len(cigar), flag, len(seq), -1, -1, 0) \
        + rn + cg + sb + bytes(qual) + tags
    return struct.pack('<i', len(body)) + body


def _bam_header():
    text = b'@HD\tVN:1.0\n@SQ\tSN:chr1\tLN:1000\n@SQ\tSN:chr2\tLN:500\n'
    h = b'BAM\1' + struct.pack('<i', len(text)) + text + struct.pack('<i', 2)
    for n, l in ((b'chr1', 1000), (b'chr2', 500)):
        h += struct.pack('<i', len(n) + 1) + n + b'\0' + struct.pack('<i', l)
    return h


# ----------------------------------------------------------------------------- record generators
CHROMS = ['chr1', 'chr22', 'c', 'chrX_alt', 'scaffold_0012', '1']
INTS = ['5', '01', '+5', '007', '120', '0', '00', '33', '+0012', '4096', '999999999']
NAMES = ['n1', 'name2', '.', 'peak_0003', 'x']
SCORES = ['1e3', '0.50', '.', '7', '+5', '0100', '1E-2']


def _seq(rng, lo=1, hi=12, alph='ACGTNacgt'):
    return ''.join(rng.choice(alph) for _ in range(rng.randint(lo, hi)))


def _gen_rec(fmt, rng, shape):
    c = rng.choice
    if fmt == 'bed':
        cols = [c(CHROMS), c(INTS), c(INTS)] + [c(NAMES), c(SCORES), c('+-.')][:shape.get('extra', 0)]
    elif fmt == 'bed6':
        cols = [c(CHROMS), c(INTS), c(INTS), c(NAMES), c(SCORES), c('+-.')]
    elif fmt == 'np':
        cols = [c(CHROMS), c(INTS), c(INTS), c(NAMES), c(SCORES), c('+-.'), c(SCORES), c(SCORES), c(['-1', '2.50', '1e3']), c(INTS)]
    elif fmt in ('vcf', 'vcf2'):
        cols = [c(CHROMS), c(INTS), c(['.', 'rs1', 'rs00123']), _seq(rng, 1, 4, 'ACGT'), c(['A', 'C,G', '<DEL>', '.']),
                c(SCORES), c(['PASS', '.', 'q10;s50']), c(['.', 'DP=5;AF=0.5', 'NS=3'])]
        if shape.get('samples', 0):
            cols += [c(['GT', 'GT:DP'])] + [c(['0|1', '1/1:4', './.', '0/0:007']) for _ in range(shape['samples'])]
    elif fmt == 'sam':
        s = _seq(rng, 1, 8, 'ACGT')
        cols = [c(['r1', 'read2', 'q']), c(['0', '16', '0099']), c(['chr1', 'chr22', '*']), c(INTS), c(['60', '0', '07']),
                c(['%dM' % len(s), '*']), c(['*', '=', 'chr1']), c(['0', '5', '010']), c(['0', '-3', '+12']), s,
                c(['*', ''.join(rng.choice('I#5?') for _ in s)])]
        cols += rng.sample(['NM:i:0', 'XX:Z:ab', 'AS:i:007', 'MD:Z:4'], rng.choice([0, 0, 1, 2, 3]))
    elif fmt == 'fastq':
        s = _seq(rng, 1, 10)
        name = c(['r1 desc', 'r2', 'read_0003/1', 'q'])
        cols = [name, s, c(['', name, name]), ''.join(rng.choice('I#5?+@') for _ in s)]
    elif fmt == 'fasta':
        cols = [c(['r1 desc', 'r2', 'contig_0003', 'q']), _seq(rng, 1, 14)]
    elif fmt == 'gtf':
        ints = INTS if shape.get('noncanon', True) else ['5', '120', '0', '33', '4096']
        cols = [c(CHROMS), c(['havana', 'src', '.']), c(['gene', 'exon', 'CDS']), c(ints), c(ints), c(['.', '1e3', '0.50']),
                c('+-.'), c(['.', '0', '2']), c(['gene_id "g1"; gene_name "x";', 'gene_id "g2";', 'transcript_id "t0007"; exon_number 2;'])]
    elif fmt == 'bam':
        s = _seq(rng, 1, 9, 'ACGT')
        tags = c([b'', b'', b'NMC\x00', b'XXZab\x00', b'NMC\x01XXZq\x00'])
        raw = _bam_rec(c([b'r1', b'read2', b'q']), c([0, 1]), rng.randint(0, 400), c([0, 7, 60]), c([0, 16]),
                       c([[(len(s), 'M')], [(1, 'S'), (max(len(s) - 1, 1), 'M')], []]), s, [rng.randint(0, 40) for _ in s], tags)
        return dict(cols=[raw.decode('latin1')], eol='none')
    return dict(cols=cols, eol=shape['eol'])


def _gen_file(fmt, rng, n, eol='lf', **shape):
    shape['eol'] = eol
    recs = [_gen_rec(fmt, rng, shape) for _ in range(n)]
    header = ''
    if fmt in ('vcf', 'vcf2'):
        header = VCF_HEAD + ('\tFORMAT' + ''.join('\tS%d' % i for i in range(shape.get('samples', 0))) if shape.get('samples', 0) else '') + '\n'
    elif fmt == 'sam':
        header = SAM_HEAD
    elif fmt == 'bam':
        header = _bam_header().decode('latin1')
    if eol == 'crlf':
        header = header.replace('\n', '\r\n')
    return dict(fmt=fmt, recs=recs, header=header)


# ----------------------------------------------------------------------------- programs
DTYPES = ['int8', 'int16', 'int32', 'int64', 'intp', 'uint8', 'uint16', 'uint32', 'uint64']


def _index_object(spec):
    """the Python object the user writes between the brackets, in exactly this spelling"""
    import numpy as np
    k = spec[0]
    if k == 'slice':
        return slice(spec[1], spec[2], spec[3])
    if k == 'mask':                     # boolean ndarray
        return np.array(spec[1], dtype=bool)
    if k == 'mask_list':                # plain list of Python bools, e.g. [n.startswith('keep') for n in names]
        return [bool(x) for x in spec[1]]
    if k == 'mask_nplist':              # list of np.bool_, e.g. list(mask)
        return [np.bool_(x) for x in spec[1]]
    if k == 'list':                     # plain list of Python ints (may be empty)
        return [int(x) for x in spec[1]]
    if k == 'list_np':                  # list of NumPy integers
        return [np.int64(x) for x in spec[1]]
    if k == 'array':
        return np.array(spec[1], dtype=int)
    if k == 'array_dt':
        return np.array(spec[2], dtype=spec[1])
    if k == 'single':                   # what t[i] does internally: t[[i]]
        return [int(spec[1])]
    if k == 'single_np':
        return [np.int32(spec[1])]
    raise ValueError(k)


def _resolve(spec, n):
    """NumPy's own reading of this index on n records"""
    import numpy as np
    return [int(x) for x in np.arange(n)[_index_object(spec)]]


def _gen_index(rng, n):
    r = rng.random()
    if n == 0:
        return rng.choice([['slice', None, None, None], ['slice', 0, 5, 2], ['mask', []], ['array', []], ['slice', None, None, -1],
                           ['list', []], ['array_dt', 'int32', []]])
    if r < 0.22:
        ends = [None] + list(range(-n - 1, n + 2))
        return ['slice', rng.choice(ends), rng.choice(ends), rng.choice([None, None, 1, 2, 3, -1, -1, -2])]
    if r < 0.45:
        return [rng.choice(['mask', 'mask', 'mask_list', 'mask_list', 'mask_nplist']), [rng.random() < 0.6 for _ in range(n)]]
    if r < 0.85:
        ints = [rng.randint(-n, n - 1) for _ in range(rng.choice([1, 2, n, n + 2]))]
        k = rng.choice(['list', 'list', 'array', 'list_np', 'array_dt'])
        if k == 'array_dt':
            dt = rng.choice(DTYPES)
            if dt.startswith('u'):
                ints = [i % n for i in ints]
            return ['array_dt', dt, ints]
        return [k, ints]
    if r < 0.9:
        return rng.choice([['array', []], ['list', []]])
    return [rng.choice(['single', 'single_np']), rng.randint(-n, n - 1)]


def _values(rng, fmt, j, kind, n):
    if kind in ('int', 'int1'):
        return [rng.choice([0, 7, 10, 99, 100, 12345, 5]) for _ in range(n)]
    if kind == 'id':
        return [rng.choice(['x', 'yy', 'zz9', 'chr5']) for _ in range(n)]
    if kind == 'qual':
        return [rng.choice(['', 'I', '#5', 'II?+@', '5555#####']) for _ in range(n)]
    if fmt in ('fastq', 'fasta') or (fmt == 'sam' and j == 9):
        return [rng.choice(['AA', 'C', 'GGGTTT', 'ACGTA']) for _ in range(n)]
    return [rng.choice(['v', 'w2', 'PASS', 'longer_text', '1e3']) for _ in range(n)]


def _text_of(kind, v):
    return str(v + 1) if kind == 'int1' else str(v)


def _gen_sel_chain(rng, fmt, p, n, depth):
    """p followed by 0..depth selections / touches."""
    for _ in range(depth):
        r = rng.random()
        if r < 0.7:
            spec = _gen_index(rng, n)
            sel = _resolve(spec, n)
            p = ['idx', spec, sel, p]
            n = len(sel)
        elif r < 0.9:
            p = ['touch', p]
    return p, n


def _gen_tree(rng, fmt, n_src, depth, cat_ok):
    """selection/concatenation tree without replacements."""
    if cat_ok and depth > 0 and rng.random() < 0.45:
        k = rng.choice([2, 2, 3])
        sub_cat_ok = cat_ok      # one-line buffers too: an eager operand next to lazy ones is an ordinary program (/repo 5965ca7)
        ops = [_gen_tree(rng, fmt, n_src, depth - 1, sub_cat_ok) for _ in range(k)]
        p = ['cat', [o[0] for o in ops]]
        n = sum(o[1] for o in ops)
        if fmt in ('fastq', 'fasta'):
            return _gen_sel_chain(rng, fmt, p, n, rng.choice([0, 1]))
        return _gen_sel_chain(rng, fmt, p, n, rng.choice([0, 1, 2]))
    return _gen_sel_chain(rng, fmt, ['src'], n_src, rng.choice([1, 1, 2, 3]))


def _gen_prog(rng, fmt, n_src, repl_prob=0.45, cat_ok=True):
    p, n = _gen_tree(rng, fmt, n_src, 2, cat_ok)
    if n > 0 and rng.random() < repl_prob:
        for j, name, kind in rng.sample(FIELDS[fmt], rng.choice([1, 1, 2, 3][:len(FIELDS[fmt])])):
            vals = _values(rng, fmt, j, kind, n)
            p = ['repl', j, name, kind, vals, p]
            if rng.random() < 0.25:
                p, n2 = _gen_sel_chain(rng, fmt, p, n, 1)
                if n2 == 0:
                    break
                n = n2
    return p


def _mk(file_case, prog):
    c = dict(file_case)
    c['prog'] = prog
    return c


MENU = [['slice', None, None, None], ['slice', None, None, -1], ['slice', 1, None, None], ['slice', None, -1, None],
        ['slice', None, None, 2], ['slice', 2, 0, -1], ['mask', [True, False, True]], ['mask', [False, True, True]],
        ['list', [2, 0, 0]], ['list', [1, 1, -1, 0]], ['single', 1], ['single', -1], ['array', []],
        ['mask_list', [True, False, True]], ['mask_nplist', [False, True, True]], ['list', []], ['list_np', [2, 0, 0]],
        ['array_dt', 'uint8', [2, 0, 0]], ['array_dt', 'int16', [1, 1, -1, 0]], ['single_np', -1]]


def _menu_for(n):
    out = []
    for m in MENU:
        if m[0] in ('mask', 'mask_list', 'mask_nplist'):
            if n == 0:
                continue
            m = [m[0], (m[1] * n)[:n]]
        if m[0] in ('list', 'list_np', 'array_dt', 'single', 'single_np') and n == 0 and m[-1] != []:
            continue
        if m[0] in ('list', 'list_np'):
            m = [m[0], [max(-n, min(n - 1, i)) for i in m[1]]]
        if m[0] == 'array_dt':
            m = ['array_dt', m[1], [(i % n if m[1].startswith('u') else max(-n, min(n - 1, i))) for i in m[2]]]
        if m[0] in ('single', 'single_np'):
            m = [m[0], max(-n, min(n - 1, m[1]))]
        out.append(m)
    return out


def generate(tier, seed):
    rng = random.Random(seed * 7919 + 4)
    cases = []
    quick = tier == 'quick'
    # (1) exhaustive menu programs of length 1 and 2 (+ touch between) on 3-record files
    for fmt, eol in (('bed6', 'lf'), ('fastq', 'lf'), ('bam', 'lf')) + ((('fastq', 'crlf'), ('sam', 'lf'), ('sam', 'crlf'), ('vcf2', 'lf'), ('fasta', 'lf')) if not quick else ()):
        f = _gen_file(fmt, rng, 3, eol, samples=2)
        for m1 in _menu_for(3):
            s1 = _resolve(m1, 3)
            cases.append(_mk(f, ['idx', m1, s1, ['src']]))
            for m2 in _menu_for(len(s1)):
                s2 = _resolve(m2, len(s1))
                inner = ['idx', m1, s1, ['src']]
                if (len(cases) % 2) == 0:
                    inner = ['touch', inner]
                cases.append(_mk(f, ['idx', m2, s2, inner]))
    # (2) random files x random programs
    plan = [('bed', 26), ('bed6', 40), ('np', 16), ('vcf', 28), ('vcf2', 30), ('sam', 40), ('fastq', 40), ('fasta', 24), ('bam', 24), ('gtf', 16)]
    mult = 1 if quick else 8
    for fmt, cnt in plan:
        for i in range(cnt * mult):
            n = rng.choice([1, 2, 3, 3, 4, 5])
            eol = 'crlf' if (fmt != 'bam' and i % 6 == 5) else 'lf'
            shape = {}
            if fmt == 'bed' and i % 7 == 3:
                shape['extra'] = rng.choice([1, 3])
            if fmt in ('vcf', 'vcf2'):
                shape['samples'] = rng.choice([0, 1, 2]) if fmt == 'vcf' else rng.choice([1, 2, 3])
            if fmt == 'gtf':
                shape['noncanon'] = (i % 4 == 0)
                if i % 4 != 0:
                    eol = 'lf'
            f = _gen_file(fmt, rng, n, eol, **shape)
            cases.append(_mk(f, _gen_prog(rng, fmt, n, repl_prob=(0.15 if fmt == 'bam' else 0.45), cat_ok=(fmt != 'bam' or i % 6 == 0))))
    # (3) selections that keep the first and the last record in place and select exactly as many bytes as the file holds:
    #     inner permutations, and an inner record dropped while an equally long one is repeated; also chained / after an
    #     intermediate write.  Records 1..3 of these files have equal byte length.
    lazy = ['bed', 'bed6', 'np', 'vcf', 'vcf2', 'sam', 'fastq', 'fasta', 'bam']
    for fmt in lazy:
        for rep in range(1 if quick else 4):
            for eol in (('lf',) if fmt == 'bam' else ('lf', 'crlf') if (rep == 0 and fmt in ('bed6', 'sam', 'fastq', 'fasta')) else ('lf',)):
                f = _gen_file_eq(fmt, rng, eol)
                for sel in ([0, 2, 1, 3, 4], [0, 1, 1, 3, 4], [0, 3, 3, 3, 4], [0, 3, 2, 1, 4], [0, 2, 2, 1, 4]):
                    base = ['idx', ['list', sel], list(sel), ['src']]
                    cases.append(_mk(f, base))
                rev = [4, 3, 2, 1, 0]
                cases.append(_mk(f, ['idx', ['list', [4, 2, 3, 1, 0]], [4, 2, 3, 1, 0], ['idx', ['slice', None, None, -1], rev, ['src']]]))
                cases.append(_mk(f, ['idx', ['list', [0, 2, 1, 3, 4]], [0, 2, 1, 3, 4], ['touch', ['idx', ['list', [0, 2, 1, 3, 4]], [0, 2, 1, 3, 4], ['src']]]]))
                cases.append(_mk(f, ['idx', ['list', [0, 1, 1, 3, 4]], [0, 1, 1, 3, 4], ['touch', ['idx', ['array', [0, 3, 2, 1, 4]], [0, 3, 2, 1, 4], ['src']]]]))
                cases.append(_mk(f, ['touch', ['idx', ['mask', [True] * 5], [0, 1, 2, 3, 4], ['idx', ['list', [0, 2, 1, 3, 4]], [0, 2, 1, 3, 4], ['src']]]]))
    # (4) sessions: several tables derived from one source (replacements on the source, on intermediate tables and on
    #     siblings), and the source / intermediate tables written AFTER the derived ones were made
    for fmt in ('bed', 'bed6', 'np', 'vcf', 'vcf2', 'sam', 'fastq', 'fasta'):
        for rep in range(4 if quick else 12):
            n = rng.choice([2, 3, 4])
            shape = {'samples': rng.choice([1, 2])} if fmt == 'vcf2' else {}
            f = _gen_file(fmt, rng, n, 'crlf' if (fmt in ('sam', 'bed6', 'vcf2', 'fastq') and rep % 3 == 2) else 'lf', **shape)
            cases.append(_gen_session(rng, fmt, f, n, rep))
    # (5) fields that were LOOKED AT before (parsed and cached on the table), then a selection, then another field
    #     assigned on the derived table (attribute assignment keeps the cache, bnp.replace drops it), then written
    INTF = {'bed': ['start', 'stop'], 'bed6': ['start', 'stop'], 'np': ['start', 'stop', 'summit'], 'vcf': ['position'],
            'vcf2': ['position'], 'sam': ['flag', 'position', 'mapq', 'next_position', 'length']}
    for fmt in sorted(INTF):
        for rep in range(4 if quick else 16):
            n = rng.choice([2, 3, 4, 5])
            shape = {'samples': rng.choice([1, 2])} if fmt == 'vcf2' else {}
            f = _gen_file(fmt, rng, n, 'crlf' if (fmt in ('sam', 'bed6') and rep % 4 == 1) else 'lf', **shape)
            looked = rng.sample(INTF[fmt], min(len(INTF[fmt]), rng.choice([1, 2])))
            p = ['src']
            for nm in looked:
                p = ['get', nm, p]
            spec = _gen_index(rng, n) if rep % 2 else ['slice', None, None, None]
            sel = _resolve(spec, n)
            if not sel:
                spec, sel = ['slice', None, None, -1], list(range(n))[::-1]
            p = ['idx', spec, sel, p]
            cand = [x for x in FIELDS[fmt] if x[1] not in looked]
            j, name, kind = rng.choice(cand)
            p = ['set' if rep % 4 != 3 else 'repl', j, name, kind, _values(rng, fmt, j, kind, len(sel)), p]
            if rep % 3 == 0:
                spec2 = _gen_index(rng, len(sel))
                sel2 = _resolve(spec2, len(sel))
                p = ['idx', spec2, sel2, p]
            cases.append(_mk(f, p))
    # (6) round 6 — the classes that now have byte-level theorems, with boundary inputs:
    #     FASTQ / two-line FASTA with replaced fields (lazy) and after np.concatenate (eager, from_data), CRLF VCFBuffer2 / SAM
    #     with replaced fields: empty sequences, one-record files, replacement by longer / shorter / empty texts, the first
    #     and the last field of the record, selections with repeats followed by replacement (and the converse),
    #     concatenation of a table with itself, nested concatenations, operands that carry replaced columns
    cases += _gen_round6(rng, quick)
    return cases


TEXTS = {'id': ['', 'x', 'a_much_longer_name 12/1'], 'str': ['', 'A', 'ACGTACGTACGTNNAC'], 'qual': ['', 'I', '#5?+@II5#'],
         'int': [0, 7, 123456789], 'int1': [0, 7, 123456789]}


def _boundary_file(fmt, rng, n, eol, k):
    """n records; record (k mod n) has an empty sequence (FASTQ/FASTA), SAM: first record without tags"""
    shape = {'samples': 1 + k % 3}
    f = _gen_file(fmt, rng, n, eol, **shape)
    r = f['recs'][k % n]
    if fmt == 'fastq':
        r['cols'][1] = ''
        r['cols'][3] = ''
    elif fmt == 'fasta':
        r['cols'][1] = ''
    elif fmt == 'sam':
        f['recs'][0]['cols'] = f['recs'][0]['cols'][:11]
    return f


def _texts(kind, n, k):
    """n replacement texts: all empty / all short / all long / mixed, by k"""
    t = TEXTS[kind]
    if k % 4 == 3:
        return [t[(i + k) % 3] for i in range(n)]
    return [t[k % 4]] * n


def _r6_repl(fld, n, k, p):
    j, name, kind = fld
    return ['repl', j, name, kind, _texts(kind, n, k), p]


def _gen_round6(rng, quick):
    out = []
    k = 0
    for fmt in ('fastq', 'fasta'):
        flds = list(FIELDS[fmt])
        first, last = flds[0], flds[-1]
        for eol in ('lf', 'crlf'):
            for n in (1, 2, 3):
                for rep in range(1 if quick else 3):
                    f = _boundary_file(fmt, rng, n, eol, k)
                    sel = [n - 1, 0, 0]
                    S = ['idx', ['list', sel], list(sel), ['src']]
                    ident = ['idx', ['slice', None, None, None], list(range(n)), ['src']]
                    for fld in flds:
                        k += 1
                        out.append(_mk(f, _r6_repl(fld, n, k, ['src'])))                        # replacement on the table as read
                        out.append(_mk(f, _r6_repl(fld, 3, k + 1, S)))                          # repeats, then replacement
                        out.append(_mk(f, ['idx', ['list', [2, 2, 0]], [2, 2, 0], _r6_repl(fld, 3, k + 2, S)]))   # ... then selection
                        out.append(_mk(f, _r6_repl(fld, 3, k + 3, ['touch', S])))               # after an intermediate write
                        both = ['cat', [['src'], ['src']]]
                        out.append(_mk(f, _r6_repl(fld, 2 * n, k, both)))                          # table ++ table, replaced
                        out.append(_mk(f, ['idx', ['list', [2 * n - 1, 0, 0, n]], [2 * n - 1, 0, 0, n], _r6_repl(fld, 2 * n, k + 3, both)]))
                        out.append(_mk(f, _r6_repl(fld, 4, k + 1, ['touch', ['cat', [S, ['idx', ['list', [0]], [0], ['src']]]]])))
                        other = last if fld is first else first
                        out.append(_mk(f, _r6_repl(other, n, k + 2, _r6_repl(fld, n, k + 1, ['src']))))   # first and last field
                        out.append(_mk(f, ['cat', [_r6_repl(fld, n, k + 3, ['src']), ['src']]]))                # operand with a replaced column
                        out.append(_mk(f, ['cat', [_r6_repl(fld, 3, k, S), _r6_repl(fld, n, k + 1, ident)]]))
                        # MIXED operands: an eager table (an earlier concatenation) next to lazy ones, either order, with replaced columns
                        out.append(_mk(f, ['cat', [both, _r6_repl(fld, 3, k + 2, S)]]))
                        out.append(_mk(f, ['cat', [_r6_repl(fld, n, k + 1, ['src']), ['touch', both], ['src']]]))
                        out.append(_mk(f, _r6_repl(fld, 3 * n, k + 3, ['cat', [['src'], _r6_repl(fld, 2 * n, k, both)]])))
                        out.append(_mk(f, _r6_repl(last, 2 * n, k + 2, _r6_repl(first, 2 * n, k + 3, both))))     # first and last, eager
                    out.append(_mk(f, both))
                    out.append(_mk(f, ['idx', ['list', [0, 2 * n - 1, 0]], [0, 2 * n - 1, 0], ['touch', both]]))
                    out.append(_mk(f, ['cat', [['cat', [['src'], S]], ['cat', [ident]]]]))                         # nested, all operands eager
                    out.append(_mk(f, ['cat', [['idx', ['list', []], [], ['src']], ['idx', ['array', []], [], ['src']]]]))
                    out.append(_mk(f, ['cat', [['idx', ['list', []], [], ['src']], S, ['src']]]))
                    out.append(_mk(f, ['cat', [both, ['src']]]))                                                    # mixed: eager first
                    out.append(_mk(f, ['idx', ['list', [3 * n - 1, 0, n]], [3 * n - 1, 0, n], ['cat', [['src'], both]]]))   # mixed: lazy first
                    out.append(_mk(f, ['cat', [['idx', ['list', []], [], both], S]]))                               # empty eager operand
    for fmt in ('vcf2', 'sam'):
        flds = FIELDS[fmt]
        first, last = flds[0], flds[-1]
        for eol in ('crlf', 'lf'):
            for n in (1, 2, 3):
                for rep in range(1 if (quick or eol == 'lf') else 3):
                    f = _boundary_file(fmt, rng, n, eol, k)
                    sel = [n - 1, 0, 0]
                    S = ['idx', ['list', sel], list(sel), ['src']]
                    both = ['cat', [['src'], ['src']]]
                    for fld in (first, last, flds[1 + k % (len(flds) - 2)]):
                        k += 1
                        out.append(_mk(f, _r6_repl(fld, n, k, ['src'])))
                        out.append(_mk(f, _r6_repl(fld, 3, k + 1, S)))
                        out.append(_mk(f, ['idx', ['list', [2, 2, 0]], [2, 2, 0], _r6_repl(fld, 3, k + 2, S)]))
                        out.append(_mk(f, _r6_repl(fld, 3, k + 3, ['touch', S])))
                        out.append(_mk(f, _r6_repl(fld, 2 * n, k, both)))
                        out.append(_mk(f, ['idx', ['list', [2 * n - 1, 0, 0, n]], [2 * n - 1, 0, 0, n], _r6_repl(fld, 2 * n, k + 3, ['touch', both])]))
                    out.append(_mk(f, _r6_repl(last, n, k + 2, _r6_repl(first, n, k + 1, ['src']))))
                    out.append(_mk(f, _r6_repl(last, 2 * n, k, _r6_repl(first, 2 * n, k + 3, both))))
    return out


def _gen_file_eq(fmt, rng, eol):
    f = _gen_file(fmt, rng, 5, eol, samples=2)
    recs = f['recs']
    for i in (2, 3):
        r = dict(cols=list(recs[1]['cols']), eol=recs[1]['eol'])
        if fmt == 'bam':
            raw = bytearray(r['cols'][0].encode('latin1'))
            raw[36] = ord('x') + i          # first character of the read name
            r['cols'][0] = bytes(raw).decode('latin1')
        else:
            c = r['cols'][0]
            r['cols'][0] = c[:-1] + 'wxyz'[i]
        recs[i] = r
    return f


def _repl(rng, fmt, n, p, exclude=()):
    j, name, kind = rng.choice([x for x in FIELDS[fmt] if x[0] not in exclude])
    return ['repl', j, name, kind, _values(rng, fmt, j, kind, n), p], j


def _gen_session(rng, fmt, f, n, variant):
    c = dict(f)
    v = variant % 4
    if v == 3:      # a basic slice of the source (NumPy views of its offset arrays) is written, THEN the source is used again
        spec = rng.choice([['slice', 1, None, None], ['slice', 1, None, 2], ['slice', None, None, -1], ['slice', -2, None, None]])
        sel = _resolve(spec, n)
        perm = list(range(n))
        rng.shuffle(perm)
        p2, _ = _repl(rng, fmt, n, ['src'])
        c['progs'] = [['touch', ['idx', spec, sel, ['src']]], ['idx', ['list', perm], perm, ['src']], p2,
                      ['idx', ['slice', None, None, None], list(range(n)), ['src']]]
        c['writes'] = [0, 1, 2, 3]
        return c
    if v == 0:      # t1 = replace(t, a); t2 = replace(t1, b); everything is written, the source last
        p1, j1 = _repl(rng, fmt, n, ['src'])
        p2, _ = _repl(rng, fmt, n, ['ref', 1], exclude=(j1,))
        c['progs'] = [['src'], p1, p2]
        c['writes'] = [1, 2, 0]
    elif v == 1:    # two siblings of one source with different replaced columns
        p1, j1 = _repl(rng, fmt, n, ['src'])
        p2, _ = _repl(rng, fmt, n, ['src'], exclude=(j1,))
        c['progs'] = [p1, p2, ['src']]
        c['writes'] = [0, 1, 2]
    else:           # a selection, a replaced copy of it, a replaced copy of the copy; the selection is written last
        spec = _gen_index(rng, n)
        sel = _resolve(spec, n)
        if not sel:
            spec, sel = ['slice', None, None, -1], list(range(n))[::-1]
        s0 = ['idx', spec, sel, ['src']]
        p1, j1 = _repl(rng, fmt, len(sel), ['ref', 0])
        p2, _ = _repl(rng, fmt, len(sel), ['touch', ['ref', 1]], exclude=(j1,))
        c['progs'] = [s0, p1, p2]
        c['writes'] = [2, 1, 0]
    return c


# ----------------------------------------------------------------------------- implementation runner
def _has_raw(p, kinds):
    if p[0] in kinds:
        return True
    if p[0] == 'cat':
        return any(_has_raw(q, kinds) for q in p[1])
    if p[0] in ('src', 'ref'):
        return False
    return _has_raw(p[-1], kinds)


def _has(p, kinds):
    if p[0] in kinds:
        return True
    if p[0] == 'cat':
        return any(_has(q, kinds) for q in p[1])
    if p[0] == 'src':
        return False
    return _has(p[-1], kinds)


def observe(case):
    import numpy as np
    import bionumpy as bnp
    from bionumpy.io.delimited_buffers import Bed6Buffer
    from bionumpy.io.one_line_buffer import TwoLineFastaBuffer
    from bionumpy.io.vcf_buffers import VCFBuffer2
    from bionumpy.string_array import as_string_array
    fmt = case['fmt']
    bt = {'bed6': Bed6Buffer, 'fasta': TwoLineFastaBuffer, 'vcf2': VCFBuffer2}.get(fmt)
    d = tempfile.mkdtemp(prefix='c04_')
    try:
        path = os.path.join(d, 'in' + SUFFIX[fmt])
        content = case['header'].encode('latin1') + _body(case)
        open(path, 'wb').write(gzip.compress(content) if fmt == 'bam' else content)
        counter = [0]

        def write(t, name):
            q = os.path.join(d, name + SUFFIX[fmt])
            with bnp.open(q, 'w', buffer_type=bt) as w:
                w.write(t)
            return q

        def value_obj(kind, vals):
            if kind in ('int', 'int1'):
                return np.array(vals, dtype=int)
            if kind == 'id':
                return as_string_array(list(vals))
            if kind == 'qual':      # FASTQ qualities: what table.quality holds — a RaggedArray of phred values
                from npstructures import RaggedArray
                flat = np.array([ord(ch) - 33 for x in vals for ch in x], dtype=np.uint8)
                return RaggedArray(flat, [len(x) for x in vals])
            return bnp.as_encoded_array(list(vals))

        def ev(p, src):
            k = p[0]
            if k == 'src':
                return src[0]
            if k == 'ref':
                st, val = src[1][p[1]]
                if st == 'err':
                    raise val
                return val
            if k == 'idx':
                t = ev(p[3], src)
                spec = p[1]
                return t[_index_object(spec)]
            if k == 'cat':
                return np.concatenate([ev(q, src) for q in p[1]])
            if k == 'touch':
                t = ev(p[1], src)
                counter[0] += 1
                write(t, 'scratch%d' % counter[0])
                return t
            if k == 'get':          # the user looks at a field (it is parsed and cached on the table); the table is unchanged
                t = ev(p[2], src)
                getattr(t, p[1])
                return t
            if k == 'set':          # attribute assignment on a freshly derived table: same meaning as bnp.replace
                t = ev(p[5], src)
                v = value_obj(p[3], p[4])
                setattr(t, p[2], v)
                return t
            if k == 'repl':
                t = ev(p[5], src)
                v = value_obj(p[3], p[4])
                return bnp.replace(t, **{p[2]: v})
            raise ValueError(k)
        progs, writes = _session(case)
        values = []

        runs = []
        try:
            f = bnp.open(path, buffer_type=bt)
            src = f.read()
        except Exception as e:   # unreadable file (SAM/CRLF): every table fails the same way
            return dict(runs=[dict(error=type(e).__name__, msg=str(e)[:120]) for _ in writes])
        try:
            for p in progs:
                try:
                    values.append(('ok', ev(p, (src, values))))
                except Exception as e:   # an exception is an observation here (e.g. BAM concatenation)
                    values.append(('err', e))
            for k, w in enumerate(writes):
                st, val = values[w]
                if st == 'err':
                    runs.append(dict(error=type(val).__name__, msg=str(val)[:120]))
                    continue
                try:
                    q = write(val, 'out%d' % k)
                except Exception as e:   # BAM refuses modified writes
                    runs.append(dict(error=type(e).__name__, msg=str(e)[:120]))
                    continue
                out = open(q, 'rb').read()
                if fmt == 'bam':
                    eof = out[-28:] == bnp.io.parser.NumpyBamWriter.EOF_MARKER
                    runs.append(dict(out=gzip.decompress(out).decode('latin1'), bam_eof=bool(eof)))
                else:
                    runs.append(dict(out=out.decode('latin1')))
        finally:
            f.close()
        return dict(runs=runs)
    finally:
        shutil.rmtree(d, ignore_errors=True)


# ----------------------------------------------------------------------------- Coq emission
def _prog_coq(p):
    k = p[0]
    if k == 'src':
        return 'PSrc'
    if k == 'idx':
        return '(PIdx %s %s)' % (clist([cz(i) for i in p[2]], 'Z'), _prog_coq(p[3]))
    if k == 'cat':
        return '(PCat %s)' % clist([_prog_coq(q) for q in p[1]], 'prog')
    if k == 'touch':
        return '(PTouch %s)' % _prog_coq(p[1])
    if k == 'repl':
        return '(PRepl %s %s %s)' % (cz(p[1]), clist([hx(_text_of(p[3], v).encode('latin1')) for v in p[4]], '(list Z)'), _prog_coq(p[5]))
    raise ValueError(k)


def _session(case):
    """(programs, indices of the tables that are written).  A program may refer to an earlier table with ['ref', k]."""
    if 'progs' in case:
        return case['progs'], case.get('writes', list(range(len(case['progs']))))
    return [case['prog']], [0]


def _inline(p, progs):
    k = p[0]
    if k == 'ref':
        return _inline(progs[p[1]], progs)
    if k == 'src':
        return p
    if k == 'cat':
        return ['cat', [_inline(q, progs) for q in p[1]]]
    return list(p[:-1]) + [_inline(p[-1], progs)]


def _norm(p):
    """the program as the Coq model reads it: looking at a field changes nothing; attribute assignment = replace"""
    k = p[0]
    if k in ('src', 'ref'):
        return p
    if k == 'get':
        return _norm(p[2])
    if k == 'cat':
        return ['cat', [_norm(q) for q in p[1]]]
    q = list(p[:-1]) + [_norm(p[-1])]
    if k == 'set':
        q[0] = 'repl'
    return q


def _subcases(case, o):
    """per written table: (the case with that table's program, references expanded; its observation)"""
    progs, writes = _session(case)
    out = []
    for k, w in enumerate(writes):
        c = dict(case)
        c.pop('progs', None)
        c.pop('writes', None)
        c['prog'] = _norm(_inline(progs[w], progs))
        ro = o['runs'][k] if isinstance(o, dict) and 'runs' in o and k < len(o['runs']) else dict(error='missing')
        out.append((c, ro))
    return out


def to_coq(case, o):
    recs = clist(['{| g_cols := %s; g_eol := %s |}' % (
        clist([hx(c.encode('latin1')) for c in r['cols']], '(list Z)'),
        hx(b'' if r['eol'] == 'none' else _eol(r).encode())) for r in case['recs']], 'grec')
    runs = []
    for c, ro in _subcases(case, o):
        if 'error' in ro:
            out = '(@None (list Z))'
        else:
            ob = ro['out'].encode('latin1')
            if case['fmt'] == 'bam' and not ro.get('bam_eof', False):
                ob = b'\xff' + ob          # a BAM file without the end-of-file block is not a valid output: no model/spec accepts it
            out = '(Some %s)' % hx(ob)
        runs.append('(%s, %s)' % (_prog_coq(c['prog']), out))
    return ('{| k_fmt := %s; k_recs := %s; k_header := %s; k_file := %s; k_runs := %s |}' % (
        FMT_COQ[case['fmt']], recs, hx(case['header'].encode('latin1')), hx(_body(case)),
        clist(runs, '(prog * option (list Z))')))


# ----------------------------------------------------------------------------- python mirror of the spec (classification only)
def _spec_rows(case, p, recs=None):
    fmt = case['fmt']
    if recs is None:
        recs = case['recs']
    k = p[0]
    if k == 'src':
        return [dict(cols=list(r['cols']), raw=_raw(fmt, r['cols'], '' if r['eol'] == 'none' else _eol(r)),
                     eol='' if r['eol'] == 'none' else _eol(r)) for r in recs], True
    if k == 'idx':
        rows, pure = _spec_rows(case, p[3], recs)
        return [dict(rows[i]) for i in p[2]], pure
    if k == 'cat':
        out = []
        for q in p[1]:
            out += _spec_rows(case, q, recs)[0]
        return out, False
    if k == 'touch':
        return _spec_rows(case, p[1], recs)
    if k == 'repl':
        rows, _ = _spec_rows(case, p[5], recs)
        j = p[1]
        cj = 3 if (fmt == 'fastq' and j == 2) else j
        out = []
        for r, v in zip(rows, p[4]):
            r = dict(r)
            r['cols'] = list(r['cols'])
            if cj < len(r['cols']):
                r['cols'][cj] = _text_of(p[3], v)
            out.append(r)
        return out, False
    raise ValueError(k)


def _spec_ok_py(case, body, recs=None):
    """mirror of Model.C04.spec_out_ok (text body after the header); used only to classify failing cases"""
    fmt = case['fmt']
    rows, pure = _spec_rows(case, case['prog'], recs)
    if pure:
        return body == ''.join(r['raw'] for r in rows)
    for r in rows:
        vs = []
        for e in (r['eol'], '\n'):
            if fmt == 'fastq':
                vs += [_raw(fmt, r['cols'], e), _raw(fmt, r['cols'], e, plus='')]
            else:
                vs.append(_raw(fmt, r['cols'], e))
        for v in vs:
            if body.startswith(v):
                body = body[len(v):]
                break
        else:
            return False
    return body == ''


def _body_of(case, o):
    if 'out' not in o or not o['out'].startswith(case['header']):
        return None
    return o['out'][len(case['header']):]


def _canon_int(t):
    s = t
    neg = s.startswith('-')
    if s[:1] in '+-':
        s = s[1:]
    s = s.lstrip('0') or '0'
    return ('-' if neg and s != '0' else '') + s


def _finding1(case, o):
    fmt = case['fmt']
    crlf = any(r['eol'] == 'crlf' for r in case['recs'])
    body = _body_of(case, o)
    if body is None:
        return None
    if fmt == 'gtf':
        # eager read: int columns re-spelled, CRLF -> LF; everything else as the spec says
        recs = [dict(cols=[_canon_int(c) if k in (3, 4) else c for k, c in enumerate(r['cols'])], eol='lf') for r in case['recs']]
        if recs != case['recs'] and _spec_ok_py(case, body, recs):
            return 'C04-gtf-read-eagerly-text-canonicalised'
        return None
    if fmt in ('bed', 'bed6', 'np', 'vcf', 'vcf2') and crlf:
        # every record stops before its '\n': re-insert it after each bare '\r'
        fixed = body.replace('\r\n', '\r').replace('\r', '\r\n')
        if fixed != body and _spec_ok_py(case, fixed):
            return 'C04-crlf-delimited-selection-drops-newline'
    if fmt in ('bed', 'vcf') and _has(case['prog'], ('repl',)) and any(len(r['cols']) > NF[fmt] for r in case['recs']):
        recs = [dict(cols=r['cols'][:NF[fmt]], eol=r['eol']) for r in case['recs']]
        if _spec_ok_py(case, body, recs):
            return 'C04-trailing-columns-dropped-on-replace'
    if fmt == 'sam' and _has(case['prog'], ('repl',)) and any(len(r['cols']) == 11 for r in case['recs']):
        # rows without optional tags gain a TAB before the line end
        rows, _ = _spec_rows(case, case['prog'])
        exp = ''.join('\t'.join(r['cols']) + ('\t' if len(r['cols']) == 11 else '') + '\n' for r in rows)
        if body == exp:
            return 'C04-sam-trailing-tab-on-replace'
    return None


def _signature1(case, o):
    return '%s/%s/%s/%s' % (case['fmt'], 'crlf' if any(r['eol'] == 'crlf' for r in case['recs']) else 'lf',
                            'repl' if _has(case['prog'], ('repl',)) else ('cat' if _has(case['prog'], ('cat',)) else 'sel'),
                            o.get('error', 'out'))


def _explain1(case, o):
    body = _body_of(case, o)
    rows, pure = _spec_rows(case, case['prog'])
    return dict(file=(case['header'] + _body(case).decode('latin1')), pure_selection=pure,
                expected_if_pure=''.join(r['raw'] for r in rows) if pure else None,
                expected_rows=[r['cols'] for r in rows] if case['fmt'] != 'bam' else None,
                observed_body=body, error=o.get('error'))


def _identity(p, n):
    if p[0] == 'src':
        return True
    if p[0] == 'idx':
        return p[2] == list(range(len(p[2]))) and _identity(p[3], n) and len(p[2]) == n
    if p[0] == 'touch':
        return _identity(p[1], n)
    return False


def _nontrivial1(case, o):
    lens = set(len(_raw(case['fmt'], r['cols'], '')) for r in case['recs'])
    return len(lens) > 1 and not _identity(case['prog'], len(case['recs']))


def _describe1(case, o):
    return dict(fmt=case['fmt'], file=(case['header'] if case['fmt'] != 'bam' else '<bam header>') +
                (_body(case).decode('latin1') if case['fmt'] != 'bam' else '<%d bam records>' % len(case['recs'])),
                prog=_show(case['prog']), out=(o.get('out') if case['fmt'] != 'bam' else '<bam>'), error=o.get('error'))


def _show(p):
    k = p[0]
    if k == 'src':
        return 't'
    if k == 'ref':
        return 't%d' % p[1]
    if k == 'get':
        return 'looked_at(%s, .%s)' % (_show(p[2]), p[1])
    if k == 'set':
        return 'assigned(%s, .%s=%r)' % (_show(p[5]), p[2], p[4])
    if k == 'idx':
        s = p[1]
        if s[0] == 'slice':
            ix = '%s:%s:%s' % tuple('' if x is None else x for x in s[1:4])
        elif s[0] in ('single', 'single_np'):
            ix = '[%s%d]' % ('np.int32 ' if s[0] == 'single_np' else '', s[1])
        elif s[0] == 'array_dt':
            ix = 'np.array(%r, %s)' % (s[2], s[1])
        elif s[0] in ('mask_list', 'mask_nplist', 'list_np', 'array', 'mask'):
            ix = '%s %r' % (s[0], s[1])
        else:
            ix = repr(s[1])
        return '%s[%s]' % (_show(p[3]), ix)
    if k == 'cat':
        return 'cat(%s)' % ', '.join(_show(q) for q in p[1])
    if k == 'touch':
        return 'written(%s)' % _show(p[1])
    return 'replace(%s, %s=%r)' % (_show(p[5]), p[2], p[4])


def _run_fails(c, ro):
    body = _body_of(c, ro)
    if body is None:
        return not (c['fmt'] == 'bam' and 'error' in ro and _has(c['prog'], ('cat', 'repl')))
    return not _spec_ok_py(c, body)


def finding(case, o):
    """id of a known finding only if EVERY table of the session that fails the property fails in exactly that way"""
    ids = set()
    for c, ro in _subcases(case, o):
        if _run_fails(c, ro):
            ids.add(_finding1(c, ro))
    if len(ids) == 1 and None not in ids:
        return ids.pop()
    return None


def signature(case, o):
    subs = _subcases(case, o)
    bad = [x for x in subs if _run_fails(*x)] or subs
    return _signature1(*bad[0]) + ('/multi' if len(subs) > 1 else '')


def explain(case, o):
    return [_explain1(c, ro) for c, ro in _subcases(case, o)]


def nontrivial(case, o):
    return any(_nontrivial1(c, ro) for c, ro in _subcases(case, o))


def describe(case, o):
    subs = _subcases(case, o)
    d = _describe1(*subs[0])
    if len(subs) > 1:
        progs, writes = _session(case)
        d['session'] = ['t%d = %s' % (i, _show(p)) for i, p in enumerate(progs)]
        d['written'] = ['t%d' % w for w in writes]
        d['outs'] = [ro.get('out', ro.get('error')) if case['fmt'] != 'bam' else '<bam>' for _, ro in subs]
    return d


def distribution(cases, obs):
    d = dict(fmt={}, crlf=0, with_concat=0, with_replace=0, with_touch=0, index_kinds={}, refused=0, records={})
    def walk(p):
        if p[0] == 'idx':
            d['index_kinds'][p[1][0]] = d['index_kinds'].get(p[1][0], 0) + 1
            walk(p[3])
        elif p[0] == 'cat':
            for q in p[1]:
                walk(q)
        elif p[0] != 'src':
            walk(p[-1])
    d['sessions_with_several_written_tables'] = 0
    for c, o in zip(cases, obs):
        progs, writes = _session(c)
        raw = [_inline(p, progs) for p in progs]
        d['with_field_read_or_assignment'] = d.get('with_field_read_or_assignment', 0) + any(_has_raw(p, ('get', 'set')) for p in raw)
        full = [_norm(p) for p in raw]
        d['fmt'][c['fmt']] = d['fmt'].get(c['fmt'], 0) + 1
        d['crlf'] += any(r['eol'] == 'crlf' for r in c['recs'])
        d['with_concat'] += any(_has(p, ('cat',)) for p in full)
        d['with_replace'] += any(_has(p, ('repl',)) for p in full)
        d['with_touch'] += any(_has(p, ('touch',)) for p in full)
        d['refused'] += isinstance(o, dict) and any('error' in r for r in o.get('runs', []))
        d['sessions_with_several_written_tables'] += len(writes) > 1
        k = str(len(c['recs']))
        d['records'][k] = d['records'].get(k, 0) + 1
        for p in full:
            walk(p)
    return d


def search(tier, seed, disagreeing):
    """after a broken obligation: many more programs on the formats of the disagreeing cases"""
    rng = random.Random(seed * 31 + 99)
    fmts = sorted(set(c['fmt'] for c in disagreeing)) or ['bed6', 'fastq', 'sam', 'vcf2', 'bam']
    out = []
    for fmt in fmts:
        for i in range(120):
            n = rng.choice([2, 3, 4, 5])
            f = _gen_file(fmt, rng, n, 'lf', samples=2)
            out.append(_mk(f, _gen_prog(rng, fmt, n, repl_prob=(0.0 if fmt == 'bam' else 0.4), cat_ok=(fmt != 'bam'))))
    return out

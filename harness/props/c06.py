"""C06 — alphabet encodings accept exactly their alphabet and never change the text."""
import itertools
import random

from harness.lib import hx, cz, clist, zl

ID = 'C06'
RULE = ('texts over each predefined (and a few custom) alphabet with upper/lower case mixed and one foreign byte at every '
        'position, through every input route (str, list, ndarray, base-encoded array / ragged array; enc.encode and '
        'bnp.as_encoded_array); the complete one-byte acceptance table 0..255 per alphabet; every ordered pair of alphabets '
        'x strings over the source for as_encoded_array re-targeting and bnp.change_encoding; the same three operations and '
        'enc.decode on not-yet-materialised lazy views built by prior indexing (reversed rows, permutation, repeated index, '
        'argsort of lengths, boolean mask, row slice not starting at 0, step, column slices, compositions), built fresh per '
        'call and handed over untouched, with the expected rows obtained by the same indexing on Python lists; numeric offset '
        'encodings (Digit/Quality/Cigar: every byte 0..255, all routes, encode-decode round trip); StringEncoding (label sets x '
        'known labels, near-miss unknown labels at every position, hash-colliding unknown labels); KmerEncoding (all k-mers for '
        'small n^k, largest k-mer, foreign letter at every position, wrong lengths); two-dimensional blocks (rows of equal length) '
        'in C order, Fortran order, as transposed views, column / row slices of larger blocks and negative strides through '
        'enc.encode, as_encoded_array, enc.decode, re-targeting and change_encoding, read back at every (row, column); sessions '
        'in one process: the same text encoded several times (str, list, ragged, ndarray, base-array inputs), earlier results '
        'edited in place (item, negative index, slice, broadcast, index list, mask, (row, column), whole row, a letter given as '
        'an EncodedArray of a permuted alphabet), then encoded again / decoded / change_encoding, every result re-read after '
        'all later calls.  Non-trivial = the text '
        'contains a foreign or lower-case character, or the pair is a cross-alphabet pair')
EXHAUSTIVE = {'quick': False, 'thorough': False}
TIE = 'translator+correspondence'
ASSUMPTIONS = ['str inputs are limited to latin-1 characters (code points 0..255); a non-ASCII character in a str raises '
               'UnicodeEncodeError, which the check counts as an encoding error',
               'alphabets are ASCII (all predefined ones are); NumPy fancy assignment with repeated indices keeps the last value',
               'numeric offset encodings are exercised on uint8 text (wrapping arithmetic) and, for decode, on int64 values',
               'StringEncoding label sets have no empty label (an empty label makes the constructor raise IndexError in '
               'ascii_hash.column_index_array) and pairwise distinct hashes (the constructor asserts it)',
               'translator reading conventions: see notes/C06.md (a 1-char str is its code point; element-wise NumPy read per element; '
               'tbl[idx]=vals assigns in order)']
PARTIAL = ['C06_lookup_pinned_partial, C06_encode_rows_pinned_partial, C06_change_encoding_pinned_partial, C06_retarget_pinned_partial: '
           'history — the guarded statements for the code before fixes c99b89e / f03a70b; the full statements and the link theorems '
           'are proved for the repaired variants, which are the ones in /repo',
           'C06_string_pinned_partial: StringEncoding at HEAD matches labels by hash only (finding C06-string-encoding-hash-only); '
           'C06_string_sound / C06_string_rejects_unknown / C06_link_string are proved for the variant of notes/C06.fix-3.diff',
           'EncodingError.offset is compared with the model (model_ok) and proved to be the first foreign position for the model '
           '(C06_encode_exact), but it is not part of spec_ok: the property text only says "raises an encoding error"',
           'KmerEncoding: C06_kmer_exact / C06_kmer_injective are model-level; there is no link theorem for case kind 6 '
           '(spec_ok is evaluated case by case)',
           '2-D blocks are exercised for alphabet encodings in six memory layouts; FlatAlphabetEncoding (strand) ravels 2-D input by design',
           'numeric offset encodings do not reject bytes below min_code (uint8 wrap, C06_numeric_u8_below_range_wraps); the property '
           'does not ask them to']
PER_FILE = 64

# name in bionumpy.encodings.alphabet_encoding -> constructor string (alphabet_encoding.py:105-125)
PRE = [('ACTGEncoding', 'ACTG'), ('ACGTEncoding', 'ACGT'), ('ACTGnEncoding', 'ACTGn'), ('ACGTnEncoding', 'ACGTn'),
       ('DigitEncoding', '0123456789'), ('ACUGEncoding', 'ACUG'), ('AminoAcidEncoding', 'ACDEFGHIKLMNPQRSTVWY*'),
       ('BamEncoding', '=ACMGRSVTWYHKDBN'), ('CigarOpEncoding', 'MIDNSHP=X'), ('StrandEncoding', '+-.')]
ALIAS = [('DNAEncoding', 'ACGT'), ('RNAENcoding', 'ACUG')]
CUSTOM = ['acgt', 'ACGT-', '01P', 'AB*', 'ZA@[']
DECL = dict(PRE + ALIAS)


def _decl(e):
    """constructor string of an encoding reference ('Base' | predefined name | 'custom:<alphabet>')"""
    if e == 'Base':
        return None
    return e[7:] if e.startswith('custom:') else DECL[e]


def _alpha(e):
    return [ord(c.upper()) for c in _decl(e)]


def _member(A, c):
    u = c - 32 if 97 <= c <= 122 else c
    return u in A


def _is_letter(a):
    return 65 <= a <= 90


def _interesting(A):
    s = {0, 9, 10, 32, 47, 48, 57, 58, 64, 65, 90, 91, 96, 97, 122, 123, 127, 128, 159, 223, 255}
    for a in A:
        s |= {a + 32, a - 32, a + 1, a - 1, a + 33, a + 31, (a + 32) if _is_letter(a) else a}
    return sorted(x for x in s if 0 <= x <= 255)


def _rcase(rng, c, p=0.35):
    return c + 32 if _is_letter(c) and rng.random() < p else c


def _s(bs):
    return bytes(bs).decode('latin1')


ENCS = [n for n, _ in PRE] + ['custom:' + c for c in CUSTOM]
FLAT_ROUTES = [0, 1, 3, 6]
LIST_ROUTES = [2, 4, 5]


def _gen_encode(tier, rng):
    cases = []
    k = 0

    def flat(e, bs):
        nonlocal k
        k += 1
        cases.append(dict(kind=0, route=FLAT_ROUTES[k % 4], dst=e, rows=[_s(bs)]))
    for e in ENCS:
        A = _alpha(e)
        n = len(A)
        inter = _interesting(A)
        foreign = [c for c in inter if not _member(A, c)]
        shifted = [a + 32 for a in A if not _is_letter(a) and not _member(A, a + 32)]
        fs = [(shifted or foreign)[0], rng.choice(foreign)]
        if tier != 'quick':
            fs += rng.sample(foreign, 2)
        # (a) every string up to a length over alphabet + one foreign byte, letters in random case
        maxlen = (3 if n <= 5 else 2) if tier == 'quick' else (4 if n <= 5 else (3 if n <= 10 else 2))
        for f in fs:
            syms = A + [f]
            for L in range(0, maxlen + 1):
                for t in itertools.product(syms, repeat=L):
                    flat(e, [_rcase(rng, c) for c in t])
        # longer sampled strings with one foreign byte at a random position
        for i in range(60 if tier == 'quick' else 400):
            L = rng.randint(3, 9)
            t = [_rcase(rng, rng.choice(A)) for _ in range(L)]
            if i % 3:
                t[rng.randrange(L)] = rng.choice(foreign)
            flat(e, t)
        # (b) byte sweep: a byte at positions of a valid context
        sweep = inter if tier == 'quick' else list(range(256))
        for b in sweep:
            ctx = [_rcase(rng, rng.choice(A)) for _ in range(3)]
            poss = rng.sample(range(4), 2) if tier == 'quick' else range(4)
            for p in poss:
                flat(e, ctx[:p] + [b] + ctx[p:])
        # (c) lists of strings: empty rows, all-empty, zero rows, one foreign byte at every position
        cases.append(dict(kind=0, route=2, dst=e, rows=[]))
        cases.append(dict(kind=0, route=5, dst=e, rows=['', '', '']))
        for i in range(24 if tier == 'quick' else 200):
            nrow = rng.randint(1, 5)
            rows = [[_rcase(rng, rng.choice(A)) for _ in range(rng.choice([0, 0, 1, 2, 3, 4]))] for _ in range(nrow)]
            if i % 2:
                r = rng.randrange(nrow)
                rows[r].insert(rng.randint(0, len(rows[r])), rng.choice(foreign if i % 4 == 1 else inter))
            cases.append(dict(kind=0, route=LIST_ROUTES[i % 3], dst=e, rows=[_s(r) for r in rows]))
        base = [[_rcase(rng, rng.choice(A)) for _ in range(L)] for L in (2, 0, 1)]
        f = fs[0]
        for r in range(3):
            for p in range(len(base[r]) + 1):
                rows = [list(x) for x in base]
                rows[r].insert(p, f)
                cases.append(dict(kind=0, route=LIST_ROUTES[(r + p) % 3], dst=e, rows=[_s(x) for x in rows]))
    return cases


def _gen_pairs(tier, rng):
    cases = []
    srcs = ENCS
    dsts = [n for n, _ in PRE] + ['custom:acgt', 'custom:01P', 'Base']
    for a in srcs:
        n = len(_alpha(a))
        for b in dsts:
            strings = [[]] + [[k] for k in range(n)]
            if tier == 'quick':
                strings += [[rng.randrange(n) for _ in range(rng.randint(2, 4))] for _ in range(4)]
            else:
                maxlen = 3 if n <= 5 else 2
                for L in range(2, maxlen + 1):
                    strings += [list(t) for t in itertools.product(range(n), repeat=L)]
                strings += [[rng.randrange(n) for _ in range(rng.randint(3, 8))] for _ in range(10)]
            ragged = [[[], []], [[rng.randrange(n)], [], [rng.randrange(n) for _ in range(3)]]]
            ragged += [[[rng.randrange(n) for _ in range(rng.choice([0, 1, 2, 3]))] for _ in range(rng.randint(1, 4))]
                       for _ in range(1 if tier == 'quick' else 6)]
            for kind in (1, 2):
                for s in strings:
                    cases.append(dict(kind=kind, route=0, src=a, dst=b, rows=[s]))
                for r in ragged:
                    cases.append(dict(kind=kind, route=2, src=a, dst=b, rows=r))
    return cases


# ----------------------------------------------------------------------------- lazy views
# A view is a list of indexing steps applied to a freshly built (Encoded)RaggedArray / EncodedArray; the result is a
# NOT-yet-materialised npstructures view (RaggedView / RaggedView2, non-contiguous) that is handed to the library
# untouched.  The same steps applied to plain Python lists give the rows the Coq side sees.
def _apply_view(rows, view, flat=False):
    x = list(rows[0]) if flat else [list(r) for r in rows]
    for op in view:
        k = op[0]
        if k == 'rev':
            x = x[::-1]
        elif k == 'perm':
            x = [x[i] for i in op[1]]
        elif k == 'mask':
            x = [r for r, m in zip(x, op[1]) if m]
        elif k == 'slice':
            x = x[op[1]:op[2]]
        elif k == 'step':
            x = x[::op[1]]
        elif k == 'col':
            x = [r[op[1]:op[2]] for r in x]
        else:
            raise ValueError(op)
    return [x] if flat else x


def _np_view(x, view):
    import numpy as np
    for op in view:
        k = op[0]
        if k == 'rev':
            x = x[::-1]
        elif k == 'perm':
            x = x[np.array(op[1], dtype=int)]
        elif k == 'mask':
            x = x[np.array(op[1], dtype=bool)]
        elif k == 'slice':
            x = x[op[1]:op[2]]
        elif k == 'step':
            x = x[::op[1]]
        elif k == 'col':
            x = x[:, op[1]:op[2]]
    return x


def _views(rng, nrow, lens, flat=False):
    """one view of every shape for a base with nrow rows (flat: nrow elements)"""
    perm = list(range(nrow))
    while nrow > 1 and perm == list(range(nrow)):
        rng.shuffle(perm)
    mask = [rng.random() < 0.6 for _ in range(nrow)]
    if all(mask):
        mask[rng.randrange(nrow)] = False
    a = rng.randint(1, max(1, nrow - 1))
    vs = [[('rev',)], [('perm', perm)], [('perm', [rng.randrange(nrow) for _ in range(nrow + 1)])],
          [('mask', mask)], [('slice', a, rng.randint(a, nrow))], [('slice', a, None)], [('step', 2)],
          [('perm', perm), ('rev',)], [('rev',), ('slice', 1, None)]]
    if not flat:
        vs += [[('perm', sorted(range(nrow), key=lambda i: (lens[i], i)))],        # ra[np.argsort(lengths)]
               [('perm', sorted(range(nrow), key=lambda i: (-lens[i], i)))],
               [('col', 1, None)], [('col', None, -1)], [('col', None, 1)], [('col', -2, None)],
               [('slice', a, None), ('col', 1, None)], [('perm', perm), ('col', 1, 3)], [('mask', [False] * nrow)]]
    return vs


def _gen_views(tier, rng):
    cases = []
    dsts_for = {}
    names = [n for n, _ in PRE]
    reps = 1 if tier == 'quick' else 6
    for a in ENCS:
        A = _alpha(a)
        n = len(A)
        # targets: the same encoding, one that shares a prefix, one that does not, BaseEncoding
        dsts = [a, 'Base', names[(ENCS.index(a) + 1) % len(names)], 'ACGTEncoding' if a != 'ACGTEncoding' else 'ACGTnEncoding']
        for rep in range(reps):
            nrow = rng.randint(3, 5)
            lens = rng.sample(range(0, 7), nrow)              # distinct lengths, so a stale shape is visible
            if rep % 2:
                lens[rng.randrange(nrow)] = 0
            base = [[rng.randrange(n) for _ in range(L)] for L in lens]
            fl = [[rng.randrange(n) for _ in range(rng.randint(4, 7))]]
            tbase = [_s([_rcase(rng, A[c]) for c in r]) for r in base]
            foreign = [c for c in _interesting(A) if not _member(A, c)]
            for vi, view in enumerate(_views(rng, nrow, lens)):
                rows = _apply_view(base, view)
                for b in dsts:
                    for kind in (1, 2):
                        cases.append(dict(kind=kind, route=2, src=a, dst=b, base=base, view=view, rows=rows))
                cases.append(dict(kind=2, route=8, src=a, dst='Base', base=base, view=view, rows=rows))   # enc.decode(view)
                # text through the encoder: base-encoded ragged view, one foreign byte in every third
                tb = list(tbase)
                if vi % 3 == 2:
                    r = max(range(nrow), key=lambda i: lens[i])
                    tb[r] = tb[r][:1] + chr(rng.choice(foreign)) + tb[r][1:]
                cases.append(dict(kind=0, route=4 if vi % 2 else 7, dst=a, base=tb, view=view,
                                  rows=[''.join(r) for r in _apply_view([list(r) for r in tb], view)]))
            for vi, view in enumerate(_views(rng, len(fl[0]), None, flat=True)):
                rows = _apply_view(fl, view, flat=True)
                for b in dsts[:3]:
                    for kind in (1, 2):
                        cases.append(dict(kind=kind, route=0, src=a, dst=b, base=fl, view=view, rows=rows))
                tf = _s([_rcase(rng, A[c]) for c in fl[0]])
                cases.append(dict(kind=0, route=3 if vi % 2 else 6, dst=a, base=[tf], view=view,
                                  rows=[''.join(_apply_view([list(tf)], view, flat=True)[0])]))
    return cases


# ----------------------------------------------------------------------------- numeric / string / k-mer encodings
NUMERIC = [('DigitEncoding', 48), ('QualityEncoding', 33), ('CigarEncoding', 0)]      # bionumpy.encodings.<name>, min code
STR_M = 2 ** 31 - 1


def _str_hash(s):
    p, tot = 1, 0
    for c in s.encode('latin1'):
        tot += (p * c) % STR_M
        p = (p * 129) % STR_M
    return tot % STR_M


def _gen_numeric(tier, rng):
    cases = []
    for name, mc in NUMERIC:
        allb = _s(list(range(256)))
        cases.append(dict(kind=4, route=3, num=name, mc=mc, rows=[allb]))                 # every byte 0..255
        cases.append(dict(kind=4, route=4, num=name, mc=mc, rows=[allb[:100], '', allb[100:]]))
        cases.append(dict(kind=4, route=0, num=name, mc=mc, rows=[allb[:128]]))
        cases.append(dict(kind=4, route=9, num=name, mc=mc, rows=[list(range(0, 300, 7)) + [255 - mc, 256 - mc, 255, 256]]))
        for i in range(30 if tier == 'quick' else 300):
            lo = mc if i % 3 else 0
            hi = 126 if i % 5 else 255
            nrow = rng.choice([1, 1, 2, 3, 4])
            rows = [_s([rng.randint(lo, hi) for _ in range(rng.choice([0, 1, 2, 5, 9]))]) for _ in range(nrow)]
            route = [0, 1, 3][i % 3] if nrow == 1 else [2, 4][i % 2]
            cases.append(dict(kind=4, route=route, num=name, mc=mc, rows=rows))
        cases.append(dict(kind=4, route=2, num=name, mc=mc, rows=['', '']))
        cases.append(dict(kind=4, route=0, num=name, mc=mc, rows=['']))
    return cases


LABEL_SETS = [['chr1', 'chr2', 'A', 'chrX'], ['a', 'b', 'c'], ['only'],
              ['chr%d' % i for i in range(1, 23)] + ['chrX', 'chrY', 'chrM'],
              ['+', '-', '.'], ['HLA-A*01:01', 'HLA-A*02:01', 'HLA-B*07:02'], ['ab', 'ba', 'aab', 'aba', 'b']]
KNOWN_COLLISIONS = {'chr1': 'vjPac9'}      # same polynomial hash mod 2^31-1 (found by a meet-in-the-middle search)


def _gen_string(tier, rng):
    cases = []
    sets = [list(s) for s in LABEL_SETS]
    for _ in range(4 if tier == 'quick' else 30):
        n = rng.randint(2, 8)
        labs = set()
        while len(labs) < n:
            labs.add(''.join(rng.choice('ACGTacgt0123456789_chrXYM.') for _ in range(rng.randint(1, 7))))
        sets.append(sorted(labs))
    for labels in sets:
        if len(set(_str_hash(l) for l in labels)) != len(labels):
            continue
        cases.append(dict(kind=5, route=0, labels=labels, queries=list(labels)))
        cases.append(dict(kind=5, route=0, labels=labels, queries=list(reversed(labels)) + [labels[0]]))
        cases.append(dict(kind=5, route=0, labels=labels, queries=[]))
        for l in labels[:6]:
            cases.append(dict(kind=5, route=1, labels=labels, queries=[l]))
        unknowns = []
        for l in labels[:5]:
            unknowns += [l + 'x', l[:-1], l.swapcase(), l + '\x00', '\x00' + l, l[::-1], l + l]
            if l in KNOWN_COLLISIONS and _str_hash(KNOWN_COLLISIONS[l]) == _str_hash(l):
                unknowns.append(KNOWN_COLLISIONS[l])
        unknowns += ['', 'zz', 'chr', '\x00']
        unknowns = [u for u in dict.fromkeys(unknowns) if u not in labels]
        for u in unknowns:
            qs = [rng.choice(labels) for _ in range(rng.randint(0, 3))]
            pos = rng.randint(0, len(qs))
            cases.append(dict(kind=5, route=[0, 2][len(u) % 2], labels=labels, queries=qs[:pos] + [u] + qs[pos:]))
            if u:
                cases.append(dict(kind=5, route=1, labels=labels, queries=[u]))
        for i in range(6 if tier == 'quick' else 40):
            cases.append(dict(kind=5, route=[0, 2][i % 2], labels=labels, queries=[rng.choice(labels) for _ in range(rng.randint(1, 9))]))
    return cases


def _gen_kmer(tier, rng):
    cases = []
    for e in [n for n, _ in PRE] + ['custom:acgt']:
        A = _alpha(e)
        n = len(A)
        foreign = [c for c in _interesting(A) if not _member(A, c)]
        ks = [1, 2, 3, 5, 8] + ([12] if n <= 5 else [])
        for k in ks:
            if n ** k <= 125:
                allk = [_s([_rcase(rng, c) for c in t]) for t in itertools.product(A, repeat=k)]
                cases.append(dict(kind=6, route=2, dst=e, k=k, rows=allk))
            cases.append(dict(kind=6, route=0, dst=e, k=k, rows=[_s([A[-1]] * k)]))            # the largest k-mer
            cases.append(dict(kind=6, route=2, dst=e, k=k, rows=[_s([A[-1]] * k), _s([A[0]] * k)]))
            for i in range(6 if tier == 'quick' else 40):
                rows = [[_rcase(rng, rng.choice(A)) for _ in range(k)] for _ in range(1 if i % 2 else rng.randint(2, 5))]
                kind_i = i % 6
                if kind_i == 1:
                    r = rng.randrange(len(rows))
                    rows[r][rng.randrange(k)] = rng.choice(foreign)
                elif kind_i == 2:
                    rows[rng.randrange(len(rows))].append(rng.choice(A))                          # k+1 letters
                elif kind_i == 3 and k > 0:
                    rows[rng.randrange(len(rows))].pop()                                          # k-1 letters
                cases.append(dict(kind=6, route=0 if len(rows) == 1 else 2, dst=e, k=k, rows=[_s(r) for r in rows]))
            for p in range(min(k, 3)):
                t = [_rcase(rng, rng.choice(A)) for _ in range(k)]
                t[p if p < 2 else k - 1] = foreign[0]
                cases.append(dict(kind=6, route=[0, 2][p % 2], dst=e, k=k, rows=[_s(t)]))
    return cases


# ----------------------------------------------------------------------------- two-dimensional blocks
# A 2-D (Encoded)array is a list of rows of equal length; its memory layout must not matter.  The Coq side sees the rows.
LAYOUTS = ['C', 'F', 'T', 'colslice', 'rowslice', 'neg']
SHAPES_2D = [(2, 3), (3, 2), (2, 2), (3, 5), (1, 4), (4, 1), (5, 3)]


def _layout(b, layout):
    """the same 2-D values in another memory layout (junk 255 between the elements of the sliced layouts)"""
    import numpy as np
    r, c = b.shape
    if layout == 'C':
        return np.ascontiguousarray(b)
    if layout == 'F':
        return np.asfortranarray(b)
    if layout == 'T':                                   # transposed view of a C-ordered block
        return np.ascontiguousarray(b.T).T
    if layout == 'colslice':                            # every second column of a wider block
        w = np.full((r, 2 * c), 255, dtype=b.dtype)
        w[:, ::2] = b
        return w[:, ::2]
    if layout == 'rowslice':                            # every second row of a taller block
        w = np.full((2 * r, c), 255, dtype=b.dtype)
        w[::2] = b
        return w[::2]
    if layout == 'neg':                                 # negative column stride
        return np.ascontiguousarray(b[:, ::-1])[:, ::-1]
    raise ValueError(layout)


def _gen_2d(tier, rng):
    cases = []
    names = [n for n, _ in PRE]
    for a in ENCS:
        A = _alpha(a)
        n = len(A)
        foreign = [c for c in _interesting(A) if not _member(A, c)]
        dsts = [a, 'Base', names[(ENCS.index(a) + 1) % len(names)], 'ACGTEncoding' if a != 'ACGTEncoding' else 'ACGTnEncoding']
        shapes = SHAPES_2D if tier != 'quick' else rng.sample(SHAPES_2D[:4], 2) + rng.sample(SHAPES_2D[4:], 1)
        flat_enc = (a == 'StrandEncoding')       # FlatAlphabetEncoding._encode ravels its input by design: no 2-D result
        for (r, c) in shapes:
            for rep in range(1 if tier == 'quick' else 3):
                for _ in range(20):
                    codes = [[rng.randrange(n) for _ in range(c)] for _ in range(r)]
                    if r == 1 or c == 1 or [x for row in codes for x in row] != [codes[i][j] for j in range(c) for i in range(r)]:
                        break
                text = [_s([_rcase(rng, A[k]) for k in row]) for row in codes]
                for li, layout in enumerate(LAYOUTS):
                    for b in dsts:
                        for mk in ((0,) if flat_enc else ((0, 1) if b != a else (1,))):
                            # mk 0: EncodedArray(block, src); mk 1: src.encode(base block) (the lookup keeps the layout)
                            cases.append(dict(kind=1, route=13, src=a, dst=b, rows=codes, layout=layout, mk=mk))
                            cases.append(dict(kind=2, route=13, src=a, dst=b, rows=codes, layout=layout, mk=mk))
                    cases.append(dict(kind=2, route=14, src=a, dst='Base', rows=codes, layout=layout, mk=0 if flat_enc else li % 2))    # enc.decode
                    if flat_enc:
                        continue
                    t = list(text)
                    if (li + rep) % 3 == 2:
                        i, j = rng.randrange(r), rng.randrange(c)
                        t[i] = t[i][:j] + chr(rng.choice(foreign)) + t[i][j + 1:]
                    cases.append(dict(kind=0, route=10 + (li + rep) % 3, dst=a, rows=t, layout=layout))
    return cases


# ----------------------------------------------------------------------------- sessions (state kept between calls)
# A session is a list of public calls in ONE process: encodings of the same text, in-place edits of earlier results,
# decode / change_encoding of results.  `focus` names the result that is read at the very end.  Spec: a result depends
# only on its own arguments and on the edits made to IT; the Coq side gets the focus as an ordinary case (kind 0: a fresh
# encoding of the text with the focus' own edits substituted; kind 2: decode / change_encoding of the parent's codes at
# the time of the call) whose observation is what the focus holds after all later calls.
def _edit_state(rows, flat, op, other_char=None):
    """apply an edit to the ground-truth rows (lists of ints)"""
    k = op[0]
    if flat:
        r = rows[0]
        n = len(r)
        if k == 'i':
            r[op[1]] = ord(op[2])
        elif k == 'iv':
            r[op[1]] = other_char
        elif k == 'sl':
            idx = list(range(n))[slice(op[1], op[2], op[3])]
            txt = op[4] if len(op[4]) == len(idx) else op[4] * len(idx)
            for i, c in zip(idx, txt):
                r[i] = ord(c)
        elif k == 'li':
            for i in op[1]:
                r[i] = ord(op[2])
        elif k == 'mask':
            for i, m in enumerate(op[1]):
                if m:
                    r[i] = ord(op[2])
        else:
            raise ValueError(op)
    else:
        if k == 'rc':
            rows[op[1]][op[2]] = ord(op[3])
        elif k == 'row':
            L = len(rows[op[1]])
            txt = op[2] if len(op[2]) == L else op[2] * L
            rows[op[1]] = [ord(c) for c in txt]
        else:
            raise ValueError(op)


def _edit_np(x, op):
    import numpy as np
    from bionumpy.encoded_array import EncodedArray
    k = op[0]
    if k == 'i':
        x[op[1]] = op[2]
    elif k == 'iv':
        x[op[1]] = EncodedArray(np.array([op[3]], dtype=np.uint8), _get_enc(op[2]))
    elif k == 'sl':
        x[slice(op[1], op[2], op[3])] = op[4]
    elif k == 'li':
        x[list(op[1])] = op[2]
    elif k == 'mask':
        x[np.array(op[1], dtype=bool)] = op[2]
    elif k == 'rc':
        x[op[1], op[2]] = op[3]
    elif k == 'row':
        x[op[1]] = op[2]
    else:
        raise ValueError(op)


def _rand_edit(rng, A, rows, flat, allow_iv=None):
    ch = lambda: chr(_rcase(rng, rng.choice(A)))
    if flat:
        n = len(rows[0])
        kind = rng.choice(['i', 'i', 'neg', 'sl', 'slb', 'li', 'mask', 'step'] + (['iv'] if allow_iv else []))
        if kind == 'i':
            return ['i', rng.randrange(n), ch()]
        if kind == 'neg':
            return ['i', -1 - rng.randrange(n), ch()]
        if kind == 'iv':
            o = rng.choice(allow_iv)
            return ['iv', rng.randrange(n), o, rng.randrange(len(_alpha(o)))]
        if kind in ('sl', 'slb'):
            a = rng.randrange(n)
            b = rng.randint(a + 1, n)
            return ['sl', a, b, None, ''.join(ch() for _ in range(b - a)) if kind == 'sl' else ch()]
        if kind == 'step':
            return ['sl', None, None, 2, ''.join(ch() for _ in range((n + 1) // 2))]
        if kind == 'li':
            return ['li', sorted(set(rng.randrange(n) for _ in range(2))), ch()]
        m = [rng.random() < 0.5 for _ in range(n)]
        m[rng.randrange(n)] = True
        return ['mask', m, ch()]
    nonempty = [i for i, r in enumerate(rows) if len(r)]
    r = rng.choice(nonempty)
    if rng.random() < 0.5:
        return ['rc', r, rng.randrange(len(rows[r])), ch()]
    return ['row', r, ''.join(ch() for _ in range(len(rows[r]))) if rng.random() < 0.6 else ch()]


PERMUTED = {'ACGTEncoding': ['ACTGEncoding', 'ACGTnEncoding', 'custom:acgt'], 'ACTGEncoding': ['ACGTEncoding', 'ACTGnEncoding'],
            'ACGTnEncoding': ['ACTGnEncoding'], 'ACTGnEncoding': ['ACGTnEncoding'],
            'custom:acgt': ['ACGTEncoding', 'ACTGEncoding']}       # every letter of the key's alphabet is in the listed ones


def _gen_sessions(tier, rng):
    cases = []
    names = [n for n, _ in PRE]
    for a in ENCS:
        A = _alpha(a)
        n = len(A)
        other = names[(ENCS.index(a) + 1) % len(names)]
        for route in (0, 1, 2, 5, 3, 4, 6):
            flat = route in (0, 1, 3, 6)
            for rep in range(1 if tier == 'quick' else 4):
                if flat:
                    rows = [_s([_rcase(rng, rng.choice(A)) for _ in range(rng.randint(2, 6))])]
                else:
                    rows = [_s([_rcase(rng, rng.choice(A)) for _ in range(L)]) for L in rng.sample([0, 1, 2, 3, 4], rng.randint(2, 3))]
                    if not any(rows):
                        rows[0] = _s([A[0], A[-1]])
                st = [[c for c in r.encode('latin1')] for r in rows]
                E = lambda: ['enc', a, route, rows]
                ed = lambda iv=None: _rand_edit(rng, A, st, flat, iv)
                dsts = ['Base', a, other]
                templates = [
                    ([E(), ['set', 0, ed()], E()], [1, 0]),                               # edit the first, encode again
                    ([E(), E(), ['set', 1, ed()], ['set', 1, ed()]], [0, 1]),             # later edits of the second
                    ([E(), ['set', 0, ed()], ['set', 0, ed()], E(), ['dec', 1], ['chg', 1, rng.choice(dsts)]], [2, 3, 0]),
                    ([E(), ['dec', 0], ['chg', 0, rng.choice(dsts)], ['set', 0, ed()], E()], [1, 2, 3]),
                    ([E(), ['set', 0, ed()], ['enc', a, 0 if route != 0 else 1, rows[:1]], ['enc', a, 2, rows], E()], [1, 2, 3]),
                ]
                if flat and a in PERMUTED:
                    templates.append(([E(), ['set', 0, ed(PERMUTED[a])], ['set', 0, ['iv', 0, PERMUTED[a][0], rng.randrange(min(4, n))]],
                                       ['enc', PERMUTED[a][0], route, rows], E()], [0, 2, 1]))
                for steps, foci in templates:
                    for f in foci:
                        cases.append(dict(kind=7, steps=steps, focus=f))
    return cases


def _session_results(steps):
    """indices of the steps that create a result, in order"""
    return [i for i, s in enumerate(steps) if s[0] in ('enc', 'dec', 'chg')]


def _observe_session(case):
    import numpy as np
    import bionumpy as bnp
    from bionumpy.encoded_array import EncodedArray, EncodedRaggedArray, BaseEncoding, EncodingException
    from bionumpy.encodings.exceptions import EncodingError
    results, meta, raised = [], [], {}
    for si, s in enumerate(case['steps']):
        if s[0] == 'enc':
            enc, route, rows = _get_enc(s[1]), s[2], s[3]
            fb = np.frombuffer(''.join(rows).encode('latin1'), dtype=np.uint8).copy()
            try:
                if route == 0:
                    r = bnp.as_encoded_array(rows[0], enc)
                elif route == 1:
                    r = enc.encode(rows[0])
                elif route == 2:
                    r = bnp.as_encoded_array(list(rows), enc)
                elif route == 5:
                    r = enc.encode(list(rows))
                elif route == 3:
                    r = enc.encode(fb)
                elif route == 4:
                    r = enc.encode(EncodedRaggedArray(EncodedArray(fb, BaseEncoding), [len(x) for x in rows]))
                else:
                    r = bnp.as_encoded_array(EncodedArray(fb, BaseEncoding), enc)
            except Exception as ex:
                return dict(err='other', name='step %d: %s' % (si, type(ex).__name__))
            results.append(r)
            meta.append((s[1], route in (0, 1, 3, 6)))
        elif s[0] == 'set':
            try:
                _edit_np(results[s[1]], s[2])
            except (EncodingError, EncodingException) as ex:
                if s[2][0] != 'iv':
                    return dict(err='other', name='step %d: edit raised %s' % (si, type(ex).__name__))
                raised[str(si)] = type(ex).__name__
            except Exception as ex:
                return dict(err='other', name='step %d: edit raised %s' % (si, type(ex).__name__))
        else:
            src_name, flat = meta[s[1]]
            try:
                if s[0] == 'dec':
                    r = _get_enc(src_name).decode(results[s[1]])
                    results.append(r)
                    meta.append(('Base', flat))
                else:
                    meta.append((s[2], flat))
                    r = bnp.change_encoding(results[s[1]], _get_enc(s[2]))
                    results.append(r)
            except Exception as ex:
                if s[0] == 'dec':
                    return dict(err='other', name='step %d: %s' % (si, type(ex).__name__))
                results.append(_err(ex))          # e.g. the text is not in the target alphabet: that result is the error
    f = case['focus']
    name, flat = meta[f]
    if isinstance(results[f], dict):
        return dict(results[f], raised=raised)
    o = _result(results[f], flat, name, _get_enc(name))
    if 'codes' in o and not o['same_enc']:
        return dict(err='other', name='result carries another encoding')
    o['raised'] = raised
    return o


def _session_term(case, o):
    """the focus as an ordinary Coq case (kind 0 or 2) — ground truth computed here from the steps"""
    raised = o.get('raised', {}) if isinstance(o, dict) else {}
    state = []            # per result: dict(enc, flat, rows (ints), origin)
    for si, s in enumerate(case['steps']):
        if s[0] == 'enc':
            state.append(dict(enc=s[1], flat=s[2] in (0, 1, 3, 6), rows=[[c for c in r.encode('latin1')] for r in s[3]],
                              origin=('enc', s[2])))
        elif s[0] == 'set':
            if str(si) in raised:
                continue
            st = state[s[1]]
            oc = _alpha(s[2][2])[s[2][3]] if s[2][0] == 'iv' else None
            _edit_state(st['rows'], st['flat'], s[2], oc)
        else:
            p = state[s[1]]
            A = _alpha(p['enc'])
            up = [[(c - 32 if 97 <= c <= 122 else c) for c in r] for r in p['rows']]
            codes = [[A.index(c) for c in r] for r in up]
            dst = 'Base' if s[0] == 'dec' else s[2]
            state.append(dict(enc=dst, flat=p['flat'], rows=up, origin=('derived', p['enc'], dst, codes)))
    st = state[case['focus']]
    if st['origin'][0] == 'enc':
        return dict(kind=0, route=st['origin'][1], dst=st['enc'], rows=[_s(r) for r in st['rows']])
    return dict(kind=2, route=0 if st['flat'] else 2, src=st['origin'][1], dst=st['origin'][2], rows=st['origin'][3])


def generate(tier, seed):
    rng = random.Random(seed * 7919 + 6)
    cases = []
    for e in [n for n, _ in PRE + ALIAS] + ['custom:' + c for c in CUSTOM]:
        cases.append(dict(kind=3, route=3, dst=e))
        cases.append(dict(kind=3, route=0, dst=e))
    enc = _gen_encode(tier, rng)
    pairs = _gen_pairs(tier, rng)
    enc.sort(key=lambda c: sum(len(r) for r in c['rows']))
    cases += enc + pairs + _gen_views(tier, rng)
    cases += _gen_numeric(tier, rng) + _gen_string(tier, rng) + _gen_kmer(tier, rng)
    cases += _gen_2d(tier, rng)
    cases += _gen_sessions(tier, rng)
    return cases


# ----------------------------------------------------------------------------- implementation side
def _get_enc(e):
    from bionumpy.encodings import alphabet_encoding as ae
    from bionumpy.encoded_array import BaseEncoding
    if e == 'Base':
        return BaseEncoding
    if e.startswith('custom:'):
        return ae.AlphabetEncoding(e[7:])
    return getattr(ae, e)


def _err(ex):
    from bionumpy.encodings.exceptions import EncodingError
    from bionumpy.encoded_array import EncodingException
    if isinstance(ex, EncodingError):
        off = getattr(ex, 'offset', None)
        return dict(err='enc', offset=int(off) if off is not None else -1)
    if isinstance(ex, EncodingException):
        return dict(err='exc')
    if isinstance(ex, UnicodeEncodeError):
        return dict(err='unicode')
    return dict(err='other', name=type(ex).__name__)


def _result(r, want_flat, dst, enc_obj):
    """canonical observation of a returned encoded object: rows of raw codes, rows of decoded text (hex)"""
    import numpy as np
    from bionumpy.encoded_array import EncodedArray, EncodedRaggedArray
    if want_flat:
        if not isinstance(r, EncodedArray) or r.raw().ndim != 1:
            return dict(err='other', name='type:' + type(r).__name__)
        try:
            codes = [[int(x) for x in r.raw()]]
            text = [r.to_string()]
            t2 = [''.join(chr(int(c)) for c in r.encoding.decode(r).raw())]
        except Exception as ex:
            return dict(err='undec', name='decode:' + type(ex).__name__)
    else:
        if not isinstance(r, EncodedRaggedArray):
            return dict(err='other', name='type:' + type(r).__name__)
        try:
            codes = [[int(x) for x in row] for row in r.raw().tolist()]
            lens = [int(x) for x in r.lengths]
        except Exception as ex:
            return dict(err='undec', name='raw:' + type(ex).__name__)
        if lens != [len(c) for c in codes]:
            return dict(err='other', name='shape')
        try:
            text = r.tolist()
            t2 = r.encoding.decode(r).tolist()
        except Exception as ex:
            return dict(err='undec', name='decode:' + type(ex).__name__)
    if text != t2:
        return dict(err='other', name='to_string and enc.decode disagree')
    return dict(codes=codes, text=[t.encode('latin1').hex() for t in text], same_enc=bool(r.encoding == enc_obj))


def _result2d(r, shape, enc_obj):
    """observation of a returned 2-D encoded array: rows of codes, rows of text read at (row, column)"""
    import numpy as np
    from bionumpy.encoded_array import EncodedArray
    if not isinstance(r, EncodedArray) or r.raw().ndim != 2:
        return dict(err='other', name='type:' + type(r).__name__)
    if tuple(r.shape) != tuple(shape):
        return dict(err='other', name='shape %s instead of %s' % (tuple(r.shape), tuple(shape)))
    try:
        raw = r.raw()
        codes = [[int(raw[i, j]) for j in range(shape[1])] for i in range(shape[0])]
        text = [r[i].to_string() for i in range(shape[0])]
        d = r.encoding.decode(r).raw()
        t2 = [''.join(chr(int(d[i, j])) for j in range(shape[1])) for i in range(shape[0])]
        whole = r.to_string()
    except Exception as ex:
        return dict(err='undec', name='decode:' + type(ex).__name__)
    if text != t2 or whole != ''.join(text):
        return dict(err='other', name='row-wise to_string, enc.decode and to_string of the block disagree')
    return dict(codes=codes, text=[s.encode('latin1').hex() for s in text], same_enc=bool(r.encoding == enc_obj))


def _observe_ext(case):
    import numpy as np
    import bionumpy as bnp
    from bionumpy.encoded_array import EncodedArray, EncodedRaggedArray, BaseEncoding
    from npstructures import RaggedArray
    kind, route = case['kind'], case['route']
    if kind == 4:
        import bionumpy.encodings as E
        enc = getattr(E, case['num'])
        rows = case['rows']
        try:
            if route == 9:
                back = enc.decode(np.array(rows[0], dtype=np.int64))
                return dict(zcodes=[list(rows[0])], ztext=[[int(x) for x in back]])
            fb = np.frombuffer(''.join(rows).encode('latin1'), dtype=np.uint8).copy()
            if route == 0:
                r = enc.encode(rows[0])
            elif route == 1:
                r = bnp.as_encoded_array(rows[0], enc)
            elif route == 2:
                r = enc.encode(list(rows))
            elif route == 3:
                r = enc.encode(fb)
            else:
                r = enc.encode(EncodedRaggedArray(EncodedArray(fb, BaseEncoding), [len(x) for x in rows]))
            back = enc.decode(r)
        except Exception as ex:
            return _err(ex)
        if route in (0, 1, 3):
            if isinstance(r, (RaggedArray, EncodedArray)) or not isinstance(r, np.ndarray) or r.ndim != 1:
                return dict(err='other', name='type:' + type(r).__name__)
            return dict(zcodes=[[int(x) for x in r]], ztext=[[int(x) for x in back]])
        if not isinstance(r, RaggedArray) or isinstance(r, EncodedRaggedArray):
            return dict(err='other', name='type:' + type(r).__name__)
        return dict(zcodes=[[int(x) for x in row] for row in r.tolist()], ztext=[[int(x) for x in row] for row in back.tolist()])
    if kind == 5:
        from bionumpy.encodings.string_encodings import StringEncoding
        try:
            enc = StringEncoding(list(case['labels']))
            q = case['queries']
            if route == 0:
                r = enc.encode(list(q))
            elif route == 1:
                r = enc.encode(q[0])
            else:
                r = bnp.as_encoded_array(list(q), enc)
        except Exception as ex:
            return _err(ex)
        if not isinstance(r, EncodedArray) or r.encoding is not enc:
            return dict(err='other', name='type:' + type(r).__name__)
        try:
            raw = np.atleast_1d(r.raw())
            codes = [int(x) for x in raw]
            d = enc.decode(r)
            text = [d.to_string()] if route == 1 else d.tolist()
            if len(codes) == 0:
                text = []
        except Exception as ex:
            return dict(err='undec', name='decode:' + type(ex).__name__)
        return dict(zcodes=[codes], ztext=[[c for c in s.encode('latin1')] for s in text])
    if kind == 6:
        from bionumpy.encodings.kmer_encodings import KmerEncoding
        enc = KmerEncoding(_get_enc(case['dst']), case['k'])
        rows = case['rows']
        try:
            r = enc.encode(rows[0]) if route == 0 else enc.encode(list(rows))
        except AssertionError:
            return dict(err='other', name='AssertionError')
        except Exception as ex:
            return _err(ex)
        if not isinstance(r, EncodedArray):
            return dict(err='other', name='type:' + type(r).__name__)
        try:
            hs = [int(x) for x in np.atleast_1d(r.raw())]
            text = [enc.to_string(np.int64(h)) for h in hs]
            joined = r.to_string()
            if joined != ','.join(text) and not (route == 0 and joined == text[0]):
                return dict(err='other', name='to_string disagrees')
        except Exception as ex:
            return dict(err='undec', name='decode:' + type(ex).__name__)
        return dict(zcodes=[hs], ztext=[[c for c in s.encode('latin1')] for s in text])


def observe(case):
    if case['kind'] == 7:
        return _observe_session(case)
    if case['kind'] >= 4:
        return _observe_ext(case)
    import numpy as np
    import bionumpy as bnp
    from bionumpy.encoded_array import EncodedArray, EncodedRaggedArray, BaseEncoding
    dst = _get_enc(case['dst'])
    kind, route = case['kind'], case['route']
    if kind == 3:
        table = []
        for b in range(256 if route == 3 else 128):
            try:
                if route == 3:
                    r = dst.encode(np.array([b], dtype=np.uint8))
                else:
                    r = bnp.as_encoded_array(chr(b), dst)
                raw = r.raw()
                table.append(int(raw[0]) if raw.shape == (1,) else -1)
            except Exception as ex:
                table.append(255 if _err(ex)['err'] == 'enc' else -1)
        return dict(table=table, alphabet=[ord(c) for c in dst.get_alphabet()])
    if kind == 0:
        rows = case['rows']
        flat_bytes = np.frombuffer(''.join(rows).encode('latin1'), dtype=np.uint8)
        if 'layout' in case:
            blk = _layout(np.array([[c for c in r.encode('latin1')] for r in rows], dtype=np.uint8), case['layout'])
            try:
                if route == 10:
                    r = dst.encode(blk)
                elif route == 11:
                    r = bnp.as_encoded_array(EncodedArray(blk, BaseEncoding), dst)
                else:
                    r = dst.encode(EncodedArray(blk, BaseEncoding))
            except Exception as ex:
                return _err(ex)
            o = _result2d(r, blk.shape, dst)
            if 'codes' in o and not o['same_enc']:
                return dict(err='other', name='result carries another encoding')
            return o
        try:
            if 'view' in case:
                # a lazy, non-contiguous view built by prior indexing; handed over untouched
                base = case['base']
                bb = np.frombuffer(''.join(base).encode('latin1'), dtype=np.uint8).copy()
                if route in (4, 7):
                    x = _np_view(EncodedRaggedArray(EncodedArray(bb, BaseEncoding), [len(b) for b in base]), case['view'])
                    r = dst.encode(x) if route == 4 else bnp.as_encoded_array(x, dst)
                elif route == 3:
                    r = dst.encode(_np_view(bb, case['view']))
                else:
                    r = bnp.as_encoded_array(_np_view(EncodedArray(bb, BaseEncoding), case['view']), dst)
            elif route == 0:
                r = bnp.as_encoded_array(rows[0], dst)
            elif route == 1:
                r = dst.encode(rows[0])
            elif route == 2:
                r = bnp.as_encoded_array(list(rows), dst)
            elif route == 3:
                r = dst.encode(flat_bytes.copy())
            elif route == 4:
                r = dst.encode(EncodedRaggedArray(EncodedArray(flat_bytes.copy(), BaseEncoding), [len(x) for x in rows]))
            elif route == 5:
                r = dst.encode(list(rows))
            else:
                r = bnp.as_encoded_array(EncodedArray(flat_bytes.copy(), BaseEncoding), dst)
        except Exception as ex:
            return _err(ex)
        o = _result(r, route in (0, 1, 3, 6), case['dst'], dst)
        if 'codes' in o and not o['same_enc']:
            return dict(err='other', name='result carries another encoding')
        return o
    src = _get_enc(case['src'])
    rows = case['rows']
    if 'layout' in case:
        A = _alpha(case['src'])
        try:
            if case['mk'] == 0:
                x = EncodedArray(_layout(np.array(rows, dtype=np.uint8), case['layout']), src)
            else:
                x = src.encode(_layout(np.array([[A[k] for k in row] for row in rows], dtype=np.uint8), case['layout']))
            shape = x.shape
            if route == 14:
                r = src.decode(x)
            else:
                r = bnp.as_encoded_array(x, dst) if kind == 1 else bnp.change_encoding(x, dst)
        except Exception as ex:
            return _err(ex)
        o = _result2d(r, shape, dst)
        if 'codes' in o and not o['same_enc'] and not (kind == 1 and r.encoding == src):
            return dict(err='other', name='result carries another encoding')
        return o
    if 'view' in case:
        rows = case['base']
    flat = np.array([c for r in rows for c in r], dtype=np.uint8)
    if route == 0:
        x = EncodedArray(flat, src)
    else:
        x = EncodedRaggedArray(EncodedArray(flat, src), [len(r) for r in rows])
    try:
        if 'view' in case:
            x = _np_view(x, case['view'])      # lazy view; not touched before the call
        if route == 8:
            r = src.decode(x)
        else:
            r = bnp.as_encoded_array(x, dst) if kind == 1 else bnp.change_encoding(x, dst)
    except Exception as ex:
        return _err(ex)
    o = _result(r, route == 0, case['dst'], dst)
    if 'codes' in o and not o['same_enc']:
        # as_encoded_array may hand the object back unchanged when the encodings compare equal
        if not (kind == 1 and r.encoding == src):
            return dict(err='other', name='result carries another encoding')
    return o


# ----------------------------------------------------------------------------- Coq side
def _cenc(e):
    if e is None or e == 'Base':
        return 'Base'
    return '(Alpha %s)' % hx(_decl(e).encode('latin1'))


def _zrows(rows):
    return clist([zl(r) for r in rows], 'list Z')


def _cout(o):
    if 'zcodes' in o:
        return '(OOk %s %s)' % (_zrows(o['zcodes']), _zrows(o['ztext']))
    if 'codes' in o:
        return '(OOk %s %s)' % (clist([hx(bytes(r)) for r in o['codes']], 'list Z'),
                                clist([hx(bytes.fromhex(t)) for t in o['text']], 'list Z'))
    if o.get('err') == 'enc':
        return '(OEncErr %s)' % cz(o['offset'])
    return {'exc': 'OEncExc', 'unicode': 'OUnicode', 'undec': 'OUndec'}.get(o.get('err'), 'OOther')


def to_coq(case, o):
    if case['kind'] == 7:
        return to_coq(_session_term(case, o), o)
    kind = case['kind']
    if kind >= 4:
        if kind == 4:
            p, dst = case['mc'], 'Base'
            rows = _zrows(case['rows']) if case['route'] == 9 else clist([hx(r.encode('latin1')) for r in case['rows']], 'list Z')
        elif kind == 5:
            p, dst = len(case['labels']), 'Base'
            rows = clist([hx(r.encode('latin1')) for r in case['labels'] + case['queries']], 'list Z')
        else:
            p, dst = case['k'], _cenc(case['dst'])
            rows = clist([hx(r.encode('latin1')) for r in case['rows']], 'list Z')
        return ('{| k_kind := %d; k_route := %d; k_src := Base; k_dst := %s; k_rows := %s; k_out := %s; '
                'k_table := []; k_alpha := %s |}' % (kind, case['route'], dst, rows, _cout(o), zl([p])))
    if kind == 3:
        return ('{| k_kind := 3; k_route := %d; k_src := Base; k_dst := %s; k_rows := []; k_out := OOther; '
                'k_table := %s; k_alpha := %s |}' % (case['route'], _cenc(case['dst']), zl(o['table']), zl(o['alphabet'])))
    if kind == 0:
        rows = clist([hx(r.encode('latin1')) for r in case['rows']], 'list Z')
    else:
        rows = clist([hx(bytes(r)) for r in case['rows']], 'list Z')
    return ('{| k_kind := %d; k_route := %d; k_src := %s; k_dst := %s; k_rows := %s; k_out := %s; '
            'k_table := []; k_alpha := [] |}' % (kind, case['route'], _cenc(case.get('src')), _cenc(case['dst']), rows, _cout(o)))


# ----------------------------------------------------------------------------- evidence / findings
def _text_bytes(case):
    if case['kind'] >= 4:
        return []
    if case['kind'] == 0:
        return [c for r in case['rows'] for c in r.encode('latin1')]
    if case['kind'] in (1, 2):
        A = _alpha(case['src'])
        return [A[c] for r in case['rows'] for c in r]
    return []


def nontrivial(case, o):
    if case['kind'] == 7:
        return True
    if case['kind'] == 3:
        return True
    if case['kind'] == 4:
        return any(len(r) for r in case['rows'])
    if case['kind'] == 5:
        return any(q not in case['labels'] for q in case['queries']) or len(case['queries']) > 1
    if case['kind'] == 6:
        A = _alpha(case['dst'])
        return any(len(r) != case['k'] or any((not _member(A, c)) or 97 <= c <= 122 for c in r.encode('latin1')) for r in case['rows']) or len(case['rows']) > 1
    if case['kind'] == 0:
        A = _alpha(case['dst'])
        return any((not _member(A, c)) or 97 <= c <= 122 for c in _text_bytes(case))
    return case['src'] != case['dst'] and any(len(r) for r in case['rows'])


def describe(case, o):
    d = dict(case)
    d['observed'] = {k: v for k, v in o.items() if k != 'table'} if isinstance(o, dict) else o
    return d


def distribution(cases, obs):
    d = dict(kind={}, route={}, outcome={}, text_len={}, encodings=len(ENCS) + len(ALIAS))
    for c, o in zip(cases, obs):
        for key, v in (('kind', c['kind']), ('route', '%d/%d' % (c['kind'], c.get('route', -1))),
                       ('outcome', 'table' if 'table' in o else ('ok' if ('codes' in o or 'zcodes' in o) else o.get('err', '?'))),
                       ('text_len', min(10, sum(len(r) for r in c.get('rows', c.get('queries', [])))) if c['kind'] != 7 else len(c['steps']))):
            d[key][str(v)] = d[key].get(str(v), 0) + 1
    return d


def _shifted_nonletters(e):
    """bytes that the +32 table of the code at HEAD adds for the non-letter members of an alphabet"""
    if e == 'Base':
        return set()
    return {(a + 32) % 256 for a in _alpha(e) if not _is_letter(a)}


def finding(case, o):
    kind = case['kind']
    if kind == 7:
        return None
    if kind == 5:
        # exactly: accepted although some query is not a label, and every such query has the hash of a label
        if 'zcodes' not in o:
            return None
        lh = {_str_hash(l): i for i, l in enumerate(case['labels'])}
        unknown = [q for q in case['queries'] if q not in case['labels']]
        if not unknown or any(_str_hash(q) not in lh for q in case['queries']):
            return None
        # ... and the observation is exactly what a hash-only lookup yields (anything else is another failure)
        want = [lh[_str_hash(q)] for q in case['queries']]
        if o['zcodes'] == [want] and o['ztext'] == [[c for c in case['labels'][i].encode('latin1')] for i in want]:
            return 'C06-string-encoding-hash-only'
        return None
    if kind in (4, 6):
        return None
    if kind == 3:
        A = _alpha(case['dst'])
        sh = _shifted_nonletters(case['dst'])
        wrong = [b for b, code in enumerate(o.get('table', []))
                 if not ((0 <= code < len(A) and A[code] == (b - 32 if 97 <= b <= 122 else b)) if _member(A, b) else code == 255)]
        return 'C06-lower-table-nonletters' if wrong and all(b in sh for b in wrong) else None
    if 'codes' not in o:
        return None
    if kind in (0, 2):
        sh = _shifted_nonletters(case['dst'])
        if any(c in sh for c in _text_bytes(case)):
            return 'C06-lower-table-nonletters'
        return None
    if kind == 1 and case['dst'] != 'Base':
        A, B = _alpha(case['src']), _alpha(case['dst'])
        codes = [c for r in case['rows'] for c in r]
        if codes and A != B:
            m = max(codes)
            if A[:m] == B[:m] and m < len(B) and A[m] != B[m]:
                return 'C06-retarget-prefix-one-short'
    return None


def signature(case, o):
    if case['kind'] == 7:
        return '7/%s/%s' % (case['steps'][_session_results(case['steps'])[case['focus']]][0], 'ok' if 'codes' in o else o.get('err'))
    return '%d/%s/%s' % (case['kind'], 'flat' if case.get('route') in (0, 1, 3, 6) else 'rows',
                         'ok' if ('codes' in o or 'zcodes' in o) else ('table' if 'table' in o else o.get('err')))


def search(tier, seed, disagreeing):
    """after a broken obligation: the thorough enumeration restricted to the encodings involved"""
    encs = set()
    for c in disagreeing:
        if c.get('dst'):
            encs.add(c.get('dst'))
        if c.get('src'):
            encs.add(c.get('src'))
    allc = generate('thorough', seed + 1)
    sel = [c for c in allc if not encs or c.get('dst') in encs or c.get('src') in encs]
    return sel[:6000]

"""C20 — operations do not modify their inputs.

Three kinds of cases, all decided inside Coq (Corr/C20.v):

  call  : one function of the registry of the public API applied twice to generated arguments.  Observed: the
          bytes of every NumPy buffer reachable from the arguments (held BY REFERENCE, so writes outside the
          logical view of a ragged/chunk view are seen too) before and after the calls, the logical contents of
          the arguments before and after, and the canonical form of both results.
  chunk : a file of some format is read lazily twice (chunks A and B); every field of A is inspected / parsed
          (get_data_object, tolist, field attributes, indexing); A and the untouched B are then written.
          Observed: backing buffer of A before/after, bytes written by A and by B.
  site  : the effect program of one in-place-writing site of the anchored code, extracted from the CURRENT source
          by the small AST extractor below (fail-closed: anything it cannot classify becomes an alias of every
          parameter).  Coq decides `safe_prog` on the extracted program (spec) and compares it with a second
          extraction made through the translator's code path in the main process, required safe (model).  The
          programs translate/gen_c20.py writes into Gen/C20.v from the same tree are proved safe in Bridge/C20.v
          inside the build lock (C20_source_tie).  Nothing is pinned: an edit of the source moves all of them.
  chain : a lazily read chunk, then a public operation that leaves hidden state (replace, attribute assignment,
          field access, indexing, a write, get_data_object); the RESULT T is snapshotted (reachable buffers, logical
          content, the bytes it writes), handed twice to a table-taking function (bnp.replace, the
          apply_to_npdataclass-wrapped sequence functions, interval arithmetic, genome intervals, table methods, a
          write) and compared.
"""
import ast
import inspect
import json
import os
import random
import shutil
import tempfile

from harness.lib import hx, zl, cz, cbool, clist

ID = 'C20'
RULE = ('two-step chains (10 hidden-state preparations x 21 table functions x 12 lazily read formats); registry of 115 public functions (98 + 17 round-6 entries: BAM tables, matrix dump/parse, PWM scores, rolling_window(mode=same), apply_variants_to_sequence, bedgraph pileup, EncodedArray / ragged array-function routes on strided, read-only and reversed arguments, MultiStream, compute graphs, replace/add_fields/sort_by/groupby chains on derived tables) x generated arguments (text numbers with -, +, scientific floats, empty fields; '
        'intervals; sequences; tables; genomic data) in four memory layouts (fresh, row-slice view, column-slice view, '
        'field of a file chunk); every lazily read format with all fields inspected; plus one static case per '
        'in-place-writing site.  non-trivial = the call returned without exception and the arguments reach at least '
        'one non-empty buffer (call), the chunk has >= 1 entry (chunk), the site has >= 1 write (site)')
EXHAUSTIVE = {'quick': False, 'thorough': False}
TIE = 'effect-program translator (Gen/C20.v regenerated every run) + correspondence'
ASSUMPTIONS = ['writes inside NumPy / npstructures follow the aliasing classes of the extractor table; every class the '
               'extractor relied on is probed at run time with np.shares_memory / write-through tests (probe case)',
               'the snapshot walker reaches every buffer of an argument: cross-checked on every run against generic gc '
               'reachability (gc.get_referents) for one argument tuple of every registered function and a lazily read chunk of '
               'every format (probe flag walker_complete)',
               'buffers longer than 24 bytes are compared inside Coq through a 16-byte SHA-256 prefix (full bytes in the replay)',
               'WRITE GATE (round 6: the whole package): every in-place-writing statement of bionumpy/**/*.py (subscript / attribute / '
               'augmented assignment, out=, sort/fill/resize/put.., np.put/place/copyto.., ufunc.at, setattr/delattr, del x[..], explicit '
               '__setitem__/__iadd__ calls, self.attr rebinding outside constructors) is inside a function the extractor analysed '
               '(Gen/C20.v, proved safe in Bridge/C20.v), or in ACCEPTED_WRITES (anchored files), or listed with a reason and a statement '
               'count in notes/C20.allowlist.json; anything else fails the run (probe flag no_unregistered_write). The allow-list reasons '
               'are reviewed by hand, not proved; two entries are marked NOT PROVED (rolling_window mode=same, VCF position -= 1) and one '
               'is a DEFECT of unreachable-in-practice code (memory_efficient_pileup)']
PARTIAL = ['THIN MODEL for call and chunk cases: the model of a registered call / of inspecting a chunk is "nothing changes" '
           '(plus flatten;view for the genotype encodings); model_ok there adds nothing to spec_ok. What carries those cases is '
           'spec_ok = snapshot comparison decided in Coq, i.e. differential testing over the registry, not proof',
           'the proofs are about effect programs; that the AST extractor renders the Python source faithfully is trusted (fail-closed '
           'rules, run-time probes of its tables, mutation self-test); it does not descend into NumPy/npstructures',
           'unclassified operations are over-approximated (write to every argument, alias of all) rather than rejected',
           'registry: see notes/C20.md for the public names not exercised (file-path / plotting / CLI / configuration helpers, '
           'set_backend, GenomicAnnotation, count_entries)',
           'virtual dispatch: self.m(..) / self(..) are resolved through the class the site is registered with; subclasses overriding '
           'a callee are separate sites or not covered (rolling_window: checker rejects 5 of 7 subclasses, left to the allow-list)']
PER_FILE = 40

# =============================================================================================== snapshots
def _np():
    import numpy as np
    return np


def _root(a):
    np = _np()
    while isinstance(getattr(a, 'base', None), np.ndarray):
        a = a.base
    return a


def _walk(obj, out, seen, path='', depth=0):
    """Collect every (root) ndarray reachable from obj."""
    np = _np()
    if depth > 14 or obj is None or isinstance(obj, (str, bytes, int, float, bool, complex, type)):
        return
    if id(obj) in seen:
        return
    seen[id(obj)] = obj
    if isinstance(obj, np.ndarray):
        r = _root(obj)
        if r.dtype != object:
            if r.dtype.kind in 'biufSUc?' and r.flags.c_contiguous:
                out.setdefault(id(r), (r, path))
        else:
            for i, x in enumerate(r.ravel().tolist()):
                _walk(x, out, seen, path + '[%d]' % i, depth + 1)
        return
    if isinstance(obj, np.generic):
        return
    if isinstance(obj, (list, tuple)):
        for i, x in enumerate(obj):
            _walk(x, out, seen, path + '[%d]' % i, depth + 1)
        return
    if isinstance(obj, dict):
        for k, x in obj.items():
            _walk(x, out, seen, path + '[%r]' % (k,), depth + 1)
        return
    mod = type(obj).__module__ or ''
    if not (mod.startswith('bionumpy') or mod.startswith('npstructures')):
        return
    d = getattr(obj, '__dict__', None)
    if d:
        for k, x in list(d.items()):
            _walk(x, out, seen, path + '.' + k, depth + 1)


def mem_snapshot(args):
    out, seen = {}, {}
    _walk(args, out, seen)
    items = sorted(out.values(), key=lambda t: t[1])
    return [(r, p, r.tobytes()) for r, p in items]


def logical(x, depth=0):
    """Canonical, JSON-able logical content of a value, computed WITHOUT calling mutating accessors."""
    np = _np()
    import dataclasses
    if depth > 10:
        return 'deep'
    if x is None or isinstance(x, (bool, int, str)):
        return repr(x)
    if isinstance(x, float):
        return float(x).hex()
    if isinstance(x, bytes):
        return x.hex()
    if isinstance(x, np.generic):
        return [str(x.dtype), x.tobytes().hex()]
    if isinstance(x, np.ndarray):
        if x.dtype == object:
            return ['obj', list(x.shape), [logical(y, depth + 1) for y in x.ravel().tolist()]]
        return ['nd', str(x.dtype), list(x.shape), np.ascontiguousarray(x).tobytes().hex()]
    if isinstance(x, (list, tuple)):
        return ['seq', [logical(y, depth + 1) for y in x]]
    if isinstance(x, dict):
        return ['dict', [[repr(k), logical(v, depth + 1)] for k, v in sorted(x.items(), key=lambda t: repr(t[0]))]]
    from bionumpy.encoded_array import EncodedArray
    from npstructures import RaggedArray
    from bionumpy.bnpdataclass import BNPDataClass
    from bionumpy.bnpdataclass.lazybnpdataclass import LazyBNPDataClass
    if isinstance(x, EncodedArray):
        return ['enc', repr(x.encoding), logical(x.raw(), depth + 1)]
    if isinstance(x, RaggedArray):
        sh = x._shape
        data = x._RaggedBase__data
        enc = None
        if isinstance(data, EncodedArray):
            enc = repr(data.encoding)
            data = data.raw()
        data = np.asarray(data).ravel()
        from npstructures.raggedshape import RaggedView, RaggedView2
        if isinstance(sh, (RaggedView, RaggedView2)):
            idx, shp = sh.get_flat_indices()          # a method of the shape: does not touch the array
            lens = np.asarray(shp.lengths).ravel().astype(np.int64)
            content = data[idx]
        else:
            starts = np.asarray(sh.starts).ravel().astype(np.int64)
            lens = np.asarray(sh.lengths).ravel().astype(np.int64)
            tot = int(lens.sum())
            if tot:
                off = np.arange(tot) - np.repeat(np.cumsum(lens) - lens, lens)
                content = data[np.repeat(starts, lens) + off]
            else:
                content = data[:0]
        return ['rag', enc, str(content.dtype), lens.tolist(), content.tobytes().hex()]
    if isinstance(x, LazyBNPDataClass):
        return ['lazy', logical(x.get_data_object(), depth + 1)]
    if isinstance(x, BNPDataClass):
        return ['table', type(x).__name__, [[f.name, logical(getattr(x, f.name), depth + 1)] for f in dataclasses.fields(x)]]
    mod = type(x).__module__ or ''
    if mod.startswith('bionumpy') or mod.startswith('npstructures'):
        if hasattr(x, '__next__') or inspect.isgenerator(x):
            return ['iter', [logical(y, depth + 1) for y in x]]
        d = getattr(x, '__dict__', {})
        return ['obj', type(x).__name__, [[k, logical(v, depth + 1)] for k, v in sorted(d.items())
                                          if not callable(v) and not k.startswith('__') and k not in _CACHE_ATTRS]]
    if inspect.isgenerator(x):
        return ['iter', [logical(y, depth + 1) for y in x]]
    return 'opaque:' + type(x).__name__


_CACHE_ATTRS = {'_computed', '_data_cache'}


def _flat(j):
    import json
    return json.dumps(j, sort_keys=True).encode()


# =============================================================================================== argument builders
def _text(strs, layout='fresh', enc=None):
    """EncodedRaggedArray of strs in one of four memory layouts."""
    import bionumpy as bnp
    from bionumpy.encoded_array import as_encoded_array
    if layout == 'fresh' or len(strs) == 0:
        a = as_encoded_array(list(strs))
    elif layout == 'rowslice':
        a = as_encoded_array(['99'] + list(strs) + ['77'])[1:-1]
    elif layout == 'colslice':
        a = as_encoded_array(['#' + s + '#' for s in strs])[:, 1:-1]
    elif layout == 'chunk':
        # a str column of a tab-separated file chunk read eagerly through the public reader
        d = tempfile.mkdtemp(prefix='c20_')
        try:
            p = os.path.join(d, 'x.bed')
            with open(p, 'wb') as f:
                for i, s in enumerate(strs):
                    f.write(b'chr1\t%d\t%d\t%s\t0\t+\n' % (i, i + 1, (s or '.').encode()))
            ch = bnp.open(p, buffer_type=bnp.Bed6Buffer).read()
            a = ch.name
            from npstructures import RaggedArray
            if not isinstance(a, RaggedArray):
                a = as_encoded_array(list(strs))
        finally:
            shutil.rmtree(d, ignore_errors=True)
    else:
        raise ValueError(layout)
    if enc is not None:
        a = as_encoded_array(a, enc)
    return a


def _intervals(rows, stranded=False, layout='fresh'):
    import numpy as np
    from bionumpy.datatypes import Interval, Bed6
    if stranded:
        t = Bed6.from_entry_tuples([(c, s, e, 'n%d' % i, 0, st) for i, (c, s, e, st) in enumerate(rows)])
    else:
        t = Interval.from_entry_tuples([(c, s, e) for c, s, e, st in rows])
    if layout == 'rowslice' and len(rows):
        t = np.concatenate([t[:1], t, t[:1]])[1:-1]
    return t


def _genome():
    import bionumpy as bnp
    return bnp.Genome.from_dict({'chr1': 60, 'chr2': 40, 'chr3': 25})


# =============================================================================================== registry
def registry():
    """name -> (build(v) -> tuple of args, call(*args) -> result).  Built lazily: imports bionumpy."""
    import numpy as np
    import bionumpy as bnp
    from bionumpy.io import strops
    from bionumpy.encoded_array import as_encoded_array, change_encoding, EncodedArray, EncodedRaggedArray
    from bionumpy.encodings import BaseEncoding
    from bionumpy import arithmetics as ar
    from bionumpy import sequence as sq
    from bionumpy.datatypes import Interval, SequenceEntry, Bed6
    from npstructures import RaggedArray
    R = {}

    def T(v):
        return _text(v['strs'], v.get('layout', 'fresh'))

    # ---- text / number conversion
    R['str_to_int'] = (lambda v: (T(v),), strops.str_to_int)
    R['str_to_float'] = (lambda v: (T(v),), strops.str_to_float)
    R['str_to_int_with_missing'] = (lambda v: (T(v),), strops.str_to_int_with_missing)
    R['str_to_float_with_missing'] = (lambda v: (T(v),), strops.str_to_float_with_missing)
    R['ints_to_strings'] = (lambda v: (np.array(v['ints'], dtype=int),), strops.ints_to_strings)
    R['int_lists_to_strings'] = (lambda v: (RaggedArray([list(r) for r in v['lists']]),), strops.int_lists_to_strings)
    R['float_to_strings'] = (lambda v: (np.array(v['floats'], dtype=float),), strops.float_to_strings)
    R['join'] = (lambda v: (T(v),), lambda t: strops.join(t, sep=','))
    R['split'] = (lambda v: (T(v).ravel() if v.get('layout', 'fresh') != 'fresh' else as_encoded_array(','.join(v['strs'])),),
                  lambda t: strops.split(t, sep=','))
    R['str_equal'] = (lambda v: (T(v), v['strs'][0] if v['strs'] else 'a'), strops.str_equal)
    R['str_equal_rr'] = (lambda v: (T(v), _text(list(reversed(v['strs'])), 'fresh')), strops.str_equal)
    # ---- encodings
    R['as_encoded_array_dna'] = (lambda v: (T(v),), lambda t: as_encoded_array(t, bnp.DNAEncoding))
    R['change_encoding'] = (lambda v: (_text(v['strs'], v.get('layout', 'fresh'), bnp.DNAEncoding),),
                            lambda t: change_encoding(t, BaseEncoding))
    R['dna_encode_list'] = (lambda v: (list(v['strs']),), lambda l: as_encoded_array(l, bnp.DNAEncoding))
    R['to_string'] = (lambda v: (T(v).ravel(),), lambda t: t.to_string())
    R['tolist'] = (lambda v: (T(v),), lambda t: t.tolist())
    R['encoded_eq'] = (lambda v: (T(v),), lambda t: t == 'A')
    R['genotype_encode'] = (lambda v: (T(v),), lambda t: bnp.encodings.vcf_encoding.GenotypeRowEncoding.encode(t))
    R['phased_genotype_encode'] = (lambda v: (T(v),), lambda t: bnp.encodings.vcf_encoding.PhasedGenotypeRowEncoding.encode(t))
    R['phased_haplotype_encode'] = (lambda v: (T(v),), lambda t: bnp.encodings.vcf_encoding.PhasedHaplotypeRowEncoding.encode(t))
    # ---- sequence functions
    D = lambda v: _text(v['strs'], v.get('layout', 'fresh'), bnp.DNAEncoding)
    R['get_kmers'] = (lambda v: (D(v),), lambda s: sq.get_kmers(s, 2))
    R['count_kmers'] = (lambda v: (D(v),), lambda s: bnp.sequence.kmers.count_kmers(s, 2))
    R['get_minimizers'] = (lambda v: (D(v),), lambda s: sq.get_minimizers(s, 2, 3))
    R['match_string'] = (lambda v: (D(v),), lambda s: sq.match_string(s, 'AC'))
    R['reverse_complement'] = (lambda v: (D(v),), sq.get_reverse_complement)
    R['reverse_complement_ascii'] = (lambda v: (T(v),), sq.get_reverse_complement)
    R['count_encoded'] = (lambda v: (D(v),), lambda s: sq.count_encoded(s, axis=-1))
    R['translate'] = (lambda v: (T(v),), lambda s: bnp.sequence.translate.Translate().windowed(s))
    R['translate_entries'] = (lambda v: (SequenceEntry.from_entry_tuples([('s%d' % i, s) for i, s in enumerate(v['strs'])]),),
                              sq.translate_dna_to_protein)
    R['motif_scores'] = (lambda v: (D(v),), lambda s: sq.get_motif_scores(
        s, bnp.sequence.position_weight_matrix.PWM.from_dict({'A': [1., 2.], 'C': [2., 1.], 'G': [0., 1.], 'T': [3., 0.5]})))
    # ---- interval arithmetic
    IV = lambda v: _intervals(v['rows'], False, v.get('layout', 'fresh'))
    SIV = lambda v: _intervals(v['rows'], True, v.get('layout', 'fresh'))
    R['merge_intervals'] = (lambda v: (IV(v),), lambda i: ar.merge_intervals(i))
    R['merge_intervals_d'] = (lambda v: (IV(v),), lambda i: ar.merge_intervals(i, distance=3))
    R['sort_intervals'] = (lambda v: (IV(v),), ar.sort_intervals)
    R['count_overlap'] = (lambda v: (IV(v), _intervals(v['rows2'])), ar.count_overlap)
    R['intersect'] = (lambda v: (IV(v), _intervals(v['rows2'])), ar.intersect)
    R['global_intersect'] = (lambda v: (IV(v), _intervals(v['rows2'])), ar.global_intersect)
    R['unique_intersect'] = (lambda v: (IV(v), _intervals(v['rows2'])), lambda a, b: ar.unique_intersect(a, b, 200))
    R['get_boolean_mask'] = (lambda v: (IV(v),), lambda a: ar.get_boolean_mask(a, 60))
    R['get_pileup'] = (lambda v: (IV(v),), lambda a: ar.get_pileup(a, 60))
    R['jaccard'] = (lambda v: (IV(v), _intervals(v['rows2'])), lambda a, b: ar.jaccard({'chr1': 60, 'chr2': 40, 'chr3': 25}, a, b))
    R['forbes'] = (lambda v: (IV(v), _intervals(v['rows2'])), lambda a, b: ar.forbes({'chr1': 60, 'chr2': 40, 'chr3': 25}, a, b))
    # ---- genomic data
    GI = lambda v: _genome().get_intervals(SIV(v), stranded=True)
    GU = lambda v: _genome().get_intervals(IV(v))
    R['gi_merged'] = (lambda v: (GU(v),), lambda g: g.merged())
    R['gi_merged_d'] = (lambda v: (GU(v),), lambda g: g.merged(distance=2))
    R['gi_sorted'] = (lambda v: (GI(v),), lambda g: g.sorted())
    R['gi_pileup'] = (lambda v: (GU(v),), lambda g: g.get_pileup().to_dict())
    R['gi_mask'] = (lambda v: (GU(v),), lambda g: g.get_mask().to_dict())
    R['gi_extended'] = (lambda v: (GI(v),), lambda g: g.extended_to_size(7))
    R['gi_clip'] = (lambda v: (GI(v),), lambda g: g.clip())
    R['gi_location'] = (lambda v: (GI(v),), lambda g: g.get_location('stop'))
    R['gi_windows'] = (lambda v: (GI(v),), lambda g: g.get_location('start').get_windows(flank=3))
    R['gi_index'] = (lambda v: (GI(v),), lambda g: g[::2])
    R['ga_extract'] = (lambda v: (GU(v).get_pileup(), GU(v)), lambda a, g: a[g])
    R['ga_sum'] = (lambda v: (GU(v).get_pileup(),), lambda a: [a.sum(), (a + 1).to_dict(), np.log(a + 1).to_dict()])
    R['ga_from_bedgraph'] = (lambda v: (bnp.datatypes.BedGraph.from_entry_tuples(
        [(c, s, e, float(k)) for k, (c, s, e, st) in enumerate(_nonoverlap(v['rows']))]),),
        lambda b: _genome().get_track(b).to_dict())
    # ---- table methods
    R['table_replace'] = (lambda v: (IV(v),), lambda t: bnp.replace(t, start=t.start + 1))
    R['table_index'] = (lambda v: (SIV(v),), lambda t: [t[::-1], t[t.start >= 0], t[[0] * min(1, len(t))]])
    R['table_concat'] = (lambda v: (SIV(v), SIV(v)), lambda a, b: np.concatenate([a, b]))
    R['table_tolist'] = (lambda v: (SIV(v),), lambda t: [repr(e) for e in t.tolist()])
    R['table_topandas'] = (lambda v: (SIV(v),), lambda t: t.topandas().to_csv())
    R['table_sort_by'] = (lambda v: (SIV(v),), lambda t: t.sort_by('start'))
    R['table_astype'] = (lambda v: (SIV(v),), lambda t: t.astype(Interval))
    R['table_str'] = (lambda v: (SIV(v),), lambda t: str(t))
    R['table_add_fields'] = (lambda v: (IV(v),), lambda t: t.add_fields({'extra': [int(x) for x in range(len(t))]}, field_type_map={'extra': int}))
    R['table_todict'] = (lambda v: (SIV(v),), lambda t: t.todict())
    R['table_write'] = (lambda v: (SIV(v),), _write_table)
    # ---- widened registry (phase 3): reductions, grouping, lookups, remaining sequence / genomic / encoding API
    from bionumpy.streams import NpDataclassStream, BnpStream
    from bionumpy.datatypes import LocationEntry
    IA = lambda v: np.array([abs(x) % 50 for x in v['ints']], dtype=int)
    R['bincount'] = (lambda v: (IA(v),), lambda a: bnp.bincount(a))
    R['histogram'] = (lambda v: (np.array(v['floats'], dtype=float),), lambda a: bnp.histogram(a, bins=3, range=(-3.0, 3.0)))
    R['mean'] = (lambda v: (np.array(v['floats'], dtype=float),), lambda a: bnp.mean(a))
    R['quantile'] = (lambda v: (IA(v),), lambda a: bnp.quantile(a, np.array([0.5])))
    R['stream_bincount'] = (lambda v: (IA(v), IA(v)[::-1].copy()), lambda a, b: bnp.bincount(BnpStream(iter([a, b])), minlength=50))
    R['groupby'] = (lambda v: (IV(v),), lambda t: [(k, g) for k, g in bnp.groupby(t, 'chromosome')])
    R['ragged_slice'] = (lambda v: (T(v),), lambda t: bnp.ragged_slice(t, starts=np.ones(len(t), dtype=int)))
    R['ragged_slice_ends'] = (lambda v: (T(v),), lambda t: bnp.ragged_slice(t, np.zeros(len(t), dtype=int), np.ones(len(t), dtype=int)))
    R['encoded_lookup'] = (lambda v: (D(v), np.arange(4) * 10), lambda s, vals: bnp.EncodedLookup(vals, bnp.DNAEncoding)[s.ravel()])
    R['encoded_counts'] = (lambda v: (D(v),), lambda s: [(sq.count_encoded(s.ravel()) + sq.count_encoded(s.ravel())).counts,
                                                       (sq.count_encoded(s, axis=-1) + 1).counts])
    R['get_sequences'] = (lambda v: (D(v).ravel(), _sub_intervals(v)), sq.get_sequences)
    R['get_strand_specific_sequences'] = (lambda v: (D(v).ravel(), _sub_intervals(v, True)), sq.get_strand_specific_sequences)
    R['indexed_fasta_intervals'] = (lambda v: (_sub_intervals(v, chrom='s0'),), lambda iv: _indexed_fasta(v_last[0], iv))
    R['genome_get_locations'] = (lambda v: (LocationEntry.from_entry_tuples([(c, s) for c, s, e, st in v['rows']]),),
                                 lambda l: _genome().get_locations(l).get_windows(flank=2))
    R['gl_sorted'] = (lambda v: (_genome().get_locations(LocationEntry.from_entry_tuples([(c, s) for c, s, e, st in v['rows']])),),
                      lambda g: g.sorted())
    R['gi_map_locations'] = (lambda v: (GU(v), LocationEntry.from_entry_tuples([(c, s) for c, s, e, st in v['rows']])),
                             lambda g, l: g.map_locations(l))
    R['gi_from_fields'] = (lambda v: (IV(v),), lambda t: bnp.GenomicIntervals.from_fields(
        _genome().get_genome_context(), t.chromosome, t.start, t.stop).get_data())
    R['genomic_sequence_extract'] = (lambda v: (GI(v),), lambda g: _genomic_sequence()[g])
    R['binned_genome_count'] = (lambda v: (LocationEntry.from_entry_tuples([(c, s) for c, s, e, st in v['rows']]),),
                                lambda l: _binned(l))
    R['ga_index'] = (lambda v: (GU(v).get_pileup(), GU(v).get_mask()), lambda a, m: [a[m].sum() if hasattr(a[m], 'sum') else 0, (a * 2 + a).to_dict(), a.get_data()])
    R['stream_reverse_complement'] = (lambda v: (D(v), D(v)), lambda a, b: list(sq.get_reverse_complement(BnpStream(iter([a, b])))))
    from bionumpy import encodings as E
    for _nm, _enc, _fam in [('acgtn', E.ACGTnEncoding, 'dna'), ('rna', E.RNAENcoding, 'rna'), ('amino', E.AminoAcidEncoding, 'amino'),
                            ('strand', E.StrandEncoding, 'strand'), ('digit', E.DigitEncoding, 'digit'), ('quality', E.QualityEncoding, 'qual')]:
        R['encode_' + _nm] = (lambda v: (T(v),), (lambda enc: lambda t: as_encoded_array(t, enc))(_enc))
        R['decode_' + _nm] = ((lambda enc: lambda v: (as_encoded_array(T(v), enc),))(_enc),
                              (lambda enc: lambda t: [enc.decode(t.ravel()) if hasattr(enc, 'decode') else None, change_encoding(t, BaseEncoding) if _nm != 'quality' else None])(_enc))
    _registry_round6(R)
    return R


# --------------------------------------------------------------------------------------------- round 6 (dynamic side)
R6_FLAT_LAYOUTS = ['contig', 'strided', 'readonly', 'reversed']     # EncodedArray / ndarray arguments
R6_NUM_LAYOUTS = ['fresh', 'rowslice', 'noncontig', 'readonly']     # numeric matrices / ragged arrays
R6_BAM_LAYOUTS = ['fresh', 'rowslice', 'mask', 'touched']           # a BAM chunk; touched = every field already accessed
R6_TABLE_LAYOUTS = ['fresh', 'rowslice', 'derived_replace', 'derived_sorted']   # derived_* = the result of a previous operation


def _flat_layout(a, layout):
    """A flat EncodedArray / ndarray as: the array itself, every other element of a twice-as-long array (strided view), a
    read-only array, or a reversed (negative stride) view."""
    import numpy as np
    if layout == 'contig':
        return a
    if layout == 'strided':
        return _interleave_self(a)[::2]
    if layout == 'readonly':
        b = a.copy()
        (b.raw() if hasattr(b, 'raw') else b).flags.writeable = False
        return b
    if layout == 'reversed':
        return a[::-1].copy()[::-1]
    raise ValueError(layout)


def _interleave_self(a):
    import numpy as np
    idx = np.repeat(np.arange(len(a)), 2)
    return a[idx]


def _num_matrix(v):
    import numpy as np
    m = np.array(v['matrix'], dtype=int)
    lay = v.get('layout', 'fresh')
    if lay == 'rowslice':
        m = np.concatenate([m[:1], m, m[:1]])[1:-1]
    elif lay == 'noncontig':
        m = np.ascontiguousarray(m.T).T                # Fortran-ordered view of a C buffer
    elif lay == 'readonly':
        m = m.copy()
        m.flags.writeable = False
    return m


def _num_ragged(v):
    import numpy as np
    from npstructures import RaggedArray
    rows = [list(r) for r in v['lists']]
    lay = v.get('layout', 'fresh')
    if lay == 'rowslice':
        return RaggedArray([[7]] + rows + [[8, 9]])[1:-1]
    if lay == 'noncontig':
        return RaggedArray([r + [0] for r in rows])[:, :-1]
    a = RaggedArray(rows)
    if lay == 'readonly':
        a.ravel().flags.writeable = False
    return a


def _bam_chunk(v):
    import numpy as np
    import bionumpy as bnp
    d = tempfile.mkdtemp(prefix='c20_')
    try:
        p = os.path.join(d, 'x.bam')
        with open(p, 'wb') as f:
            f.write(bytes.fromhex(v['bam']))
        ch = bnp.open(p).read()
    finally:
        shutil.rmtree(d, ignore_errors=True)
    lay = v.get('layout', 'fresh')
    if lay == 'rowslice':
        ch = ch[1:]
    elif lay == 'mask':
        ch = ch[np.arange(len(ch)) % 2 == 0]
    elif lay == 'touched':
        for f in _field_names(ch):
            getattr(ch, f)
    return ch


def _tries(*thunks):
    """Results of several operations, an exception becoming its class name (deterministic)."""
    out = []
    for t in thunks:
        try:
            out.append(t())
        except Exception as e:
            out.append('error:' + type(e).__name__)
    return out


def _table_layout(v, stranded=False):
    import bionumpy as bnp
    lay = v.get('layout', 'fresh')
    if lay in ('fresh', 'rowslice'):
        return _intervals(v['rows'], stranded, lay)
    t = _intervals(v['rows'], stranded, 'fresh')
    if lay == 'derived_replace':
        return bnp.replace(t, start=t.start + 0)          # shares every other column with t
    if lay == 'derived_sorted':
        return t.sort_by('stop')[::-1]
    raise ValueError(lay)


def _gen_bam(rng, n):
    """Bytes of a small valid BAM file (built with C16's spec-level encoder)."""
    from harness.props import c16
    refs = [['chr1', 1000], ['chr2', 500]]
    recs = []
    for _ in range(n):
        r = c16._rec(rng, 2, name_len=rng.randint(1, 6), n_cigar=rng.randint(1, 3), l_seq=rng.randint(1, 9), unmapped=False, tags=False)
        r['pos'] = rng.randint(0, 400)
        r['cigar'] = [[rng.randrange(9), rng.randint(1, 60)] for _ in r['cigar']]
        r['flag'] = rng.choice([0, 16, 99, 147])
        recs.append(r)
    case = dict(text=b'@HD\tVN:1.6\n'.hex(), refs=refs, recs=recs, container=dict(kind='gzip'))
    return c16.container_bytes(case, c16.stream_bytes(case))


def _registry_round6(R):
    """Round 6: public entry points the registry did not exercise — BAM tables, matrix dump / parse, PWM scores over a
    whole sequence, rolling_window(mode='same'), apply_variants_to_sequence, bedgraph.get_pileup, EncodedArray
    array-function routes on strided / read-only / reversed arguments, numeric ragged ufuncs, MultiStream, streamed
    compute graphs, and replace / add_fields / sort_by / groupby chains on derived tables."""
    import numpy as np
    import bionumpy as bnp
    from bionumpy.encoded_array import as_encoded_array
    from npstructures import RaggedArray
    from bionumpy.datatypes import Interval, VCFEntry

    D = lambda v: _text(v['strs'], v.get('layout', 'fresh'), bnp.DNAEncoding)
    DF = lambda v: _flat_layout(as_encoded_array(''.join(v['strs']), bnp.DNAEncoding), v.get('layout', 'contig'))
    TF = lambda v: _flat_layout(as_encoded_array(','.join(v['strs'])), v.get('layout', 'contig'))
    pwm = lambda: bnp.sequence.position_weight_matrix.PWM.from_dict({'A': [1., 2.], 'C': [2., 1.], 'G': [0., 1.], 'T': [3., 0.5]})
    # ---- BAM tables (binary reader; file bytes built with C16's encoder)
    R['bam_fields'] = (lambda v: (_bam_chunk(v),), lambda ch: _tries(*[(lambda f=f: getattr(ch, f)) for f in _field_names(ch)]))
    R['bam_to_interval'] = (lambda v: (_bam_chunk(v),), lambda ch: _tries(lambda: bnp.alignments.alignment_to_interval(ch)))
    R['bam_table_ops'] = (lambda v: (_bam_chunk(v),), lambda ch: _tries(
        lambda: ch[::-1].position, lambda: np.concatenate([ch, ch]).name, lambda: ch.get_data_object().tolist()[:1] and len(ch),
        lambda: ch[ch.mapq >= 0].flag, lambda: bnp.replace(ch, position=ch.position + 1).position, lambda: str(ch.cigar_length)))
    # ---- matrices
    from bionumpy.io import matrix_dump as md
    R['matrix_to_csv'] = (lambda v: (_num_matrix(v),), lambda m: _tries(
        lambda: md.matrix_to_csv(m, header=['c%d' % i for i in range(m.shape[-1])]), lambda: md.matrix_to_csv(m, sep='\t')))
    R['parse_matrix'] = (lambda v: (_flat_layout(as_encoded_array(v['text']), v.get('layout', 'contig')),), lambda t: _tries(
        lambda: [md.parse_matrix(t, field_type=int).data, md.parse_matrix(t, field_type=int).row_names],
        lambda: md.parse_matrix(t, field_type=float, rowname_type=None).data))
    # ---- sequence functions not covered before
    R['pwm_calculate_scores'] = (lambda v: (DF(v),), lambda s: pwm().calculate_scores(s))
    # mode='same' builds its windows with as_strided over the whole sequence, so the last window_size-1 windows READ BEYOND
    # THE END of the buffer (their results are zeroed afterwards).  A PositionWeightMatrix validates / indexes with those
    # bytes: whether it raises depends on adjacent heap memory, so the same call can give different results (seen in the
    # thorough tier: rolling_same_flat, reversed layout, results_differ with unchanged inputs).  Not an input modification
    # and not deterministic, so the PWM route is NOT part of the registered call (see notes, Round 6); the k-mer encoder and
    # the string matcher do not look at the values and are deterministic.
    R['rolling_same'] = (lambda v: (D(v),), lambda s: _tries(
        lambda: bnp.sequence.kmers.KmerEncoder(2, bnp.DNAEncoding).rolling_window(s, mode='same'),
        lambda: bnp.sequence.string_matcher.StringMatcher('AC', bnp.DNAEncoding).rolling_window(s, mode='same')))
    R['rolling_same_flat'] = (lambda v: (DF(v),), lambda s: _tries(
        lambda: bnp.sequence.kmers.KmerEncoder(2, bnp.DNAEncoding).rolling_window(s, mode='same'),
        lambda: np.asarray(bnp.sequence.string_matcher.StringMatcher('AC', bnp.DNAEncoding).rolling_window(s, mode='same'))[:-1]))

    def variants_for(seq):
        n = len(seq)
        pos = sorted(set([0, n // 2, n - 1]))
        s = seq.to_string() if hasattr(seq, 'to_string') else str(seq)
        comp = {'A': 'C', 'C': 'G', 'G': 'T', 'T': 'A'}
        return VCFEntry.from_entry_tuples([('chr1', p, '.', s[p], comp.get(s[p], 'A'), '.', '.', '.') for p in pos])
    from bionumpy.variants.consensus import apply_variants_to_sequence
    R['apply_variants'] = (lambda v: (DF(v), variants_for(as_encoded_array(''.join(v['strs']), bnp.DNAEncoding))),
                           lambda s, vs: _tries(lambda: apply_variants_to_sequence(s, vs)))
    from bionumpy.arithmetics import bedgraph as bg
    R['bedgraph_get_pileup'] = (lambda v: (_table_layout(v),), lambda t: _tries(lambda: [bg.get_pileup(t, 60).starts, bg.get_pileup(t, 60).values]))
    # ---- EncodedArray array-function / ufunc routes on views, strides, read-only arrays
    R['ea_array_functions'] = (lambda v: (DF(v),), lambda s: _tries(
        lambda: s == 'A', lambda: np.concatenate([s, s]), lambda: np.append(s, s), lambda: np.insert(s, 0, s[:1]),
        lambda: np.where(s == 'A', s, s[::-1]), lambda: np.zeros_like(s), lambda: np.argsort(s), lambda: np.bincount(s, minlength=4),
        lambda: np.lexsort((s,)), lambda: s[::-1], lambda: s[s != 'C'], lambda: np.lib.stride_tricks.sliding_window_view(s, 2),
        lambda: bnp.EncodedRaggedArray(s, [len(s)]), lambda: s.reshape(1, -1), lambda: np.full_like(s, 1), lambda: s.copy()))
    R['ea_text_functions'] = (lambda v: (TF(v),), lambda s: _tries(
        lambda: s == ',', lambda: bnp.io.strops.split(s, ','), lambda: np.flatnonzero(s == ','), lambda: s.to_string(),
        lambda: np.concatenate([s, s[:1]]), lambda: bnp.change_encoding(s, bnp.encodings.BaseEncoding), lambda: s[1:-1].to_string()))
    R['ragged_numeric'] = (lambda v: (_num_ragged(v),), lambda a: _tries(
        lambda: a + 1, lambda: np.add(a, a), lambda: a.sum(axis=-1), lambda: a.mean(axis=-1), lambda: a.max(axis=-1), lambda: a[:, 0],
        lambda: a[::-1], lambda: np.cumsum(a, axis=-1), lambda: a.ravel() * 2, lambda: a.tolist(), lambda: np.concatenate([a, a]),
        lambda: bnp.io.strops.int_lists_to_strings(a), lambda: a.astype(float), lambda: -a, lambda: a == a))
    # ---- streams
    from bionumpy.streams import NpDataclassStream, BnpStream, MultiStream
    from bionumpy.computation_graph import StreamNode, compute

    def multistream(a, b):
        ms = MultiStream({'chr1': 60, 'chr2': 40, 'chr3': 25}, intervals=NpDataclassStream(iter([a, b]), dataclass=Interval),
                         positions={'chr1': a.start, 'chr2': b.start, 'chr3': a.stop})
        return [[i, p] for i, p in zip(ms.intervals, ms.positions)]
    R['multistream'] = (lambda v: (_table_layout(dict(v, rows=[r for r in v['rows'] if r[0] == 'chr1'] or [['chr1', 1, 2, '+']])),
                                   _intervals([r for r in v['rows2'] if r[0] == 'chr2'] or [['chr2', 3, 9, '+']])),
                        lambda a, b: _tries(lambda: multistream(a, b)))

    def graph(a, b):
        x, y = StreamNode(iter([a[:2], a[2:]])), StreamNode(iter([b[:2], b[2:]]))
        z = x * y + y - x
        return [z.compute(), np.sum(StreamNode(iter([a[:1], a[1:]]))).compute(),
                np.histogram(StreamNode(iter([a, b])), bins=3, range=(0, 60)).compute()[0]]
    IAr = lambda v, k: _flat_layout(np.array([abs(x) % 50 for x in (v['ints'] * 4)[:4]], dtype=int)[::k].copy() if k < 0 else
                                    np.array([abs(x) % 50 for x in (v['ints'] * 4)[:4]], dtype=int), v.get('layout', 'contig'))
    R['compute_graph'] = (lambda v: (IAr(v, 1), IAr(v, -1)), lambda a, b: _tries(lambda: graph(a, b)))
    R['stream_pipeline'] = (lambda v: (_table_layout(v), _intervals(v['rows2'])), lambda a, b: _tries(
        lambda: [(k, g) for k, g in bnp.groupby(NpDataclassStream(iter([a.sort_by('chromosome'), b.sort_by('chromosome')]), dataclass=Interval), 'chromosome')],
        lambda: bnp.bincount(BnpStream(iter([a.start, b.start])), minlength=70),
        lambda: bnp.mean(BnpStream(iter([a.stop.astype(float), b.stop.astype(float)])))))
    # ---- chains on (derived) tables
    R['table_chain'] = (lambda v: (_table_layout(v, True),), lambda t: _tries(
        lambda: bnp.replace(bnp.replace(t, start=t.start + 1), stop=t.stop + 1),
        lambda: bnp.replace(t, start=t.start + 1).add_fields({'extra': list(range(len(t)))}, field_type_map={'extra': int}).sort_by('extra'),
        lambda: [(k, g.sort_by('stop')) for k, g in bnp.groupby(t.sort_by('chromosome'), 'chromosome')],
        lambda: np.concatenate([t.sort_by('start'), t[::-1]]).sort_by('stop'),
        lambda: bnp.replace(t.sort_by('start')[::2], name=t.name[::2]).tolist().__len__(),
        lambda: t.astype(Interval).sort_by('start').start))


v_last = [None]


def _sub_intervals(v, stranded=False, chrom='chr1'):
    """Intervals inside the concatenated sequence of v['strs'] (for get_sequences and the indexed FASTA)."""
    import numpy as np
    from bionumpy.datatypes import Interval, Bed6
    total = sum(len(s) for s in v['strs'])
    first = len(v['strs'][0])
    lim = first if chrom == 's0' else total
    rows = [(chrom, 0, lim), (chrom, min(1, lim - 1), lim), (chrom, 0, max(1, lim - 1))]
    v_last[0] = v
    if stranded:
        return Bed6.from_entry_tuples([(c, s, e, 'n', 0, '+-'[i % 2]) for i, (c, s, e) in enumerate(rows)])
    return Interval.from_entry_tuples(rows)


def _indexed_fasta(v, iv):
    import bionumpy as bnp
    d = tempfile.mkdtemp(prefix='c20_')
    try:
        p = os.path.join(d, 'g.fa')
        with open(p, 'w') as f:
            for i, s in enumerate(v['strs']):
                f.write('>s%d\n%s\n' % (i, s))
        fa = bnp.open_indexed(p)
        return [fa.get_interval_sequences(iv), fa['s0']]
    finally:
        shutil.rmtree(d, ignore_errors=True)


def _genomic_sequence():
    from bionumpy.genomic_data import GenomicSequence
    return GenomicSequence.from_dict({'chr1': 'ACGT' * 15, 'chr2': 'GGCA' * 10, 'chr3': 'T' * 25})


def _binned(l):
    from bionumpy.genomic_data import BinnedGenome
    b = BinnedGenome(_genome().get_genome_context(), bin_size=10)
    b.count(l)
    return b.count_dict


def _split_ints(t):
    import bionumpy as bnp
    from bionumpy.io.delimited_buffers import DelimitedBuffer
    return DelimitedBuffer._parse_split_ints(DelimitedBuffer.__new__(DelimitedBuffer), t)


def _nonoverlap(rows):
    out, last = [], {}
    for c, s, e, st in sorted(rows):
        s = max(s, last.get(c, 0))
        if e > s:
            out.append((c, s, e, st))
            last[c] = e
    return out


def _write_table(t):
    import bionumpy as bnp
    d = tempfile.mkdtemp(prefix='c20_')
    try:
        p = os.path.join(d, 'o.bed')
        with bnp.open(p, 'w', buffer_type=bnp.Bed6Buffer) as f:
            f.write(t)
        return open(p, 'rb').read()
    finally:
        shutil.rmtree(d, ignore_errors=True)


def _observe_call(case):
    R = registry()
    build, fn = R[case['fn']]
    args = build(case['v'])
    snap = mem_snapshot(args)
    log0 = [logical(a) for a in args]
    out = dict(paths=[p for _, p, _ in snap], before=[b.hex() for _, _, b in snap], log_before=_flat(log0).hex())
    from npstructures import RaggedArray
    from npstructures.raggedshape import RaggedView, RaggedView2
    out['cow'] = bool(args and isinstance(args[0], RaggedArray) and isinstance(args[0]._shape, (RaggedView, RaggedView2)))
    tgt = [i for i, p in enumerate(out['paths']) if p.startswith('[0]') and '__data' in p]
    out['target'] = tgt[0] if tgt else 0
    res = []
    for _ in range(2):
        try:
            r = fn(*args)
            res.append(_flat(['ok', logical(r)]).hex())
        except Exception as e:
            res.append(_flat(['error', type(e).__name__]).hex())
            out.setdefault('error', '%s: %s' % (type(e).__name__, str(e)[:200]))
    out['after'] = [r.tobytes().hex() for r, _, _ in snap]
    out['log_after'] = _flat([logical(a) for a in args]).hex()
    out['res1'], out['res2'] = res
    return out


# =============================================================================================== file chunks
def _num(rng, kind='int'):
    if kind == 'int':
        return str(rng.choice([0, 1, 7, 10, 99, 100, 12345, rng.randint(0, 10 ** 6)]))
    if kind == 'sint':
        return rng.choice(['', '-', '+']) + str(rng.randint(0, 5000))
    if kind == 'float':
        return rng.choice(['', '-']) + rng.choice(['0.5', '1.25', '10', '3.0', '1e3', '2.5e-2', '1.5e+2', '7', '0.001', '-1'.lstrip('-')])
    raise ValueError(kind)


def gen_file(fmt, rng, n):
    """(file name, bytes, buffer type name or None).  Mostly valid files with the special paths of the parsers."""
    chroms = ['chr1', 'chr2', 'chrX']
    L = []
    bt = None
    name = 'x.' + fmt
    pos = sorted(rng.randint(0, 5000) for _ in range(n))
    if fmt == 'bed':
        for i in range(n):
            L.append('%s\t%d\t%d' % (rng.choice(chroms), pos[i], pos[i] + rng.randint(1, 500)))
    elif fmt == 'bed6':
        bt = 'Bed6Buffer'
        name = 'x.bed'
        for i in range(n):
            L.append('%s\t%d\t%d\tn%d\t%s\t%s' % (rng.choice(chroms), pos[i], pos[i] + rng.randint(1, 500), i, _num(rng), rng.choice('+-.')))
    elif fmt == 'bed12':
        bt = 'Bed12Buffer'
        name = 'x.bed'
        for i in range(n):
            k = rng.randint(1, 3)
            sizes = ','.join(str(rng.randint(1, 90)) for _ in range(k)) + (',' if rng.random() < 0.5 else '')
            starts = ','.join(str(j * 100) for j in range(k)) + (',' if rng.random() < 0.5 else '')
            L.append('%s\t%d\t%d\tn%d\t%s\t%s\t%d\t%d\t%d,%d,%d\t%d\t%s\t%s' % (
                rng.choice(chroms), pos[i], pos[i] + 300, i, _num(rng), rng.choice('+-'), pos[i], pos[i] + 300,
                rng.randint(0, 255), rng.randint(0, 255), rng.randint(0, 255), k, sizes, starts))
    elif fmt == 'narrowPeak':
        for i in range(n):
            L.append('%s\t%d\t%d\tp%d\t%s\t%s\t%s\t%s\t%s\t%d' % (
                rng.choice(chroms), pos[i], pos[i] + rng.randint(1, 500), i, _num(rng), rng.choice('+-.'),
                _num(rng, 'float'), _num(rng, 'float'), _num(rng, 'float'), rng.randint(0, 50)))
    elif fmt == 'bdg':
        for i in range(n):
            L.append('%s\t%d\t%d\t%s' % (rng.choice(chroms), pos[i], pos[i] + rng.randint(1, 500), _num(rng, 'float')))
    elif fmt in ('vcf', 'vcfm', 'vcfp'):
        name = 'x.vcf'
        bt = {'vcf': None, 'vcfm': 'VCFMatrixBuffer', 'vcfp': 'PhasedVCFMatrixBuffer'}[fmt]
        ns = rng.randint(1, 3)
        L += ['##fileformat=VCFv4.2',
              '##INFO=<ID=DP,Number=1,Type=Integer,Description="d">',
              '##INFO=<ID=AC,Number=A,Type=Integer,Description="a">',
              '##INFO=<ID=AF,Number=A,Type=Float,Description="f">',
              '##INFO=<ID=DB,Number=0,Type=Flag,Description="b">',
              '##FORMAT=<ID=GT,Number=1,Type=String,Description="g">',
              '#CHROM\tPOS\tID\tREF\tALT\tQUAL\tFILTER\tINFO\tFORMAT\t' + '\t'.join('s%d' % j for j in range(ns))]
        for i in range(n):
            k = rng.randint(1, 2)
            info = ['DP=%d' % rng.randint(0, 99), 'AC=' + ','.join(str(rng.randint(0, 9)) for _ in range(k)),
                    'AF=' + ','.join(rng.choice(['0.5', '0.25', '1e-2', '1']) for _ in range(k))]
            if rng.random() < 0.4:
                info.append('DB')
            if fmt == 'vcfp':
                gts = [rng.choice(['0|0', '0|1', '1|0', '1|1']) for _ in range(ns)]
            else:
                gts = [rng.choice(['0/0', '0/1', '1/1', './.', '0|1', '1|1']) for _ in range(ns)]
            L.append('%s\t%d\trs%d\t%s\t%s\t%s\tPASS\t%s\tGT\t%s' % (
                rng.choice(chroms), pos[i] + 1, i, rng.choice('ACGT'), ','.join(rng.choice('ACGT') for _ in range(k)),
                rng.choice(['.', '30', '99']), ';'.join(info), '\t'.join(gts)))
    elif fmt in ('gff', 'gtf'):
        for i in range(n):
            attr = 'ID=g%d;Name=x%d' % (i, i) if fmt == 'gff' else 'gene_id "g%d"; transcript_id "t%d";' % (i, i)
            L.append('%s\tsrc\t%s\t%d\t%d\t%s\t%s\t%s\t%s' % (rng.choice(chroms), rng.choice(['gene', 'exon', 'CDS']),
                                                          pos[i] + 1, pos[i] + 200, rng.choice(['.', '0.5', '10']),
                                                          rng.choice('+-.'), rng.choice('.012'), attr))
    elif fmt == 'sam':
        L += ['@HD\tVN:1.6\tSO:coordinate', '@SQ\tSN:chr1\tLN:10000']
        for i in range(n):
            l = rng.randint(1, 12)
            L.append('r%d\t%d\tchr1\t%d\t%d\t%dM\t*\t0\t0\t%s\t%s' % (
                i, rng.choice([0, 16, 99]), pos[i] + 1, rng.randint(0, 60), l,
                ''.join(rng.choice('ACGT') for _ in range(l)), ''.join(rng.choice('!#5I') for _ in range(l))))
    elif fmt == 'fastq':
        for i in range(n):
            l = rng.randint(1, 15)
            L += ['@r%d' % i, ''.join(rng.choice('ACGTN') for _ in range(l)), '+', ''.join(rng.choice('!#5I') for _ in range(l))]
    elif fmt == 'fa':
        for i in range(n):
            l = rng.randint(1, 25)
            s = ''.join(rng.choice('ACGTacgtN') for _ in range(l))
            w = rng.choice([5, 8, 60])
            L += ['>s%d' % i] + [s[j:j + w] for j in range(0, l, w)]
    elif fmt == 'fa2':
        name = 'x.fa'
        bt = 'TwoLineFastaBuffer'
        for i in range(n):
            L += ['>s%d' % i, ''.join(rng.choice('ACGT') for _ in range(rng.randint(1, 25)))]
    elif fmt == 'gfa':
        for i in range(n):
            L.append('S\t%d\t%s' % (i + 1, ''.join(rng.choice('ACGT') for _ in range(rng.randint(1, 20)))))
    elif fmt == 'sizes':
        for i in range(n):
            L.append('chr%d\t%d' % (i + 1, rng.randint(1, 10 ** 6)))
    else:
        raise ValueError(fmt)
    return name, ('\n'.join(L) + '\n').encode(), bt


FORMATS = ['bed', 'bed6', 'bed12', 'narrowPeak', 'bdg', 'vcf', 'vcfm', 'vcfp', 'gff', 'gtf', 'sam', 'fastq', 'fa', 'fa2', 'gfa', 'sizes']


def _buffer_type(bt):
    import bionumpy as bnp
    if bt is None:
        return None
    for mod in (bnp, bnp.io.delimited_buffers, bnp.io.vcf_buffers, bnp.io):
        if hasattr(mod, bt):
            return getattr(mod, bt)
    raise ValueError(bt)


def _observe_chunk(case):
    import dataclasses
    import numpy as np
    import bionumpy as bnp
    from bionumpy.bnpdataclass.lazybnpdataclass import LazyBNPDataClass
    d = tempfile.mkdtemp(prefix='c20_')
    try:
        p = os.path.join(d, case['name'])
        data = bytes.fromhex(case['file'])
        open(p, 'wb').write(data)
        bt = _buffer_type(case['bt'])
        kw = dict(buffer_type=bt) if bt is not None else {}
        lazy = case['lazy']

        def read():
            f = bnp.open(p, lazy=lazy, **kw)
            try:
                return f.read_chunk()
            finally:
                f.close()

        def write(ch, tag):
            q = os.path.join(d, tag + '_' + case['name'])
            try:
                with bnp.open(q, 'w', **kw) as f:
                    f.write(ch)
                return open(q, 'rb').read().hex()
            except Exception as e:
                return ('error:' + type(e).__name__).encode().hex()
        try:
            A, B = read(), read()
        except Exception as e:
            return dict(error='read: %s: %s' % (type(e).__name__, str(e)[:200]))
        out = dict(lazy=isinstance(A, LazyBNPDataClass), n=len(A))
        snap = mem_snapshot(A)
        out['paths'] = [p_ for _, p_, _ in snap]
        out['before'] = [b.hex() for _, _, b in snap]
        out['write_b'] = write(B, 'b')
        errs = []
        res = []
        names = [f.name for f in dataclasses.fields(A)]
        for op in case['ops']:
            try:
                if op == 'fields':
                    for nm in names:
                        getattr(A, nm)
                elif op == 'data_object':
                    (A.get_data_object() if isinstance(A, LazyBNPDataClass) else A)
                elif op == 'tolist':
                    A.tolist()
                elif op == 'str':
                    str(A)
                elif op == 'index':
                    sub = A[::2]
                    for nm in names:
                        getattr(sub, nm)
                    sub2 = A[np.arange(len(A)) % 2 == 0]
                    write(sub2, 'sub')
                elif op == 'concat':
                    c = np.concatenate([A, A])
                    for nm in names:
                        getattr(c, nm)
                elif op == 'pandas':
                    A.topandas()
                elif op == 'replace':
                    # a modified COPY (replace, then explicit assignment on the copy) must leave A alone
                    ints = [f.name for f in dataclasses.fields(A) if f.type is int]
                    if ints:
                        C = bnp.replace(A, **{ints[0]: getattr(A, ints[0]) + 1})
                        setattr(C, ints[0], getattr(C, ints[0]) + 1)
                        C2 = A[np.arange(len(A))]
                        setattr(C2, ints[0], getattr(C2, ints[0]) * 0)
                        write(C, 'c')
                else:
                    raise ValueError(op)
            except Exception as e:
                errs.append('%s: %s: %s' % (op, type(e).__name__, str(e)[:120]))
        # the same parse twice: the cached fields of A versus a fresh wrapper around A's (possibly touched) buffer
        for k in range(2):
            try:
                if isinstance(A, LazyBNPDataClass):
                    obj = A if k == 0 else type(A)(A._itemgetter)
                    res.append(_flat(['ok', logical(obj.get_data_object())]).hex())
                else:
                    res.append(_flat(['ok', logical(A)]).hex())
            except Exception as e:
                res.append(_flat(['error', type(e).__name__, str(e)[:80]]).hex())
        out['res1'], out['res2'] = res
        out['after'] = [r.tobytes().hex() for r, _, _ in snap]
        out['write_a'] = write(A, 'a')
        if errs:
            out['op_errors'] = errs
        return out
    finally:
        shutil.rmtree(d, ignore_errors=True)


# =============================================================================================== effect extractor
# Instructions (mirrors Model/C20.v):  ('A',) alloc | ('V', cow, [regs]) view | ('P', [regs]) one-of | ('F', r) flatten | ('W', r) write
NP_VIEW = {'asarray', 'asanyarray', 'ascontiguousarray', 'atleast_1d', 'atleast_2d', 'ravel', 'reshape', 'squeeze',
           'transpose', 'broadcast_to', 'swapaxes', 'moveaxis', 'expand_dims', 'diagonal', 'real', 'imag', 'as_strided'}
NP_WRITE_FIRST = {'put', 'place', 'putmask', 'copyto', 'fill_diagonal', 'put_along_axis', 'shuffle'}
NP_SCALAR = {'sum', 'max', 'min', 'argmax', 'argmin', 'any', 'all', 'prod', 'count_nonzero', 'size', 'ndim', 'mean', 'log10', 'abs'}
M_FRESH = {'copy', 'astype', 'sum', 'any', 'all', 'max', 'min', 'mean', 'cumsum', 'dot', 'tolist', 'to_string', 'nonzero',
           'argsort', 'flatten', 'tobytes', 'count', 'index', 'get', 'keys', 'values', 'items', 'split', 'join', 'format',
           'encode', 'decode', 'lower', 'upper', 'startswith', 'endswith', 'get_flat_indices', 'ravel_multi_index',
           'get_labels', 'get_alphabet', 'is_base_encoding', 'is_one_to_one_encoding', 'view_rows', 'col_slice'}
M_VIEW = {'reshape', 'view', 'raw', 'squeeze', 'swapaxes', 'transpose', 'as_strided'}
M_WRITE = {'sort', 'fill', 'resize', 'put', 'itemset', 'setfield', 'update', 'append', 'extend', 'insert', 'pop', 'clear',
           'remove', 'setdefault', 'add', 'partition', 'byteswap', 'setflags'}
PURE_BUILTINS = {'len', 'isinstance', 'int', 'float', 'range', 'enumerate', 'zip', 'str', 'repr', 'sum', 'min', 'max', 'any',
                 'all', 'type', 'hasattr', 'bool', 'ord', 'chr', 'abs', 'issubclass', 'print', 'sorted', 'tuple', 'list',
                 'dict', 'set', 'bytes', 'super', 'ValueError', 'TypeError', 'FormatException', 'EncodingError', 'callable', 'id'}
SAME_OBJECT_FUNCS = {'as_encoded_array', 'as_string_array'}            # return their argument itself when nothing to convert
WRAP_CTORS = {'EncodedArray', 'EncodedRaggedArray', 'RaggedArray', 'StringArray'}
FRESH_ATTRS = {'shape', 'size', 'dtype', 'ndim', 'encoding', 'lengths', 'starts', 'ends', 'n_rows', '__class__', 'flags',
               'DELIMITER', 'COMMENT', 'n_fields', 'dataclass'}
MAX_DEPTH = 8


class Extractor:
    def __init__(self, n_params):
        self.ins = []
        self.nreg = n_params
        self.cow = set()
        self.sub = set(range(n_params))      # registers that ARE an argument object or a sub-object of one
        self.probes = set()                  # classification classes this extraction relied on
        self.unknown = []
        self.frozen = 0                      # >0 while inside a conditional branch: no flatten of outer registers
        self.branch_born = 0                 # first register created inside the outermost enclosing branch
        self.fresh = set()                   # registers holding newly allocated values
        self.visited = set()                 # (module, qualname) of every function whose body was analysed
        self.stack = []                      # functions being inlined (a recursive call is not inlined again)

    # ---- emit
    def alloc(self):
        self.ins.append(('A',))
        self.nreg += 1
        self.fresh.add(self.nreg - 1)
        return self.nreg - 1

    def writable(self, r):
        return r in self.cow or r in self.fresh

    def view(self, cow, rs):
        rs = sorted(set(r for r in rs if r is not None))
        if not rs:
            return self.alloc()
        self.ins.append(('V', bool(cow), rs))
        self.nreg += 1
        if cow:
            self.cow.add(self.nreg - 1)
        return self.nreg - 1

    def pick(self, rs):
        rs = sorted(set(r for r in rs if r is not None))
        if not rs:
            return None
        if len(rs) == 1:
            return rs[0]
        self.ins.append(('P', rs))
        self.nreg += 1
        if all(r in self.cow for r in rs):
            self.cow.add(self.nreg - 1)
        return self.nreg - 1

    def write(self, r):
        if r is not None:
            self.ins.append(('W', r))

    def flatten(self, r, born=0):
        # inside a conditional branch only registers created in that branch are flattened: the abstract effect of
        # a flatten (the register no longer shares its source's buffer) must not leak out of a branch not taken
        if r is not None and (self.frozen == 0 or r >= self.branch_born):
            self.ins.append(('F', r))
            return True
        return False


class Scope:
    def __init__(self, ex, module, cls, depth):
        self.ex, self.module, self.cls, self.depth = ex, module, cls, depth
        self.env = {}        # name -> register | ('func', callable)
        self.arr = set()     # names known to hold index arrays (masks / integer arrays made in this function)
        self.npfuncs = set() # names bound to NumPy functions (op = np.add if .. else np.logical_xor)
        self.returns = []
        self.born = ex.nreg  # registers >= born were created inside this function (or its callees)
        self.defcls = None   # the class whose body defines the function being analysed (for super())

    # ---------------------------------------------------------------- classification of index expressions
    def is_arr(self, n):
        if isinstance(n, ast.Compare) or (isinstance(n, ast.UnaryOp) and isinstance(n.op, ast.Invert)):
            return True
        if isinstance(n, ast.BinOp):
            return self.is_arr(n.left) or self.is_arr(n.right)
        if isinstance(n, (ast.List, ast.ListComp)):
            return True
        if isinstance(n, ast.Name):
            return n.id in self.arr
        if isinstance(n, ast.Call):
            f = n.func
            if isinstance(f, ast.Attribute):
                root = f
                while isinstance(root, ast.Attribute):
                    root = root.value
                if isinstance(root, ast.Name) and root.id in ('np', 'numpy'):
                    return f.attr not in NP_SCALAR or any(k.arg == 'axis' for k in n.keywords)
                if f.attr in ('ravel', 'astype', 'copy', 'cumsum', 'reshape', 'flatten'):
                    return self.is_arr(f.value)
            return False
        if isinstance(n, ast.Subscript):
            return self.is_arr(n.value) and (self.is_fancy(n.slice) or self.has_slice(n.slice))
        return False

    def has_slice(self, n):
        if isinstance(n, ast.Slice):
            return True
        if isinstance(n, ast.Tuple):
            return any(self.has_slice(e) for e in n.elts)
        return False

    def is_fancy(self, n):
        if isinstance(n, ast.Tuple):
            return any(self.is_fancy(e) for e in n.elts)
        if isinstance(n, (ast.Slice, ast.Constant)):
            return False
        return self.is_arr(n)

    # ---------------------------------------------------------------- expressions
    def ev(self, n):
        """Register holding the value of expression n (None for values without buffers)."""
        ex = self.ex
        if n is None or isinstance(n, (ast.Constant, ast.JoinedStr, ast.Lambda)):
            return None
        if isinstance(n, ast.Name):
            v = self.env.get(n.id)
            return v if isinstance(v, int) else None
        if isinstance(n, ast.BoolOp) or (isinstance(n, ast.UnaryOp) and isinstance(n.op, ast.Not)):
            # Python's `a or b` / `a and b` evaluate to ONE OF THEIR OPERANDS (`self._set_values or {}` is the
            # argument's own dict whenever it is non-empty): an alias of every operand, never a new value
            vals = n.values if isinstance(n, ast.BoolOp) else [n.operand]
            rs = [self.ev(v) for v in vals]
            if isinstance(n, ast.UnaryOp):
                return None
            rs = [r if r is not None else ex.alloc() for r in rs]
            return ex.pick(rs)
        if isinstance(n, (ast.Compare, ast.BinOp, ast.UnaryOp)):
            for c in ast.iter_child_nodes(n):
                if isinstance(c, ast.expr):
                    self.ev(c)
            ex.probes.add('arith')
            return ex.alloc()
        if isinstance(n, ast.IfExp):
            self.ev(n.test)
            return ex.pick([self.ev(n.body), self.ev(n.orelse)])
        if isinstance(n, (ast.Tuple, ast.List, ast.Set)):
            rs = [self.ev(e) for e in n.elts]
            rs = [r for r in rs if r is not None]
            return ex.view(False, rs) if rs else None
        if isinstance(n, ast.Dict):
            rs = [self.ev(e) for e in n.values]
            rs = [r for r in rs if r is not None]
            return ex.view(False, rs) if rs else ex.alloc()
        if isinstance(n, (ast.ListComp, ast.DictComp, ast.SetComp, ast.GeneratorExp)):
            # a new container; its elements may alias whatever the element expression aliases
            sc = self
            for g in n.generators:
                r = sc.ev(g.iter)
                sc.bind(g.target, r)
            elt = [n.key, n.value] if isinstance(n, ast.DictComp) else [n.elt]
            rs = [sc.ev(e) for e in elt]
            fresh = ex.alloc()
            rs = [r for r in rs if r is not None]
            # the container itself is new (writes to it are fine); element aliases are kept through a cow-style view
            return ex.view(True, rs + [fresh]) if rs else fresh
        if isinstance(n, ast.Starred):
            return self.ev(n.value)
        if isinstance(n, ast.Attribute):
            if isinstance(n.value, ast.Name) and n.value.id in ('np', 'numpy'):
                return None
            b = self.ev(n.value)
            if b is None:
                return None
            if n.attr in FRESH_ATTRS:
                return ex.alloc()
            if b in ex.cow and not n.attr.startswith('_'):
                return ex.view(True, [b])
            r = ex.view(False, [b])
            if b in ex.sub:
                ex.sub.add(r)
            return r
        if isinstance(n, ast.Subscript):
            b = self.ev(n.value)
            self.ev_index(n.slice)
            if b is None:
                return None
            if self.is_fancy(n.slice):
                ex.probes.add('fancy_index')
                return ex.view(True, [b])
            if b in ex.cow:
                return ex.view(True, [b])
            ex.probes.add('basic_index')
            return ex.view(False, [b])
        if isinstance(n, ast.Call):
            return self.call(n)
        if isinstance(n, (ast.Yield, ast.YieldFrom, ast.Await)):
            r = self.ev(n.value)
            if r is not None:
                self.returns.append(r)
            return None
        if isinstance(n, ast.NamedExpr):
            r = self.ev(n.value)
            self.bind(n.target, r)
            return r
        ex.unknown.append(type(n).__name__)
        rs = [self.ev(c) for c in ast.iter_child_nodes(n) if isinstance(c, ast.expr)]
        return ex.view(False, [r for r in rs if r is not None])

    def ev_index(self, n):
        for c in ast.walk(n):
            if isinstance(c, ast.Call):
                self.ev(c)
                break

    def ev_arg(self, a):
        if isinstance(a, ast.Name) and a.id not in self.env:
            fn = _unwrap(getattr(self.module, a.id, None))
            if fn is not None and (fn.__module__ or '').startswith('bionumpy'):
                return ('func', fn)               # a function passed as argument
        v = self.env.get(a.id) if isinstance(a, ast.Name) else None
        if isinstance(v, tuple):
            return v
        return self.ev(a)

    def args_of(self, n, funcs=False):
        pos = [self.ev_arg(a) for a in n.args]
        kw = {k.arg: self.ev_arg(k.value) for k in n.keywords if k.arg}
        if not funcs:
            pos = [None if isinstance(v, tuple) else v for v in pos]
            kw = {k: (None if isinstance(v, tuple) else v) for k, v in kw.items()}
        return pos, kw

    def call(self, n):
        ex = self.ex
        f = n.func
        # ---- numpy
        if isinstance(f, ast.Attribute):
            root, chain = f, []
            while isinstance(root, ast.Attribute):
                chain.append(root.attr)
                root = root.value
            chain.reverse()
            if isinstance(root, ast.Name) and root.id in ('np', 'numpy') and root.id not in self.env:
                pos, kw = self.args_of(n)
                if kw.get('out') is not None:
                    self.ex.write(kw['out'])
                    return ex.view(False, [kw['out']])
                if 'out' in [k.arg for k in n.keywords]:
                    return ex.alloc()
                name = chain[-1]
                if name == 'at' and len(chain) >= 2 or name in NP_WRITE_FIRST:
                    ex.write(pos[0] if pos else None)
                    return None
                if name in NP_VIEW:
                    ex.probes.add('np_view_func')
                    return ex.view(False, pos[:1])
                ex.probes.add('np_fresh_func')
                return ex.alloc()
            # ---- method call
            m = f.attr
            if m in ('accumulate', 'reduce', 'reduceat', 'outer', 'at') and isinstance(root, ast.Name) \
                    and root.id in self.npfuncs and len(chain) == 1:
                # a NumPy ufunc held in a local name (op = np.add if .. else np.logical_xor): ufunc-method semantics
                pos, kw = self.args_of(n)
                ex.probes.add('np_fresh_func')
                if kw.get('out') is not None:
                    ex.write(kw['out'])
                    return ex.view(False, [kw['out']])
                if m == 'at':
                    ex.write(pos[0] if pos else None)
                    return None
                return ex.alloc()
            if m == '__class__':
                pos, kw = self.args_of(n)
                ex.probes.add('wrap_ctor')
                rs = [r for r in pos + list(kw.values()) if r is not None]
                return ex.view(False, rs) if rs else ex.alloc()
            if isinstance(f.value, ast.Call) and isinstance(f.value.func, ast.Name) and f.value.func.id == 'super':
                # round 6: super().m(..) — the next definition of m after the class that defines the current function, in
                # the MRO of the class the site was resolved through; inlined with the same dynamic class
                sfn = None
                recv = 'self' if isinstance(self.env.get('self'), int) or 'cls' not in self.env else 'cls'
                if self.cls is not None and self.defcls is not None and self.defcls in self.cls.__mro__ and not f.value.args:
                    mro = self.cls.__mro__
                    for c in mro[mro.index(self.defcls) + 1:]:
                        if m in c.__dict__ and (c.__module__ or '').startswith('bionumpy'):
                            sfn = _unwrap(c.__dict__[m])
                            break
                        if m in c.__dict__:
                            break
                if sfn is not None and self.depth < MAX_DEPTH:
                    pos, kw = self.args_of(n, funcs=True)
                    selfreg = self.env.get(recv)
                    return inline(ex, sfn, [selfreg if isinstance(selfreg, int) else None] + pos, kw, self.depth + 1, self.cls)
                return self.unknown_call(n, [self.env.get('self') if isinstance(self.env.get('self'), int) else None])
            if isinstance(f.value, ast.Name) and f.value.id in ('self', 'cls') and self.cls is not None:
                target = getattr(self.cls, m, None)
                fn = _unwrap(target)
                if fn is not None and self.depth < MAX_DEPTH:
                    pos, kw = self.args_of(n, funcs=True)
                    selfreg = self.env.get(f.value.id)
                    is_static = isinstance(inspect.getattr_static(self.cls, m, None), staticmethod)
                    if not is_static:
                        pos = [selfreg if isinstance(selfreg, int) else None] + pos
                    return inline(ex, fn, pos, kw, self.depth + 1, self.cls)
            b = self.ev(f.value)
            pos, kw = self.args_of(n)
            allargs = [r for r in pos + list(kw.values()) if r is not None]
            if m == 'ravel':
                # npstructures ragged arrays: ravel() first makes the object contiguous (rebinding it to a copy when
                # it was a view); NumPy: a view when contiguous
                if b is None:
                    return None
                ex.probes.add('ravel')
                ex.flatten(b, self.born)
                return ex.view(False, [b])
            if m in M_FRESH:
                ex.probes.add('fresh_method')
                return ex.alloc()
            if m in M_VIEW:
                if b is None:
                    return None
                if b in ex.cow:
                    return ex.view(True, [b])
                return ex.view(False, [b])
            if m in M_WRITE:
                ex.write(b)
                return ex.alloc()
            return self.unknown_call(n, [b] + allargs)
        if isinstance(f, ast.Name):
            name = f.id
            bound = self.env.get(name)
            fpos, fkw = self.args_of(n, funcs=True)
            pos = [None if isinstance(v, tuple) else v for v in fpos]
            kw = {k: (None if isinstance(v, tuple) else v) for k, v in fkw.items()}
            if isinstance(bound, tuple) and bound[0] == 'func':
                return inline(ex, bound[1], fpos, fkw, self.depth + 1, None)
            if name in self.npfuncs and not isinstance(bound, int):
                ex.probes.add('np_fresh_func')                                      # a NumPy ufunc held in a local name
                if kw.get('out') is not None:
                    ex.write(kw['out'])
                    return ex.view(False, [kw['out']])
                return ex.alloc()
            if name == 'self' and self.cls is not None and self.depth < MAX_DEPTH and not isinstance(bound, tuple):
                fn = _unwrap(getattr(self.cls, '__call__', None))
                if fn is not None:
                    return inline(ex, fn, [bound] + pos, kw, self.depth + 1, self.cls)
            if isinstance(bound, int):
                return self.unknown_call(n, [bound] + pos + list(kw.values()))      # calling a callable argument
            if name in ('unsafe_extend_right', 'unsafe_extend_left'):
                ex.probes.add('unsafe_extend')
                return ex.alloc()                                                   # npstructures 0.2.19: np.append / np.insert (probed)
            if name in ('next', 'iter', 'reversed', 'getattr'):
                rs = [r for r in pos if r is not None]
                return ex.view(False, rs) if rs else None
            if name in PURE_BUILTINS:
                return ex.alloc() if name in ('list', 'dict', 'set', 'tuple', 'sorted') else None
            if name in SAME_OBJECT_FUNCS:
                ex.probes.add('same_object')
                return pos[0] if pos else None
            if name in WRAP_CTORS:
                # wrapping constructors keep a reference to the data; a ragged array built on a RaggedView shape is a
                # (copy-on-write) view object
                cow = len(n.args) > 1 and isinstance(n.args[1], ast.Call) and isinstance(n.args[1].func, ast.Name) \
                    and n.args[1].func.id in ('RaggedView', 'RaggedView2')
                if cow:
                    ex.probes.add('ragged_view_ctor')
                else:
                    ex.probes.add('wrap_ctor')
                return ex.view(cow, [r for r in pos + list(kw.values()) if r is not None])
            if name == 'ragged_slice':
                ex.probes.add('ragged_slice')
                if pos and pos[0] is not None:
                    ex.flatten(pos[0], self.born)
                return ex.alloc()
            if name in ('RaggedShape', 'RaggedView', 'RaggedView2'):
                return ex.alloc()
            target = getattr(self.module, name, None)
            if name == 'cls' and self.cls is not None and not isinstance(bound, (int, tuple)):
                target = self.cls
            if inspect.isclass(target):
                return self.construct(target, fpos, fkw)
            fn = _unwrap(target)
            if (fn is None or fn.__name__ != name) and target is not None and not inspect.isclass(target):
                tm = inspect.getmodule(target) if inspect.getmodule(target) and inspect.getmodule(target).__name__.startswith('bionumpy') else self.module
                fn = _ast_lookup(self.module, name) or fn
            if fn is not None and (getattr(fn, '__module__', '') or '').startswith('bionumpy') and self.depth < MAX_DEPTH:
                return inline(ex, fn, fpos, fkw, self.depth + 1, None)
            return self.unknown_call(n, pos + list(kw.values()))
        if isinstance(f, ast.Call) and isinstance(f.func, ast.Name) and self.depth < MAX_DEPTH:
            c = getattr(self.module, f.func.id, None)                               # Class(...)(args)
            fn = _unwrap(getattr(c, '__call__', None)) if inspect.isclass(c) else None
            if fn is not None:
                self.args_of(f)
                pos, kw = self.args_of(n)
                return inline(ex, fn, [None] + pos, kw, self.depth + 1, c)
        self.ev(f)
        pos, kw = self.args_of(n)
        return self.unknown_call(n, pos + list(kw.values()))

    def construct(self, klass, fpos, fkw):
        """A class instantiated: the new object references its arguments; the effects of a bionumpy __init__ are inlined."""
        ex = self.ex
        regs = [r for r in list(fpos) + list(fkw.values()) if isinstance(r, int)]
        init = _unwrap(inspect.getattr_static(klass, '__init__', None)) if (klass.__module__ or '').startswith('bionumpy') else None
        if init is not None and self.depth < MAX_DEPTH:
            try:
                _fn_ast(init)
            except Exception:
                init = None               # generated __init__ (dataclass): stores its arguments
            if init is not None:
                inline(ex, init, [None] + list(fpos), fkw, self.depth + 1, klass)
        ex.probes.add('wrap_ctor')
        return ex.view(False, regs) if regs else ex.alloc()

    def unknown_call(self, n, regs):
        """Fail-closed: an unclassified callee may write every argument and return an alias of any of them."""
        ex = self.ex
        regs = [r for r in regs if r is not None]
        try:
            ex.unknown.append(ast.unparse(n.func)[:40])
        except Exception:
            ex.unknown.append('call')
        for r in regs:
            ex.write(r)
        return ex.view(False, regs) if regs else ex.alloc()

    # ---------------------------------------------------------------- statements
    def is_np_func(self, n):
        if isinstance(n, ast.IfExp):
            return self.is_np_func(n.body) and self.is_np_func(n.orelse)
        if isinstance(n, ast.Attribute):
            root = n
            while isinstance(root, ast.Attribute):
                root = root.value
            return isinstance(root, ast.Name) and root.id in ('np', 'numpy') and root.id not in self.env
        return isinstance(n, ast.Name) and n.id in self.npfuncs

    def bind(self, target, r, value=None):
        if isinstance(target, ast.Name):
            if value is not None and self.is_np_func(value):
                self.npfuncs.add(target.id)
            else:
                self.npfuncs.discard(target.id)
            if r is None:
                self.env.pop(target.id, None)
            else:
                self.env[target.id] = r
            if value is not None and self.is_arr(value):
                self.arr.add(target.id)
            else:
                self.arr.discard(target.id)
        elif isinstance(target, (ast.Tuple, ast.List)):
            for i, e in enumerate(target.elts):
                ev = value.elts[i] if isinstance(value, (ast.Tuple, ast.List)) and len(value.elts) == len(target.elts) else None
                self.bind(e, self.ev(ev) if ev is not None else r, ev)
                if ev is None and value is not None and self.is_arr(value) and isinstance(e, ast.Name):
                    self.arr.add(e.id)          # row, cols = np.nonzero(...)
        elif isinstance(target, ast.Starred):
            self.bind(target.value, r)

    def store(self, target, r, value=None):
        ex = self.ex
        if isinstance(target, ast.Subscript):
            b = self.ev(target.value)
            self.ev_index(target.slice)
            ex.write(b)
        elif isinstance(target, ast.Attribute):
            b = self.ev(target.value)
            if b is not None and b in ex.sub:
                ex.write(b)                      # (re)binding a field of an argument object
        else:
            self.bind(target, r, value)

    def block(self, stmts):
        for s in stmts:
            self.stmt(s)

    def branches(self, bodies):
        """Every branch is emitted (over-approximation); names bound differently are joined."""
        ex = self.ex
        before = dict(self.env)
        arr0 = set(self.arr)
        npf0 = set(self.npfuncs)
        npfs = []
        envs = []
        if ex.frozen == 0:
            ex.branch_born = ex.nreg
        ex.frozen += 1
        for b in bodies:
            self.env = dict(before)
            self.arr = set(arr0)
            self.npfuncs = set(npf0)
            self.block(b)
            envs.append((self.env, self.arr))
            npfs.append(self.npfuncs)
        ex.frozen -= 1
        out = {}
        for k in set().union(*[set(e) for e, _ in envs]):
            vals = [e.get(k) for e, _ in envs]
            if all(v == vals[0] for v in vals):
                out[k] = vals[0]
            else:
                regs = [v for v in vals if isinstance(v, int)]
                funcs = [v for v in vals if isinstance(v, tuple)]
                if regs:
                    out[k] = ex.pick(regs)
                elif funcs:
                    out[k] = funcs[0]
        self.env = out
        self.arr = set.intersection(*[a for _, a in envs]) if envs else arr0
        self.npfuncs = set.intersection(*npfs) if npfs else npf0

    def stmt(self, s):
        ex = self.ex
        if isinstance(s, ast.Assign):
            r = self.ev(s.value)
            for t in s.targets:
                self.store(t, r, s.value)
        elif isinstance(s, ast.AnnAssign):
            if s.value is not None:
                self.store(s.target, self.ev(s.value), s.value)
        elif isinstance(s, ast.AugAssign):
            self.ev(s.value)
            if isinstance(s.target, ast.Name):
                v = self.env.get(s.target.id)
                if isinstance(v, int):
                    ex.write(v)                  # in place for arrays
            elif isinstance(s.target, ast.Subscript):
                ex.write(self.ev(s.target.value))
            elif isinstance(s.target, ast.Attribute):
                ex.write(self.ev(s.target))      # x.f -= d  writes the array x.f in place, then rebinds it
                b = self.ev(s.target.value)
                if b is not None and b in ex.sub:
                    ex.write(b)
        elif isinstance(s, ast.Expr):
            self.ev(s.value)
        elif isinstance(s, ast.Return):
            r = self.ev(s.value)
            if r is not None:
                self.returns.append(r)
        elif isinstance(s, ast.If):
            self.ev(s.test)
            self.branches([s.body, s.orelse])
        elif isinstance(s, ast.Try):
            self.branches([s.body + s.orelse] + [h.body for h in s.handlers])
            self.block(s.finalbody)
        elif isinstance(s, (ast.For, ast.AsyncFor)):
            r = self.ev(s.iter)
            for _ in range(2):
                self.bind(s.target, r)
                self.branches([s.body, []])
            self.block(s.orelse)
        elif isinstance(s, ast.While):
            for _ in range(2):
                self.ev(s.test)
                self.branches([s.body, []])
        elif isinstance(s, ast.With):
            for it in s.items:
                r = self.ev(it.context_expr)
                if it.optional_vars is not None:
                    self.bind(it.optional_vars, r)
            self.block(s.body)
        elif isinstance(s, ast.Assert):
            self.ev(s.test)
        elif isinstance(s, (ast.Pass, ast.Raise, ast.Import, ast.ImportFrom, ast.Delete, ast.Break, ast.Continue,
                            ast.Global, ast.Nonlocal)):
            if isinstance(s, ast.ImportFrom):
                import importlib
                try:
                    pkg = self.module.__package__ if s.level else None
                    m = importlib.import_module(('.' * s.level) + (s.module or ''), pkg)
                    for a in s.names:
                        o = _unwrap(getattr(m, a.name, None))
                        if o is not None:
                            self.env[a.asname or a.name] = ('func', o)
                except Exception:
                    ex.unknown.append('import')
        elif isinstance(s, (ast.FunctionDef, ast.ClassDef)):
            ex.unknown.append('nested def')
            for r in [v for v in self.env.values() if isinstance(v, int)]:
                ex.write(r)                      # fail-closed: a closure may write anything it can see
        else:
            ex.unknown.append(type(s).__name__)
            for r in [v for v in self.env.values() if isinstance(v, int)]:
                ex.write(r)


def _unwrap(o):
    """Plain Python function behind decorators / classmethod / staticmethod, else None."""
    seen = 0
    while o is not None and seen < 10:
        seen += 1
        if isinstance(o, (classmethod, staticmethod)):
            o = o.__func__
        elif hasattr(o, '__wrapped__'):
            o = o.__wrapped__
        elif inspect.ismethod(o):
            o = o.__func__
        else:
            break
    return o if inspect.isfunction(o) else None


_SRC = {}


class AstFn:
    """A function known only by its source (its module-level name is bound to a decorator object)."""
    def __init__(self, module, node):
        self.__module__, self.__qualname__, self.node = module.__name__, node.name, node


def _ast_lookup(module, name):
    try:
        tree = ast.parse(inspect.getsource(module))
    except Exception:
        return None
    for n in tree.body:
        if isinstance(n, ast.FunctionDef) and n.name == name:
            return AstFn(module, n)
    return None


def _fn_ast(fn):
    if isinstance(fn, AstFn):
        return fn.node
    key = (fn.__module__, fn.__qualname__)
    if key not in _SRC:
        import textwrap
        src = textwrap.dedent(inspect.getsource(fn))
        node = ast.parse(src).body[0]
        _SRC[key] = node
    return _SRC[key]


def inline(ex, fn, pos, kw, depth, cls):
    """Emit the effects of calling fn with argument registers pos / kw; returns the result register."""
    import sys
    node = _fn_ast(fn)
    if not isinstance(node, ast.FunctionDef):
        return ex.view(False, [r for r in pos if r is not None])
    key = (fn.__module__, fn.__qualname__.replace('<locals>.', ''))
    if key in ex.stack:
        # recursion (str_to_int -> per-row re-parse -> str_to_int): fail closed like an unclassified call
        ex.unknown.append('recursive ' + key[1])
        regs = [r for r in list(pos) + list(kw.values()) if isinstance(r, int)]
        for r in regs:
            ex.write(r)
        return ex.view(False, regs) if regs else ex.alloc()
    ex.visited.add(key)
    ex.stack.append(key)
    try:
        return _inline_body(ex, fn, node, pos, kw, depth, cls)
    finally:
        ex.stack.pop()


def _inline_body(ex, fn, node, pos, kw, depth, cls):
    import sys
    module = sys.modules[fn.__module__]
    if cls is None and '.' in fn.__qualname__:
        c = getattr(module, fn.__qualname__.split('.')[0], None)
        cls = c if inspect.isclass(c) else None
    sc = Scope(ex, module, cls, depth)
    sc.defcls = _defining_class(module, fn)
    a = node.args
    names = [x.arg for x in a.posonlyargs + a.args]
    defaults = dict(zip(names[len(names) - len(a.defaults):], a.defaults))
    for i, nm in enumerate(names):
        v = pos[i] if i < len(pos) else kw.get(nm, 'default')
        if v == 'default':
            v = None                      # defaults of the anchored functions are constants / None
        if v is not None:
            sc.env[nm] = v
    for nm in [x.arg for x in a.kwonlyargs]:
        if kw.get(nm) is not None:
            sc.env[nm] = kw[nm]
    sc.block(node.body)
    rets = sorted(set(sc.returns))
    if not rets:
        return None
    return ex.pick(rets)


def _defining_class(module, fn):
    q = getattr(fn, '__qualname__', '')
    if '.' not in q or '<locals>' in q:
        return None
    c = getattr(module, q.split('.')[0], None)
    return c if inspect.isclass(c) else None


def _resolve(path):
    import importlib
    modname, qual = path.split(':')
    m = importlib.import_module(modname)
    o = m
    parts = qual.split('.')
    cls = None
    for p in parts:
        if inspect.isclass(o):
            cls = o
            o = getattr(o, p)
        else:
            o = getattr(o, p)
    fn = _unwrap(o)
    if (fn is None or fn.__name__ != parts[-1]) and len(parts) == 1:
        fn = _ast_lookup(m, parts[0]) or fn
    return fn, cls


# A site = a little driver: parameters, then a pipeline of calls.  An argument is 'pK' (parameter K), 'rK' (result of
# step K), None (a value without buffers), or 'f:<path>' (a function passed as argument).
SITES = {
    1: dict(name='str_to_int', np=1, steps=[('bionumpy.io.strops:str_to_int', ['p0'])]),
    2: dict(name='str_to_float', np=1, steps=[('bionumpy.io.strops:str_to_float', ['p0'])]),
    3: dict(name='str_to_int_with_missing', np=1, steps=[('bionumpy.io.strops:str_to_int_with_missing', ['p0'])]),
    4: dict(name='str_to_float_with_missing', np=1, steps=[('bionumpy.io.strops:str_to_float_with_missing', ['p0'])]),
    5: dict(name='ints_to_strings', np=1, steps=[('bionumpy.io.strops:ints_to_strings', ['p0'])]),
    6: dict(name='int_lists_to_strings', np=1, steps=[('bionumpy.io.strops:int_lists_to_strings', ['p0'])]),
    7: dict(name='join', np=1, steps=[('bionumpy.io.strops:join', ['p0'])]),
    8: dict(name='split', np=1, steps=[('bionumpy.io.strops:split', ['p0'])]),
    9: dict(name='str_equal', np=2, steps=[('bionumpy.io.strops:str_equal', ['p0', 'p1'])]),
    10: dict(name='merge_intervals', np=1, steps=[('bionumpy.arithmetics.intervals:merge_intervals', ['p0', None])]),
    11: dict(name='count_overlap', np=2, steps=[('bionumpy.arithmetics.intervals:count_overlap', ['p0', 'p1'])]),
    12: dict(name='chunk_list_column', np=1, steps=[      # Bed12 / VCF-info list column: field view, then split parser
        ('bionumpy.io.file_buffers:TextBufferExtractor.get_field_by_number', ['p0', None, None]),
        ('bionumpy.io.delimited_buffers:DelimitedBuffer._parse_split_fields', [None, 'r0', 'f:bionumpy.io.strops:str_to_int', None])]),
    13: dict(name='chunk_genotype_columns', np=1, steps=[  # VCF genotype matrix: field-range view, then row encoding
        ('bionumpy.io.file_buffers:TextThroughputExtractor.get_fields_by_range', ['p0', None, None, None]),
        ('bionumpy.encodings.vcf_encoding:_GenotypeRowEncoding.encode', [None, 'r0'])]),
    14: dict(name='genotype_encode', np=1, steps=[('bionumpy.encodings.vcf_encoding:_GenotypeRowEncoding.encode', [None, 'p0'])]),
    15: dict(name='chunk_int_column', np=1, steps=[
        ('bionumpy.io.file_buffers:TextBufferExtractor.get_digit_array', ['p0', None]),
        ('bionumpy.io.strops:str_to_int', ['r0'])]),
    16: dict(name='chunk_padded_field', np=1, steps=[('bionumpy.io.file_buffers:TextBufferExtractor.get_padded_field', ['p0', None, None])]),
    17: dict(name='lazy_replace', np=1, steps=[('bionumpy.bnpdataclass.lazybnpdataclass:create_lazy_class', ['p0'])], special='lazy_replace'),
    18: dict(name='carriage_return_ends', np=2, steps=[('bionumpy.io.delimited_buffers:DelimitedBuffer._modify_for_carriage_return', [None, 'p0', 'p1'])]),
    19: dict(name='translate_windowed', np=1, steps=[('bionumpy.sequence.translate:Translate.windowed', [None, 'p0'])]),
    20: dict(name='change_encoding', np=1, steps=[('bionumpy.encoded_array:change_encoding', ['p0', None])]),
    21: dict(name='chunk_float_column', np=1, steps=[
        ('bionumpy.io.file_buffers:TextBufferExtractor.get_field_by_number', ['p0', None, None]),
        ('bionumpy.io.strops:str_to_float', ['r0'])]),
    # phase 3: the remaining functions of the anchored files that write in place (found by scan_tree)
    22: dict(name='intersect', np=2, steps=[('bionumpy.arithmetics.intervals:intersect', ['p0', 'p1'])]),
    23: dict(name='global_intersect', np=2, steps=[('bionumpy.arithmetics.intervals:global_intersect', ['p0', 'p1'])]),
    24: dict(name='pileup', np=1, steps=[('bionumpy.arithmetics.intervals:pileup', ['p0'])]),
    25: dict(name='rle_from_intervals', np=3, steps=[('bionumpy.arithmetics.intervals:GenomicRunLengthArray.from_intervals', [None, 'p0', 'p1', None, 'p2', None])]),
    26: dict(name='rle_to_array', np=1, steps=[('bionumpy.arithmetics.intervals:GenomicRunLengthArray.to_array', ['p0'])]),
    27: dict(name='phased_haplotype_encode', np=1, steps=[('bionumpy.encodings.vcf_encoding:_PhasedHaplotypeRowEncoding.encode', [None, 'p0'])]),
    28: dict(name='phased_genotype_encode', np=1, steps=[('bionumpy.encodings.vcf_encoding:_PhasedGenotypeRowEncoding.encode', [None, 'p0'])]),
    29: dict(name='genotype_decode', np=1, steps=[('bionumpy.encodings.vcf_encoding:_GenotypeRowEncoding.decode', [None, 'p0'])]),
    30: dict(name='delimited_from_raw_buffer', np=1, steps=[('bionumpy.io.delimited_buffers:DelimitedBuffer.from_raw_buffer', [None, 'p0', None])]),
    32: dict(name='internal_comments_extractor', np=2, steps=[('bionumpy.io.delimited_buffers:DelimitedBufferWithInernalComments._get_buffer_extractor', [None, 'p0', 'p1'])]),
    33: dict(name='wierd_padding', np=1, steps=[('bionumpy.io.file_buffers:wierd_padding', ['p0', None])]),
    # round 6: in-place-writing functions OUTSIDE the anchored files (found by the package-wide scan_tree); every
    # parameter that can hold an array / table / buffer object is a caller's argument
    34: dict(name='bedgraph_get_pileup', np=1, steps=[('bionumpy.arithmetics.bedgraph:get_pileup', ['p0', None])]),
    35: dict(name='sam_carriage_return_ends', np=2, steps=[('bionumpy.io.buffers.sam:SAMBuffer._modify_for_carriage_return', [None, 'p0', 'p1'])]),
    36: dict(name='sam_join_fields', np=1, steps=[('bionumpy.io.buffers.sam:SAMBuffer.join_fields', [None, 'p0'])]),
    37: dict(name='join_columns', np=1, steps=[('bionumpy.io.dump_csv:join_columns', ['p0', None])]),
    38: dict(name='matrix_to_csv', np=3, steps=[('bionumpy.io.matrix_dump:matrix_to_csv', ['p0', 'p1', None, 'p2'])]),
    39: dict(name='multiline_fasta_from_data', np=1, steps=[('bionumpy.io.multiline_buffer:MultiLineFastaBuffer.from_data', [None, 'p0'])]),
    40: dict(name='named_field_by_name', np=1, steps=[('bionumpy.io.named_text_buffer:NamedBufferExtractor.get_field_by_name', ['p0', None, None])]),
    41: dict(name='named_has_field_mask', np=1, steps=[('bionumpy.io.named_text_buffer:NamedBufferExtractor.has_field_mask', ['p0', None])]),
    42: dict(name='named_has_field_name', np=1, steps=[('bionumpy.io.named_text_buffer:NamedBufferExtractor.has_field_name', ['p0', None])]),
    43: dict(name='one_line_join_fields', np=1, steps=[('bionumpy.io.one_line_buffer:OneLineBuffer.join_fields', [None, 'p0'])]),
    44: dict(name='pwm_calculate_scores', np=2, steps=[('bionumpy.sequence.position_weight_matrix:PWM.calculate_scores', ['p0', 'p1'])]),
    45: dict(name='ragged_changes', np=1, steps=[('bionumpy.streams.groupby_func:get_ragged_changes', ['p0'])]),
    46: dict(name='interleave', np=2, steps=[('bionumpy.util:interleave', ['p0', 'p1'])]),
    47: dict(name='column_index_array', np=1, steps=[('bionumpy.util.ascii_hash:column_index_array', ['p0'])]),
    48: dict(name='apply_variants_to_sequence', np=2, steps=[('bionumpy.variants.consensus:apply_variants_to_sequence', ['p0', 'p1'])]),
    49: dict(name='integer_encoding_encode', np=2, steps=[('bionumpy.encodings.integer_encoding:IntegerEncoding._encode', ['p0', 'p1'])]),
    50: dict(name='chunk_entries', np=1, steps=[('bionumpy.streams.chunk_entries:_chunk_entries', ['p0', None])]),
    51: dict(name='streamable_args_stream', np=1, steps=[('bionumpy.streams.decorators:streamable._args_stream', ['p0', None])]),
    52: dict(name='legacy_streamable_args_stream', np=1, steps=[('bionumpy._legacy.npdataclassstream:streamable._args_stream', ['p0', None])]),
    53: dict(name='twobit_swap', np=1, steps=[('bionumpy.encodings._legacy_encodings:twobit_swap', ['p0'])]),
    54: dict(name='extract_field_types', np=2, steps=[('bionumpy.bnpdataclass.bnpdataclass:_extract_field_types', ['p0', 'p1'])]),
}
ROUND6_SITES = list(range(34, 55))

# In-place writes of the anchored files that are NOT inside a function analysed by the extractor, each with the reason
# why it is accepted.  Keys as produced by scan_file.  A write with any other key in an anchored file (and outside the
# analysed functions) makes the `probe` case fail (flag no_unregistered_write): fail closed.
ACCEPTED_WRITES = {
    'bnpdataclass/lazybnpdataclass.py::ItemGetter.__call__::augassign::e': 'line number of an exception object',
    'bnpdataclass/lazybnpdataclass.py::create_lazy_class.NewClass.__getattr__::setitem::self':
        'field cache of the lazy table itself (self._computed_values); observed by every chunk case (written bytes, re-parse)',
    'bnpdataclass/lazybnpdataclass.py::create_lazy_class.NewClass.__setattr__::setitem::self':
        'explicit attribute assignment, excluded by the property; keeps the value in self._set_values, apart from the buffer',
    'bnpdataclass/lazybnpdataclass.py::create_lazy_class::setattr::NewClass': 'name of a class created in the call',
    'encoded_array.py::EncodedLookup.__setitem__::setitem::self': 'explicit item assignment, excluded by the property',
    'encoded_array.py::EncodedRaggedArray._proper_repr::setitem::lines': 'a list of strings built in the call',
    'encodings/vcf_encoding.py::GenotypeBuffer._preprocess_data_for_encoding::call.replace_inplace::data':
        'dead code: class GenotypeBuffer is neither exported nor used anywhere in bionumpy',
    'encodings/vcf_encoding.py::GenotypeBuffer::setitem::_lookup': 'class-level lookup table filled at import',
    'encodings/vcf_encoding.py::_GenotypeRowEncoding::setitem::_alphabet_lookup': 'class-level lookup table filled at import',
    'encodings/vcf_encoding.py::_PhasedHaplotypeRowEncoding::setitem::_alphabet_lookup': 'class-level lookup table filled at import',
    'io/delimited_buffers.py::DelimitedBuffer.get_data::setitem::columns':
        'a dict of parsed columns built in the call (eager parse; every eager chunk case observes its buffer)',
    'io/delimited_buffers.py::GfaPathBuffer.get_data::setitem::nodes_lists':
        'unreachable: get_text(.., keep_sep=True) fails its own assertion `not keep_sep` before the write',
    'io/delimited_buffers.py::get_bufferclass_for_datatype::setattr::DatatypeBuffer': 'name of a class created in the call',
    'io/file_buffers.py::FileBuffer._move_2d_array_to_intervals::setitem::self':
        'private writer into the buffer, referenced only from commented-out code in io/_legacy.py',
    'io/file_buffers.py::FileBuffer._move_intervals_to_ragged_array::setattr::e': 'flag on an object created in the call',
    'io/strops.py::replace_inplace::setitem::number_text': 'the explicit in-place API (named so); no caller left in bionumpy',
}


def extract_site(sid):
    spec = SITES[sid]
    ex = Extractor(spec['np'])
    results = []
    for path, args in spec['steps']:
        if spec.get('special') == 'lazy_replace':
            fn = _lazy_method('__replace__')
            cls = None
        else:
            fn, cls = _resolve(path)
        pos = []
        for a in args:
            if a is None:
                pos.append(None)
            elif a.startswith('p'):
                pos.append(int(a[1:]))
            elif a.startswith('r'):
                pos.append(results[int(a[1:])])
            elif a.startswith('f:'):
                pos.append(('func', _resolve(a[2:])[0]))
        if fn is None:
            raise ValueError('cannot resolve ' + path)
        # bind function-valued arguments by name
        node = _fn_ast(fn)
        names = [x.arg for x in node.args.args]
        kw = {}
        pos2 = []
        for i, v in enumerate(pos):
            if isinstance(v, tuple):
                kw[names[i]] = v
                pos2.append(None)
            else:
                pos2.append(v)
        results.append(_inline_with_funcs(ex, fn, pos2, kw, cls))
    return dict(np=spec['np'], prog=prune(spec['np'], ex.ins), full_len=len(ex.ins), probes=sorted(ex.probes), unknown=sorted(set(ex.unknown)),
                visited=sorted('%s:%s' % v for v in ex.visited))


def _inline_with_funcs(ex, fn, pos, kwf, cls):
    import sys
    node = _fn_ast(fn)
    ex.visited.add((fn.__module__, fn.__qualname__.replace('<locals>.', '')))
    ex.stack.append((fn.__module__, fn.__qualname__.replace('<locals>.', '')))
    module = sys.modules[fn.__module__]
    if cls is None and '.' in fn.__qualname__ and '<locals>' not in fn.__qualname__:
        c = getattr(module, fn.__qualname__.split('.')[0], None)
        cls = c if inspect.isclass(c) else None
    sc = Scope(ex, module, cls, 0)
    sc.defcls = _defining_class(module, fn)
    names = [x.arg for x in node.args.args]
    for i, nm in enumerate(names):
        if nm in kwf:
            sc.env[nm] = kwf[nm]
        elif i < len(pos) and pos[i] is not None:
            sc.env[nm] = pos[i]
    try:
        sc.block(node.body)
    finally:
        ex.stack.pop()
    return ex.pick(sc.returns)


def _lazy_method(name):
    """The method `name` of the class made by create_lazy_class (a closure: taken from a made class)."""
    from bionumpy.bnpdataclass.lazybnpdataclass import create_lazy_class
    from bionumpy.datatypes import Interval
    return _unwrap(inspect.getattr_static(create_lazy_class(Interval), name))


def abstract_run(npar, prog):
    """The checker of Model/C20.v (safe_prog), mirrored for the evidence / distribution only."""
    a = [(True, True, False)] * npar
    for k, i in enumerate(prog):
        if i[0] == 'A':
            a.append((False, False, True))
        elif i[0] == 'V':
            b = any(a[r][1] for r in i[2])
            w = any(a[r][0] for r in i[2])
            a.append((False, b, True) if i[1] else (w or b, b, not b))
        elif i[0] == 'P':
            a.append((any(a[r][0] for r in i[1]), any(a[r][1] for r in i[1]), all(a[r][2] for r in i[1])))
        else:
            r = i[1]
            if i[0] == 'W' and a[r][0]:
                return False, k
            if a[r][2]:
                a[r] = (a[r][0], False, True)
    return True, None


def prune(npar, prog):
    """Drop registers that never reach a write or a flatten (dead-register elimination; renumbers)."""
    defs = {}
    reg = npar
    for k, i in enumerate(prog):
        if i[0] in 'AVP':
            defs[reg] = k
            reg += 1
    need = set()
    keep = set()
    for k in range(len(prog) - 1, -1, -1):
        i = prog[k]
        if i[0] in 'WF':
            keep.add(k)
            need.add(i[1])
    changed = True
    while changed:
        changed = False
        for r in list(need):
            k = defs.get(r)
            if k is None or k in keep:
                continue
            keep.add(k)
            changed = True
            i = prog[k]
            for q in (i[2] if i[0] == 'V' else i[1] if i[0] == 'P' else []):
                need.add(q)
    ren = {r: r for r in range(npar)}
    out = []
    reg = npar
    new = npar
    for k, i in enumerate(prog):
        if i[0] in 'AVP':
            if k in keep:
                ren[reg] = new
                new += 1
            reg += 1
        if k not in keep:
            continue
        if i[0] == 'A':
            out.append(i)
        elif i[0] == 'V':
            out.append(('V', i[1], [ren[q] for q in i[2]]))
        elif i[0] == 'P':
            out.append(('P', [ren[q] for q in i[1]]))
        else:
            out.append((i[0], ren[i[1]]))
    return out


def prog_to_coq(prog):
    out = []
    for i in prog:
        if i[0] == 'P':
            out.append('IPick 0%%nat [%s]' % '; '.join('%d%%nat' % r for r in i[1]))
            continue
        if i[0] == 'A':
            out.append('IAlloc []')
        elif i[0] == 'V':
            out.append('IView %s true [%s]' % (cbool(i[1]), '; '.join('%d%%nat' % r for r in i[2])))
        elif i[0] == 'F':
            out.append('IFlatten %d%%nat' % i[1])
        elif i[0] == 'W':
            out.append('IWrite %d%%nat 0%%nat []' % i[1])
    return clist(out, 'instr')


# =============================================================================================== probes
def _observe_probe(case):
    """Each aliasing class of the extractor's tables, checked on real arrays."""
    import numpy as np
    import bionumpy as bnp
    from bionumpy.encoded_array import as_encoded_array, EncodedArray, EncodedRaggedArray
    from bionumpy.encodings import BaseEncoding
    from npstructures import RaggedArray
    from npstructures.raggedshape import RaggedView2
    from npstructures.util import unsafe_extend_right
    from bionumpy.util.ragged_slice import ragged_slice
    F = {}
    a = np.arange(12)
    m = a % 2 == 0
    F['fancy_index'] = (not np.shares_memory(a, a[m])) and (not np.shares_memory(a, a[[1, 2]]))
    ra = as_encoded_array(['ab', 'cde', 'f'])
    buf = ra.ravel().raw()
    keep = buf.tobytes()
    sub = ra[np.array([True, False, True])]
    sub[:, 0] = 'z'                                # a write through a masked ragged array ...
    F['fancy_index'] = F['fancy_index'] and buf.tobytes() == keep and ra.tolist() == ['ab', 'cde', 'f']   # ... stays private
    sub2 = ra[1:]
    sub2[:, 0] = 'y'
    F['ragged_basic_index_is_cow'] = buf.tobytes() == keep
    F['basic_index'] = np.shares_memory(a, a[2:5]) and np.shares_memory(a.reshape(3, 4), a.reshape(3, 4)[:, 1])
    rb = as_encoded_array(['ab', 'cde', 'f'])
    F['ravel'] = np.shares_memory(rb.ravel().raw(), rb.ravel().raw())            # contiguous: the buffer itself
    v = rb[::2]
    src = rb.ravel().raw()
    keep = src.tobytes()
    flat = v.ravel()
    flat[:1] = 'q'                                # ravel() of a view-shaped array made it private first
    F['ravel'] = F['ravel'] and src.tobytes() == keep and (not np.shares_memory(flat.raw(), src))
    F['same_object'] = as_encoded_array(rb) is rb and as_encoded_array(rb.ravel()) is not None
    F['np_fresh_func'] = all(not np.shares_memory(a, x) for x in
                             [np.cumsum(a), np.maximum.accumulate(a), np.where(m, a, 0), np.insert(a, 0, 1),
                              np.concatenate([a, a]), np.sort(a), np.abs(a), np.diff(a), np.zeros_like(a), np.flatnonzero(a)])
    F['np_view_func'] = np.asanyarray(a) is a and np.shares_memory(a, np.reshape(a, (3, 4))) and np.shares_memory(a, np.atleast_1d(a))
    F['fresh_method'] = (not np.shares_memory(a, a.copy())) and (not np.shares_memory(a, a.astype(float))) \
        and (not np.shares_memory(rb.ravel().raw(), rb.copy().ravel().raw()))
    data = as_encoded_array('abcdefgh')
    keep = data.raw().tobytes()
    rv = EncodedRaggedArray(data, RaggedView2(np.array([0, 4]), np.array([2, 3])))
    ok = not rv.is_contigous
    rv[:, -1] = ','
    F['ragged_view_ctor'] = ok and data.raw().tobytes() == keep
    F['wrap_ctor'] = np.shares_memory(EncodedArray(data.raw(), BaseEncoding).raw(), data.raw()) and \
        np.shares_memory(RaggedArray(a, [5, 7]).ravel(), a)
    rs = ragged_slice(rb, starts=np.array([0, 1, 0]))
    F['ragged_slice'] = not np.shares_memory(rs.ravel().raw(), rb.ravel().raw())
    F['unsafe_extend'] = not np.shares_memory(unsafe_extend_right(a[:5]), a)
    F['arith'] = (not np.shares_memory(a, a + 1)) and (not np.shares_memory(a, a == 1)) and (not np.shares_memory(a, ~m))
    out = dict(flags=F)
    # every in-place write of the anchored files is inside a function the extractor analysed, or accepted by name
    unreg, gate_stats, stale = write_gate()
    F['no_unregistered_write'] = (not unreg) and gate_stats['statements'] > 0
    out['unregistered_writes'] = unreg
    out['write_gate'] = gate_stats
    out['allowlist_stale_keys'] = stale
    # the snapshot walker reaches every buffer that generic (gc) reachability finds
    missed = walker_gaps()
    F['walker_complete'] = not missed
    out['walker_missed'] = missed[:20]
    return out


PROBE_NAMES = ['fancy_index', 'ragged_basic_index_is_cow', 'basic_index', 'ravel', 'same_object', 'np_fresh_func',
               'np_view_func', 'fresh_method', 'ragged_view_ctor', 'wrap_ctor', 'ragged_slice', 'unsafe_extend', 'arith',
               'no_unregistered_write', 'walker_complete']


# =============================================================================================== generator
TEXT_LAYOUTS = ['fresh', 'rowslice', 'colslice', 'chunk']
GENO_FNS = ('genotype_encode', 'phased_genotype_encode', 'phased_haplotype_encode')
FAMILY = {
    'str_to_int': 'int_text', 'str_to_float': 'float_text', 'str_to_int_with_missing': 'missing_int',
    'str_to_float_with_missing': 'missing_float', 'ints_to_strings': 'ints', 'int_lists_to_strings': 'lists',
    'float_to_strings': 'floats', 'join': 'text', 'split': 'text', 'str_equal': 'text', 'str_equal_rr': 'text',
    'as_encoded_array_dna': 'dna', 'change_encoding': 'dna', 'dna_encode_list': 'dna', 'to_string': 'text',
    'tolist': 'text', 'encoded_eq': 'dna', 'genotype_encode': 'geno', 'phased_genotype_encode': 'geno_phased',
    'phased_haplotype_encode': 'geno_phased', 'get_kmers': 'dna', 'count_kmers': 'dna', 'get_minimizers': 'dna5',
    'match_string': 'dna', 'reverse_complement': 'dna', 'reverse_complement_ascii': 'dna', 'count_encoded': 'dna',
    'translate': 'dna3', 'translate_entries': 'dna3', 'motif_scores': 'dna',
    'bincount': 'ints', 'quantile': 'ints', 'stream_bincount': 'ints', 'histogram': 'floats', 'mean': 'floats',
    'ragged_slice': 'text', 'ragged_slice_ends': 'text', 'encoded_lookup': 'dna', 'encoded_counts': 'dna',
    'get_sequences': 'dna', 'get_strand_specific_sequences': 'dna', 'indexed_fasta_intervals': 'dna',
    'stream_reverse_complement': 'dna', 'encode_acgtn': 'dnan', 'decode_acgtn': 'dnan', 'encode_rna': 'rna', 'decode_rna': 'rna',
    'encode_amino': 'amino', 'decode_amino': 'amino', 'encode_strand': 'strand', 'decode_strand': 'strand',
    'encode_digit': 'digit', 'decode_digit': 'digit', 'encode_quality': 'qual', 'decode_quality': 'qual',
}


def _gen_strs(rng, fam, n):
    sci = rng.random() < 0.5          # float columns: half of the cases are all-decimal (the parser's other path)

    def digits(k):
        return ''.join(rng.choice('0123456789') for _ in range(k))
    out = []
    for _ in range(n):
        if fam in ('int_text', 'missing_int'):
            s = rng.choice(['', '-', '-', '+']) + (digits(rng.randint(1, 6)).lstrip('0') or '0')
            if fam == 'missing_int' and rng.random() < 0.3:
                s = ''
        elif fam in ('float_text', 'missing_float'):
            s = rng.choice(['', '-']) + (digits(rng.randint(1, 3)).lstrip('0') or '0')
            if rng.random() < 0.7:
                s += '.' + digits(rng.randint(1, 3))
            if sci and rng.random() < 0.5:
                s += 'e' + rng.choice(['', '-', '+']) + str(rng.randint(0, 4))
            if fam == 'missing_float' and rng.random() < 0.3:
                s = ''
        elif fam == 'text':
            s = ''.join(rng.choice('abcXYZ019') for _ in range(rng.randint(1, 6)))
        elif fam in ('dna', 'dna5'):
            s = ''.join(rng.choice('ACGT') for _ in range(rng.randint(5 if fam == 'dna5' else 2, 12)))
        elif fam == 'dna3':
            s = ''.join(rng.choice('ACGT') for _ in range(3 * rng.randint(1, 4)))
        elif fam in ('dnan', 'rna', 'amino', 'strand', 'digit', 'qual'):
            alph = {'dnan': 'ACGTNacgtn', 'rna': 'ACGU', 'amino': 'ACDEFGHIKLMNPQRSTVWY', 'strand': '+-.', 'digit': '0123456789',
                    'qual': '!#5I+'}[fam]
            s = ''.join(rng.choice(alph) for _ in range(rng.randint(1, 8)))
        else:
            raise ValueError(fam)
        out.append(s)
    return out


def _gen_geno(rng, n, phased):
    ns = rng.randint(1, 3)
    gts = ['0|0', '0|1', '1|0', '1|1'] if phased else ['0/0', '0/1', '1/1', './.', '0|1']
    end = '\n' if rng.random() < 0.85 else '\t'
    return ['\t'.join(rng.choice(gts) for _ in range(ns)) + end for _ in range(n)]


def _gen_rows(rng, n, sorted_=True):
    rows = []
    for _ in range(n):
        c = rng.choice(['chr1', 'chr1', 'chr2', 'chr3'])
        size = {'chr1': 60, 'chr2': 40, 'chr3': 25}[c]
        s = rng.randint(0, size - 2)
        e = rng.randint(s + 1, min(size, s + rng.choice([1, 3, 10, 30])))
        rows.append([c, s, e, rng.choice('+-')])
    if sorted_:
        rows.sort(key=lambda r: (r[0], r[1]))
    return rows


def generate(tier, seed):
    rng = random.Random(seed * 104729 + 20)
    cases = [dict(kind='probe')]
    cases += [dict(kind='site', sid=s) for s in sorted(SITES)]
    reps = 2 if tier == 'quick' else 12
    names = sorted(FAMILY) + ['merge_intervals', 'merge_intervals_d', 'sort_intervals', 'count_overlap', 'intersect',
                              'global_intersect', 'unique_intersect', 'get_boolean_mask', 'get_pileup', 'jaccard', 'forbes',
                              'gi_merged', 'gi_merged_d', 'gi_sorted', 'gi_pileup', 'gi_mask', 'gi_extended', 'gi_clip',
                              'gi_location', 'gi_windows', 'gi_index', 'ga_extract', 'ga_sum', 'ga_from_bedgraph',
                              'table_replace', 'table_index', 'table_concat', 'table_tolist', 'table_topandas',
                              'table_sort_by', 'table_astype', 'table_str', 'table_add_fields', 'table_todict', 'table_write',
                              'groupby', 'genome_get_locations', 'gl_sorted', 'gi_map_locations', 'gi_from_fields',
                              'genomic_sequence_extract', 'binned_genome_count', 'ga_index']
    for rep in range(reps):
        for fn in names:
            fam = FAMILY.get(fn)
            n = rng.choice([1, 2, 3, 5]) if rep else 3
            if fam in ('ints',):
                cases.append(dict(kind='call', fn=fn, v=dict(ints=[rng.choice([0, -1, 9, 10, -10, 99, 100, -12345, rng.randint(-10 ** 6, 10 ** 6)]) for _ in range(n)])))
            elif fam == 'lists':
                cases.append(dict(kind='call', fn=fn, v=dict(lists=[[rng.randint(-50, 500) for _ in range(rng.randint(1, 3))] for _ in range(n)])))
            elif fam == 'floats':
                cases.append(dict(kind='call', fn=fn, v=dict(floats=[rng.choice([0.5, -1.25, 1e-5, 3.0, 1e10, -2.5e-3]) for _ in range(n)])))
            elif fam in ('geno', 'geno_phased'):
                for lay in ('fresh', 'rowslice', 'colslice'):
                    cases.append(dict(kind='call', fn=fn, v=dict(strs=_gen_geno(rng, n, fam == 'geno_phased'), layout=lay)))
            elif fam is not None:
                for lay in TEXT_LAYOUTS:
                    if lay == 'chunk' and fam in ('missing_int', 'missing_float'):
                        continue
                    cases.append(dict(kind='call', fn=fn, v=dict(strs=_gen_strs(rng, fam, n), layout=lay)))
            else:
                single = fn in ('merge_intervals', 'merge_intervals_d', 'get_boolean_mask', 'get_pileup')
                rows = _gen_rows(rng, n + 2)
                if single:
                    rows = [r for r in rows if r[0] == 'chr1'] or [['chr1', 1, 5, '+']]
                    if rep % 2 == 0:
                        rows.append(['chr1', rows[-1][1], max(rows[-1][1] + 1, rows[-1][2] - 2), '+'])   # nested in the previous one
                if fn in ('gi_sorted', 'sort_intervals', 'table_sort_by'):
                    rng.shuffle(rows)
                for lay in ('fresh', 'rowslice'):
                    cases.append(dict(kind='call', fn=fn, v=dict(rows=rows, rows2=_gen_rows(rng, rng.randint(1, 3)), layout=lay)))
    cases += gen_round6_cases(rng, tier)
    # file chunks: every format, lazy and eager, every inspection
    nchunk = 2 if tier == 'quick' else 10
    all_ops = ['fields', 'data_object', 'tolist', 'str', 'index', 'concat', 'pandas', 'replace']
    for rep in range(nchunk):
        for fmt in FORMATS:
            for lazy in (True, False):
                name, data, bt = gen_file(fmt, rng, rng.choice([1, 2, 4]) if rep else 3)
                ops = all_ops if rep == 0 else rng.sample(all_ops, rng.randint(1, 4))
                cases.append(dict(kind='chunk', fmt=fmt, name=name, file=data.hex(), bt=bt, lazy=lazy, ops=ops))
    cases += gen_chain_cases(rng, tier)
    return cases


R6_FUNCTIONS = {
    'bam_fields': ('bam', R6_BAM_LAYOUTS), 'bam_to_interval': ('bam', R6_BAM_LAYOUTS), 'bam_table_ops': ('bam', R6_BAM_LAYOUTS),
    'matrix_to_csv': ('matrix', R6_NUM_LAYOUTS), 'parse_matrix': ('matrix_text', R6_FLAT_LAYOUTS),
    'pwm_calculate_scores': ('dna', R6_FLAT_LAYOUTS), 'rolling_same_flat': ('dna', R6_FLAT_LAYOUTS),
    'rolling_same': ('dna', TEXT_LAYOUTS), 'apply_variants': ('dna', R6_FLAT_LAYOUTS),
    'ea_array_functions': ('dna', R6_FLAT_LAYOUTS), 'ea_text_functions': ('text', R6_FLAT_LAYOUTS),
    'ragged_numeric': ('lists', R6_NUM_LAYOUTS), 'bedgraph_get_pileup': ('rows1', R6_TABLE_LAYOUTS),
    'multistream': ('rows', R6_TABLE_LAYOUTS), 'stream_pipeline': ('rows', R6_TABLE_LAYOUTS),
    'table_chain': ('rows', R6_TABLE_LAYOUTS), 'compute_graph': ('ints', R6_FLAT_LAYOUTS),
}


def gen_round6_cases(rng, tier):
    """Round 6 call cases: every new registry function x its four memory layouts (x repetitions)."""
    try:
        from harness.props import c16   # noqa: F401  (BAM bytes are built with C16's encoder)
        have_bam = True
    except Exception:
        have_bam = False
    out = []
    reps = 1 if tier == 'quick' else 6
    for rep in range(reps):
        for fn in sorted(R6_FUNCTIONS):
            fam, layouts = R6_FUNCTIONS[fn]
            n = rng.choice([2, 3, 5]) if rep else 3
            if fam == 'bam':
                if not have_bam:
                    continue
                base = dict(bam=_gen_bam(rng, n + 1).hex())
            elif fam == 'matrix':
                nc = rng.randint(1, 4)
                base = dict(matrix=[[rng.choice([0, 7, -5, 10, 99, -12345, rng.randint(0, 10 ** 6)]) for _ in range(nc)] for _ in range(n)])
            elif fam == 'matrix_text':
                nc = rng.randint(1, 3)
                base = dict(text='id\t' + '\t'.join('c%d' % i for i in range(nc)) + '\n' + ''.join(
                    'r%d\t' % i + '\t'.join(str(rng.choice([0, 5, 17, 230, rng.randint(0, 9999)])) for _ in range(nc)) + '\n' for i in range(n)))
            elif fam == 'lists':
                base = dict(lists=[[rng.randint(-50, 500) for _ in range(rng.randint(1, 4))] for _ in range(n)])
            elif fam == 'ints':
                base = dict(ints=[rng.randint(0, 49) for _ in range(4)])
            elif fam in ('rows', 'rows1'):
                rows = _gen_rows(rng, n + 3)
                if fam == 'rows1':
                    # one chromosome, distinct starts, NOT sorted (bedgraph.get_pileup sorts the positions itself)
                    starts = rng.sample(range(0, 50), n + 2)
                    rows = [['chr1', st, min(60, st + rng.choice([1, 3, 10, 30])), rng.choice('+-')] for st in starts]
                    if rows == sorted(rows):
                        rows.reverse()
                base = dict(rows=rows, rows2=_gen_rows(rng, rng.randint(2, 4)))
            else:
                base = dict(strs=_gen_strs(rng, fam, n))
            for lay in layouts:
                out.append(dict(kind='call', fn=fn, v=dict(base, layout=lay)))
    return out


# =============================================================================================== observe / emit
def observe(case):
    k = case['kind']
    if k == 'call':
        return _observe_call(case)
    if k == 'chunk':
        return _observe_chunk(case)
    if k == 'chain':
        return _observe_chain(case)
    if k == 'site':
        return extract_site(case['sid'])
    if k == 'probe':
        return _observe_probe(case)
    raise ValueError(k)


def _digest(hexstr):
    import hashlib
    return hashlib.sha256(bytes.fromhex(hexstr)).digest()[:16]


def _rep(b, full=False):
    """A buffer as it goes to Coq: itself when short (or when the model needs its text), else a 16-byte digest
    (Z and string literals are slow to elaborate; the full bytes are in the replay file)."""
    import hashlib
    b = bytes.fromhex(b) if isinstance(b, str) else bytes(b)
    return b if (full or len(b) <= 24) else hashlib.sha256(b).digest()[:16]


def _blocks(lst, full=()):
    return clist([hx(_rep(b, i in full)) for i, b in enumerate(lst)], 'list Z')


def _case_term(kind, site=0, cow=False, target=0, before=(), after=(), lb=b'', la=b'', r1=b'', r2=b'', wr=b'', wg=b'',
               npar=0, prog=(), prog2=(), flags=(), full=()):
    return ('{| k_kind := %s; k_site := %s; k_cow := %s; k_target := %s; k_before := %s; k_after := %s; '
            'k_log_before := %s; k_log_after := %s; k_res1 := %s; k_res2 := %s; k_w_ref := %s; k_w_got := %s; '
            'k_np := %s; k_prog := %s; k_prog2 := %s; k_flags := %s |}' % (
                cz(kind), cz(site), cbool(cow), cz(target), _blocks(before, full), _blocks(after, full), hx(lb), hx(la), hx(r1), hx(r2),
                hx(_rep(wr)), hx(_rep(wg)), cz(npar), prog_to_coq(list(prog)), prog_to_coq(list(prog2)), clist([cbool(f) for f in flags], 'bool')))


def to_coq(case, o):
    k = case['kind']
    if k == 'call':
        site = 14 if case['fn'] in GENO_FNS else 0
        return _case_term(0, site=site, cow=o['cow'], target=o['target'], before=o['before'], after=o['after'],
                          full=(o['target'],) if site == 14 else (), lb=_digest(o['log_before']), la=_digest(o['log_after']), r1=_digest(o['res1']), r2=_digest(o['res2']))
    if k == 'chunk':
        if 'error' in o:
            return _case_term(1, before=['00'], after=['ff'])          # could not be read: never accepted
        return _case_term(1, before=o['before'], after=o['after'], r1=_digest(o['res1']), r2=_digest(o['res2']),
                          wr=bytes.fromhex(o['write_b']), wg=bytes.fromhex(o['write_a']))
    if k == 'chain':
        if 'error' in o:
            return _case_term(1, before=['00'], after=['ff'])
        return _case_term(1, before=o['before'], after=o['after'], lb=_digest(o['log_before']), la=_digest(o['log_after']),
                          r1=_digest(o['res1']), r2=_digest(o['res2']),
                          wr=bytes.fromhex(o['write_b']), wg=bytes.fromhex(o['write_a']))
    if k == 'site':
        known = all(p in PROBE_NAMES for p in o['probes'])
        prog = [tuple(i) if not isinstance(i, tuple) else i for i in o['prog']]
        if not known:
            prog = [('W', 0)]                                           # relied on an unprobed class: fail closed
        return _case_term(2, site=case['sid'], npar=o['np'], prog=prog, prog2=_translator_extract(case['sid']))
    if k == 'probe':
        return _case_term(3, flags=[bool(o['flags'].get(n, False)) for n in PROBE_NAMES])
    raise ValueError(k)


_TX = {}


def _translator_extract(sid):
    """The site extracted again in THIS (main) process through the translator's code path: same tree, same function as
    translate/gen_c20.py.  Anything going wrong gives a program no checker accepts."""
    if sid not in _TX:
        try:
            import sys
            from harness import lib
            real = os.path.realpath(lib.REPO)
            if real not in sys.path[:1]:
                sys.path.insert(0, real)
            import bionumpy
            if not os.path.realpath(bionumpy.__file__).startswith(real + os.sep):
                raise ImportError('bionumpy imported from %s' % bionumpy.__file__)
            e = extract_site(sid)
            if any(p not in PROBE_NAMES for p in e['probes']):
                raise RuntimeError('unprobed class')
            _TX[sid] = [tuple(i) for i in e['prog']]
        except BaseException:
            _TX[sid] = [('W', 0)]
    return _TX[sid]


def nontrivial(case, o):
    k = case['kind']
    if k == 'call':
        return 'error' not in o and any(len(b) > 0 for b in o['before'])
    if k == 'chunk':
        return 'error' not in o and o.get('n', 0) >= 1
    if k == 'chain':
        return 'error' not in o and 'fn_error' not in o and o.get('n', 0) >= 1
    if k == 'site':
        return any(i[0] == 'W' for i in o['prog'])
    return True


def describe(case, o):
    k = case['kind']
    if k == 'call':
        return dict(kind=k, fn=case['fn'], v=case['v'], buffers=o['paths'], error=o.get('error'),
                    unchanged=o['before'] == o['after'] and o['log_before'] == o['log_after'], same_result=o['res1'] == o['res2'])
    if k == 'chunk':
        return dict(kind=k, fmt=case['fmt'], lazy=case['lazy'], ops=case['ops'], n=o.get('n'), is_lazy=o.get('lazy'),
                    op_errors=o.get('op_errors'), file=bytes.fromhex(case['file']).decode('latin1')[:300])
    if k == 'chain':
        return dict(kind=k, fmt=case['fmt'], prep=case['prep'], fn=case['fn'], n=o.get('n'), is_lazy=o.get('lazy'),
                    fn_error=o.get('fn_error'), error=o.get('error'))
    if k == 'site':
        return dict(kind=k, site=SITES[case['sid']]['name'], n_instr=len(o['prog']), safe=abstract_run(o['np'], [tuple(i) for i in o['prog']])[0],
                    unknown=o['unknown'], probes=o['probes'])
    return dict(kind=k, flags=o.get('flags'))


def distribution(cases, obs):
    d = dict(kinds={}, functions={}, layouts={}, formats={}, call_errors={}, chunk_op_errors=0, sites_safe=0, sites_unsafe=[])
    for c, o in zip(cases, obs):
        k = c['kind']
        d['kinds'][k] = d['kinds'].get(k, 0) + 1
        if not isinstance(o, dict) or '__harness_error__' in o:
            continue
        if k == 'call':
            d['functions'][c['fn']] = d['functions'].get(c['fn'], 0) + 1
            lay = c['v'].get('layout', 'fresh')
            d['layouts'][lay] = d['layouts'].get(lay, 0) + 1
            if 'error' in o:
                e = c['fn'] + ': ' + o['error'].split(':')[0]
                d['call_errors'][e] = d['call_errors'].get(e, 0) + 1
        elif k == 'chunk':
            key = '%s/%s' % (c['fmt'], 'lazy' if o.get('lazy') else 'eager')
            d['formats'][key] = d['formats'].get(key, 0) + 1
            d['chunk_op_errors'] += len(o.get('op_errors', []))
        elif k == 'chain':
            d.setdefault('chains', {})
            key = '%s/%s' % (c['prep'], c['fn'])
            d['chains'][key] = d['chains'].get(key, 0) + 1
            if 'fn_error' in o or 'error' in o:
                d.setdefault('chain_errors', {})
                e = '%s %s: %s' % (c['fmt'], c['fn'], (o.get('fn_error') or o.get('error')).split(':')[0])
                d['chain_errors'][e] = d['chain_errors'].get(e, 0) + 1
        elif k == 'site':
            if abstract_run(o['np'], [tuple(i) for i in o['prog']])[0]:
                d['sites_safe'] += 1
            else:
                d['sites_unsafe'].append(SITES[c['sid']]['name'])
    return d


FINDING_GENO = 'C20-genotype-encode-writes-argument'


def finding(case, o):
    if case['kind'] == 'call' and case['fn'] in GENO_FNS and o['res1'] == o['res2']:
        # signature: only the argument's text changed, and only by newline -> tab
        for b, a in zip(o['before'], o['after']):
            if a != b and bytes.fromhex(b).replace(b'\n', b'\t') != bytes.fromhex(a):
                return None
        return FINDING_GENO
    if case['kind'] == 'site' and case['sid'] == 14:
        prog = [tuple(i) for i in o['prog']]
        ok, at = abstract_run(o['np'], prog)
        # signature: the only rejected write is the last instruction (the replace on genotype_rows.ravel())
        if not ok and at == len(prog) - 1 and sum(1 for i in prog if i[0] == 'W') == 1:
            return FINDING_GENO
    return None


def signature(case, o):
    if case['kind'] == 'call':
        return 'call:' + case['fn']
    if case['kind'] == 'chunk':
        return 'chunk:' + case['fmt']
    if case['kind'] == 'chain':
        return 'chain:%s:%s' % (case['prep'], case['fn'])
    if case['kind'] == 'site':
        return 'site:%d' % case['sid']
    return 'probe'


def explain(case, o):
    if case['kind'] == 'call':
        ch = [p for p, b, a in zip(o['paths'], o['before'], o['after']) if a != b]
        return dict(changed_buffers=ch, logical_content_changed=o['log_before'] != o['log_after'],
                    results_differ=o['res1'] != o['res2'], error=o.get('error'))
    if case['kind'] == 'chunk':
        return dict(buffer_changed=o.get('before') != o.get('after'), written_differs=o.get('write_a') != o.get('write_b'),
                    written_by_inspected_chunk=bytes.fromhex(o.get('write_a', '')).decode('latin1')[:400],
                    written_by_untouched_twin=bytes.fromhex(o.get('write_b', '')).decode('latin1')[:400],
                    reparse_differs=o.get('res1') != o.get('res2'), op_errors=o.get('op_errors'))
    if case['kind'] == 'chain':
        ch = [p for p, b, a in zip(o.get('paths', []), o.get('before', []), o.get('after', [])) if a != b]
        return dict(what='T = %s(lazily read %s chunk); %s(T) twice' % (case['prep'], case['fmt'], case['fn']),
                    changed_buffers=ch, logical_content_of_T_changed=o.get('log_before') != o.get('log_after'),
                    T_writes_before=bytes.fromhex(o.get('write_b', '')).decode('latin1')[:400],
                    T_writes_after=bytes.fromhex(o.get('write_a', '')).decode('latin1')[:400],
                    results_differ=o.get('res1') != o.get('res2'), fn_error=o.get('fn_error'), error=o.get('error'))
    if case['kind'] == 'site':
        prog = [tuple(i) for i in o['prog']]
        ok, at = abstract_run(o['np'], prog)
        return dict(site=SITES[case['sid']], checker_accepts=ok, rejected_instruction=at, program=prog, unknown=o['unknown'])
    return o


# =============================================================================================== in-place write scan
ANCHORED = ['io/strops.py', 'io/delimited_buffers.py', 'encodings/vcf_encoding.py', 'arithmetics/intervals.py',
            'bnpdataclass/lazybnpdataclass.py', 'io/file_buffers.py', 'sequence/translate.py', 'encoded_array.py']
SCAN_WRITE_METHODS = {'sort', 'fill', 'resize', 'put', 'itemset', 'setfield', 'partition', 'byteswap', 'setflags'}
SCAN_WRITE_FUNCS = {'replace_inplace', 'put', 'place', 'putmask', 'copyto', 'fill_diagonal', 'put_along_axis', 'shuffle'}


def _root_name(n):
    while isinstance(n, (ast.Subscript, ast.Attribute, ast.Call, ast.Starred)):
        n = n.func if isinstance(n, ast.Call) else n.value
    return n.id if isinstance(n, ast.Name) else type(n).__name__


CTOR_NAMES = {'__init__', '__post_init__', '__new__', '__setattr__', '__setstate__', '__init_subclass__'}
SCAN_DUNDERS = {'__setitem__', '__setattr__', '__delitem__', '__delattr__', '__iadd__', '__isub__', '__imul__', '__itruediv__',
                '__ifloordiv__', '__imod__', '__ipow__', '__iand__', '__ior__', '__ixor__', '__ilshift__', '__irshift__', '__imatmul__'}


def scan_file(path, rel):
    """Every in-place-writing statement of one source file: (key, line, text).
    key = rel::function qualname::kind::root name of the written object (no line numbers, no full text: re-spelling a
    known write keeps its key; a write to another object, of another kind or in another function is a new key).
    Kinds: setitem (x[..] = v, also tuple targets), setattr (x.a = v, x not self/cls), selfattr (self.a = v outside a
    constructor; round 6), augassign, out= (keyword of any call), method.<m> for sort/fill/resize/put/..., call.<f> for
    np.put/place/putmask/copyto/replace_inplace/.. and the builtins setattr/delattr (round 6), ufunc.at, dunder.<m> for an
    explicit x.__setitem__/__iadd__/.. call (round 6), del (del x[..] / del x.a; round 6)."""
    tree = ast.parse(open(path).read())
    out = []

    def visit(node, qual):
        for ch in ast.iter_child_nodes(node):
            if isinstance(ch, (ast.FunctionDef, ast.AsyncFunctionDef, ast.ClassDef)):
                visit(ch, qual + [ch.name])
                continue
            kinds = []
            if isinstance(ch, (ast.Assign, ast.AnnAssign)):
                tg = ch.targets if isinstance(ch, ast.Assign) else [ch.target]
                flat = []
                for t in tg:
                    flat += list(t.elts) if isinstance(t, (ast.Tuple, ast.List)) else [t]
                for t in flat:
                    if isinstance(t, ast.Starred):
                        t = t.value
                    if isinstance(t, ast.Subscript):
                        kinds.append(('setitem', _root_name(t)))
                    elif isinstance(t, ast.Attribute) and _root_name(t) not in ('self', 'cls'):
                        kinds.append(('setattr', _root_name(t)))
                    elif isinstance(t, ast.Attribute) and not (qual and qual[-1] in CTOR_NAMES):
                        kinds.append(('selfattr', _root_name(t)))
            elif isinstance(ch, ast.AugAssign):
                kinds.append(('augassign', _root_name(ch.target)))
            elif isinstance(ch, ast.Delete):
                for t in ch.targets:
                    if isinstance(t, (ast.Subscript, ast.Attribute)):
                        kinds.append(('del', _root_name(t)))
            elif isinstance(ch, (ast.For, ast.AsyncFor)) and isinstance(ch.target, (ast.Subscript, ast.Attribute)):
                kinds.append(('setitem', _root_name(ch.target)))
            for sub in ast.walk(ch) if not isinstance(ch, (ast.If, ast.For, ast.While, ast.With, ast.Try)) else []:
                if isinstance(sub, ast.NamedExpr):
                    continue
                if isinstance(sub, ast.Call):
                    if any(k.arg == 'out' for k in sub.keywords):
                        o = [k.value for k in sub.keywords if k.arg == 'out'][0]
                        kinds.append(('out=', _root_name(o)))
                    f = sub.func
                    if isinstance(f, ast.Attribute) and f.attr in SCAN_WRITE_METHODS and _root_name(f.value) not in ('np', 'numpy'):
                        kinds.append(('method.' + f.attr, _root_name(f.value)))
                    if isinstance(f, ast.Attribute) and f.attr in SCAN_DUNDERS:
                        kinds.append(('dunder.' + f.attr, _root_name(f.value)))
                    name = f.attr if isinstance(f, ast.Attribute) else f.id if isinstance(f, ast.Name) else None
                    if name in SCAN_WRITE_FUNCS and (isinstance(f, ast.Name) or _root_name(f) in ('np', 'numpy', 'strops')):
                        kinds.append(('call.' + name, _root_name(sub.args[0]) if sub.args else '?'))
                    if name in ('setattr', 'delattr') and isinstance(f, ast.Name):
                        kinds.append(('call.' + name, _root_name(sub.args[0]) if sub.args else '?'))
                    if name == 'at' and isinstance(f, ast.Attribute) and _root_name(f) in ('np', 'numpy'):
                        kinds.append(('ufunc.at', _root_name(sub.args[0]) if sub.args else '?'))
            for k, root in kinds:
                try:
                    text = ast.unparse(ch).split('\n')[0][:120]
                except Exception:
                    text = type(ch).__name__
                out.append(('%s::%s::%s::%s' % (rel, '.'.join(qual) or '<module>', k, root), ch.lineno, text))
            if isinstance(ch, (ast.If, ast.For, ast.While, ast.With, ast.Try, ast.ExceptHandler)) or not isinstance(ch, ast.stmt):
                visit(ch, qual)
    visit(tree, [])
    return out


def scan_tree(pkg_dir, files=None):
    res = []
    if files is None:
        files = []
        for d, _, fs in os.walk(pkg_dir):
            for f in fs:
                if f.endswith('.py'):
                    files.append(os.path.relpath(os.path.join(d, f), pkg_dir))
    for rel in sorted(files):
        p = os.path.join(pkg_dir, rel)
        if os.path.exists(p):
            try:
                import warnings
                with warnings.catch_warnings():
                    warnings.simplefilter('ignore')
                    res += scan_file(p, rel)
            except SyntaxError:
                res.append(('%s::<unparsable>::?::?' % rel, 0, ''))
        else:
            res.append(('%s::<missing>::?::?' % rel, 0, ''))
    return res


ALLOWLIST_FILE = os.path.join(os.path.dirname(os.path.dirname(os.path.dirname(os.path.abspath(__file__)))), 'notes', 'C20.allowlist.json')


def load_allowlist():
    """notes/C20.allowlist.json: {"allow": [{"key": <scan key>, "count": <statements with that key at review time>,
    "reason": <one line>}]}.  A missing / unreadable file allows nothing."""
    try:
        with open(ALLOWLIST_FILE) as f:
            rows = json.load(f)['allow']
        return {r['key']: (int(r['count']), r['reason']) for r in rows if r.get('reason', '').strip()}
    except Exception:
        return {}


def write_gate():
    """The registry-completeness gate (round 6: the WHOLE package, not only the anchored files).  Every in-place-writing
    statement of bionumpy/**/*.py must be (a) inside a function whose body the extractor analysed while extracting some
    registered site (then its effect is in Gen/C20.v and proved safe by Bridge/C20.v on this run), or (b) accepted by key in
    ACCEPTED_WRITES (anchored files, phase 3), or (c) listed with a reason in notes/C20.allowlist.json with at least as
    many statements allowed under that key as the source has now.  Anything else is returned as unregistered."""
    import bionumpy
    pkg = os.path.dirname(bionumpy.__file__)
    visited = set()
    for sid in sorted(SITES):
        try:
            for v in extract_site(sid)['visited']:
                m, q = v.split(':')
                rel = m.replace('bionumpy.', '', 1).replace('.', '/') if m != 'bionumpy' else '__init__'
                visited.add((rel + '.py', q))
                visited.add((rel + '/__init__.py', q))
        except Exception:
            pass                                  # a site that cannot be extracted analyses nothing (and fails elsewhere)
    allow = load_allowlist()
    groups = {}
    for key, line, text in scan_tree(pkg):
        groups.setdefault(key, []).append((line, text))
    out = []
    stats = dict(statements=0, covered_by_site=0, accepted_anchored=0, allowlisted=0, unregistered=0)
    for key in sorted(groups):
        rel, fn, kind, root = key.split('::')
        n = len(groups[key])
        stats['statements'] += n
        if (rel, fn) in visited:
            stats['covered_by_site'] += n
        elif key in ACCEPTED_WRITES:
            stats['accepted_anchored'] += n
        elif key in allow and n <= allow[key][0]:
            stats['allowlisted'] += n
        else:
            stats['unregistered'] += n
            why = 'more statements than allow-listed (%d > %d)' % (n, allow[key][0]) if key in allow else 'not registered, not allow-listed'
            for line, text in groups[key]:
                out.append('%s (line %d: %s) [%s]' % (key, line, text, why))
    stale = sorted(k for k in allow if k not in groups)
    return out, stats, stale


def unregistered_writes():
    return write_gate()[0]


def _gc_arrays(obj, limit=50000):
    """Every ndarray that Python's own reachability (gc.get_referents) finds from obj, not passing through classes,
    modules, functions or code — an independent traversal to cross-check _walk."""
    import gc
    import types
    import numpy as np
    skip = (type, types.ModuleType, types.FunctionType, types.BuiltinFunctionType, types.MethodType, types.CodeType,
            types.FrameType, str, bytes, int, float, bool, complex, np.dtype, property, staticmethod, classmethod)
    seen, todo, found = set(), [obj], []
    while todo and len(seen) < limit:
        x = todo.pop()
        if id(x) in seen or isinstance(x, skip) or x is None:
            continue
        seen.add(id(x))
        if isinstance(x, np.ndarray):
            found.append(x)
        mod = type(x).__module__ or ''
        if isinstance(x, (np.ndarray, list, tuple, dict, set, frozenset)) or mod.startswith('bionumpy') or mod.startswith('npstructures') \
                or mod.startswith('functools') or mod.startswith('collections'):
            todo.extend(gc.get_referents(x))
    return found


def walker_gaps():
    """Arguments of every registry function (one fixed variant each) and lazily read chunks of every format: arrays
    found by gc reachability that share no memory with any root the snapshot walker holds."""
    import numpy as np
    rng = random.Random(7)
    missed = []
    R = registry()
    objs = []
    r6 = {}
    for c in gen_round6_cases(random.Random(11), 'quick'):
        if c['v'].get('layout') in ('rowslice', 'strided', 'mask'):
            r6.setdefault(c['fn'], c['v'])
    for fn in sorted(R):
        fam = FAMILY.get(fn)
        try:
            if fn in r6:
                v = r6[fn]
            elif fam == 'ints':
                v = dict(ints=[3, -4, 50])
            elif fam == 'lists':
                v = dict(lists=[[1, 2], [3]])
            elif fam == 'floats':
                v = dict(floats=[0.5, -1.5])
            elif fam in ('geno', 'geno_phased'):
                v = dict(strs=_gen_geno(rng, 2, fam == 'geno_phased'), layout='rowslice')
            elif fam is not None:
                v = dict(strs=_gen_strs(rng, fam, 3), layout=rng.choice(['fresh', 'rowslice', 'colslice']))
            else:
                v = dict(rows=[r for r in _gen_rows(rng, 4) if r[0] == 'chr1'] or [['chr1', 1, 5, '+']], rows2=_gen_rows(rng, 2), layout='rowslice')
            objs.append((fn, R[fn][0](v)))
        except Exception as e:
            missed.append('%s: arguments could not be built: %s' % (fn, type(e).__name__))
    import bionumpy as bnp
    d = tempfile.mkdtemp(prefix='c20_')
    try:
        for fmt in FORMATS:
            name, data, bt = gen_file(fmt, rng, 3)
            p = os.path.join(d, fmt + '_' + name)
            open(p, 'wb').write(data)
            b = _buffer_type(bt)
            f = bnp.open(p, lazy=True, **(dict(buffer_type=b) if b is not None else {}))
            objs.append(('chunk:' + fmt, f.read_chunk()))
            f.close()
    finally:
        shutil.rmtree(d, ignore_errors=True)
    for label, o in objs:
        roots = [r for r, _, _ in mem_snapshot(o)]
        for a in _gc_arrays(o):
            if a.dtype == object or a.size == 0 or a.dtype.kind not in 'biufSUc?':
                continue
            if not any(np.shares_memory(a, r) for r in roots):
                missed.append('%s: %s%s not reached' % (label, a.dtype, a.shape))
    return missed


# =============================================================================================== two-step chains
# The argument of the second call is itself the RESULT of an earlier public operation on a lazily read chunk, so it
# carries hidden state (user-set columns, cached fields, a non-contiguous extractor, ...).  That result T is
# snapshotted (reachable buffers by reference, logical content, the bytes it writes), handed twice to a function,
# and compared.
CHAIN_PREPS = ['none', 'replace', 'replace2', 'setattr', 'access', 'index', 'mask', 'write', 'data_object', 'replace_index']


def _int_fields(T):
    import dataclasses
    return [f.name for f in dataclasses.fields(T) if f.type is int]


def _chain_prep(chunk, prep, write):
    import numpy as np
    import bionumpy as bnp
    ints = _int_fields(chunk)
    if prep == 'none':
        return chunk
    if prep in ('replace', 'replace2', 'replace_index'):
        if ints:
            T = bnp.replace(chunk, **{ints[0]: getattr(chunk, ints[0]) + 1})
        else:
            T = bnp.replace(chunk, name=chunk.name)
        if prep == 'replace2' and len(ints) > 1:
            T = bnp.replace(T, **{ints[1]: getattr(T, ints[1]) + 2})
        if prep == 'replace_index':
            T = T[::-1]
        return T
    if prep == 'setattr':
        T = chunk[np.arange(len(chunk))]
        if ints:
            setattr(T, ints[0], getattr(T, ints[0]) + 3)       # explicit assignment, BEFORE the snapshot
        else:
            T.name = T.name
        return T
    if prep == 'access':
        import dataclasses
        for f in dataclasses.fields(chunk):
            getattr(chunk, f.name)
        return chunk
    if prep == 'index':
        return chunk[::2]
    if prep == 'mask':
        return chunk[np.arange(len(chunk)) % 3 != 1]
    if prep == 'write':
        write(chunk, 'prep')
        return chunk
    if prep == 'data_object':
        return chunk.get_data_object() if hasattr(chunk, 'get_data_object') else chunk
    raise ValueError(prep)


def chain_functions():
    """name -> (applicable(field names), call(T)): every registered function that takes a table."""
    import numpy as np
    import bionumpy as bnp
    from bionumpy import arithmetics as ar
    from bionumpy import sequence as sq
    from bionumpy.datatypes import Interval
    iv = lambda fs: {'chromosome', 'start', 'stop'} <= set(fs)
    seq = lambda fs: 'sequence' in fs
    anyt = lambda fs: True
    sizes = {'chr1': 10 ** 7, 'chr2': 10 ** 7, 'chrX': 10 ** 7}
    F = {}
    F['replace_first'] = (lambda fs: True, lambda T: bnp.replace(T, **{(_int_fields(T) or ['name'])[0]: getattr(T, (_int_fields(T) or ['name'])[0])}))
    F['replace_stop'] = (iv, lambda T: bnp.replace(T, stop=T.stop + 1000))
    F['replace_name'] = (lambda fs: 'name' in fs, lambda T: bnp.replace(T, name=T.name))
    F['reverse_complement'] = (seq, lambda T: sq.get_reverse_complement(T))
    F['translate'] = (seq, lambda T: sq.translate_dna_to_protein(T))
    F['kmers'] = (seq, lambda T: sq.get_kmers(bnp.as_encoded_array(T.sequence, bnp.DNAEncoding), 2))
    F['sort_intervals'] = (iv, lambda T: ar.sort_intervals(T))
    F['merge_intervals'] = (iv, lambda T: ar.merge_intervals(T[T.chromosome == T.chromosome[0]] if len(T) else T, distance=2))
    F['count_overlap'] = (iv, lambda T: ar.count_overlap(T, T))
    F['intersect'] = (iv, lambda T: ar.intersect(T, T))
    F['unique_intersect'] = (iv, lambda T: ar.unique_intersect(T, T, 10 ** 8))
    F['genome_intervals'] = (iv, lambda T: [bnp.Genome.from_dict(sizes).get_intervals(T).get_location('stop'),
                                            bnp.Genome.from_dict(sizes).get_intervals(T).sorted().get_data()])
    F['astype_interval'] = (iv, lambda T: T.astype(Interval))
    F['index'] = (anyt, lambda T: [T[::-1], T[np.arange(len(T)) % 2 == 0], T[[0] * min(1, len(T))]])
    F['concat'] = (anyt, lambda T: np.concatenate([T, T]))
    F['tolist'] = (anyt, lambda T: [repr(e) for e in T.tolist()])
    F['todict'] = (anyt, lambda T: T.todict())
    F['fields'] = (anyt, lambda T: [getattr(T, f) for f in _field_names(T)])
    F['data_object'] = (anyt, lambda T: T.get_data_object() if hasattr(T, 'get_data_object') else T)
    F['replace_last'] = (lambda fs: True, lambda T: bnp.replace(T, **{_field_names(T)[-1]: getattr(T, _field_names(T)[-1])}))
    F['write'] = (anyt, None)         # filled per case (needs the case's writer)
    return F



def _field_names(T):
    import dataclasses
    return [f.name for f in dataclasses.fields(T)]


CHAIN_FUNCTIONS = ['replace_first', 'replace_last', 'replace_stop', 'replace_name', 'reverse_complement', 'translate', 'kmers',
                   'sort_intervals', 'merge_intervals', 'count_overlap', 'intersect', 'unique_intersect', 'genome_intervals',
                   'astype_interval', 'index', 'concat', 'tolist', 'todict', 'fields', 'data_object', 'write']
CHAIN_FORMATS = ['bed', 'bed6', 'bed12', 'narrowPeak', 'bdg', 'vcf', 'sam', 'fastq', 'fastq3', 'fa2', 'gfa', 'sizes']


def chain_applicable(fmt, fn):
    iv = fmt in ('bed', 'bed6', 'bed12', 'narrowPeak', 'bdg')
    seq = fmt in ('fastq', 'fastq3', 'fa2', 'gfa', 'sam')
    if fn in ('replace_stop', 'sort_intervals', 'merge_intervals', 'count_overlap', 'intersect', 'unique_intersect',
              'genome_intervals', 'astype_interval'):
        return iv
    if fn in ('reverse_complement', 'kmers'):
        return fmt in ('fastq', 'fastq3', 'fa2', 'gfa')
    if fn == 'translate':
        return fmt == 'fastq3'
    if fn == 'replace_name':
        return fmt in ('bed6', 'bed12', 'narrowPeak', 'fastq', 'fastq3', 'fa2', 'gfa', 'sam')
    return True


def _observe_chain(case):
    import numpy as np
    import bionumpy as bnp
    from bionumpy.bnpdataclass.lazybnpdataclass import LazyBNPDataClass
    d = tempfile.mkdtemp(prefix='c20_')
    try:
        p = os.path.join(d, case['name'])
        open(p, 'wb').write(bytes.fromhex(case['file']))
        bt = _buffer_type(case['bt'])
        kw = dict(buffer_type=bt) if bt is not None else {}

        def write(t, tag):
            q = os.path.join(d, tag + '_' + case['name'])
            try:
                with bnp.open(q, 'w', **kw) as f:
                    f.write(t)
                return open(q, 'rb').read().hex()
            except Exception as e:
                return ('error:' + type(e).__name__).encode().hex()
        try:
            f = bnp.open(p, lazy=True, **kw)
            chunk = f.read_chunk()
            f.close()
            T = _chain_prep(chunk, case['prep'], write)
        except Exception as e:
            return dict(error='prep: %s: %s' % (type(e).__name__, str(e)[:200]))
        F = chain_functions()
        fn = (lambda t: write(t, 'fn')) if case['fn'] == 'write' else F[case['fn']][1]
        out = dict(lazy=isinstance(T, LazyBNPDataClass), n=len(T))
        out['write_b'] = write(T, 'before')                    # the bytes T writes, before
        snap = mem_snapshot((T, chunk))
        out['paths'] = [p_ for _, p_, _ in snap]
        out['before'] = [b.hex() for _, _, b in snap]
        out['log_before'] = _flat(logical(T)).hex()
        res = []
        for _ in range(2):
            try:
                res.append(_flat(['ok', logical(fn(T))]).hex())
            except Exception as e:
                res.append(_flat(['error', type(e).__name__]).hex())
                out.setdefault('fn_error', '%s: %s' % (type(e).__name__, str(e)[:160]))
        out['res1'], out['res2'] = res
        out['after'] = [r.tobytes().hex() for r, _, _ in snap]
        out['log_after'] = _flat(logical(T)).hex()
        out['write_a'] = write(T, 'after')
        return out
    finally:
        shutil.rmtree(d, ignore_errors=True)


def gen_chain_cases(rng, tier):
    cases = []
    per = 3 if tier == 'quick' else 8
    for fmt in CHAIN_FORMATS:
        fns = [f for f in CHAIN_FUNCTIONS if chain_applicable(fmt, f)]
        for prep in CHAIN_PREPS:
            chosen = ['replace_last'] + rng.sample([f for f in fns if f != 'replace_last'], min(per, len(fns) - 1))
            for fn in chosen:
                if fmt == 'fastq3':
                    L = []
                    for i in range(rng.choice([2, 3, 5])):
                        l = 3 * rng.randint(1, 5)
                        L += ['@r%d' % i, ''.join(rng.choice('ACGT') for _ in range(l)), '+', ''.join(rng.choice('!#5I') for _ in range(l))]
                    name, data, bt = 'x.fastq', ('\n'.join(L) + '\n').encode(), None
                else:
                    name, data, bt = gen_file(fmt, rng, rng.choice([2, 3, 5]))
                cases.append(dict(kind='chain', fmt=fmt, name=name, file=data.hex(), bt=bt, prep=prep, fn=fn))
    return cases

"""C03 — write then read returns the same table; writing is canonical and composable."""
import gzip
import itertools
import os
import random
import shutil
import tempfile

from harness.lib import hx, zl, cz, cbool, clist

ID = 'C03'
RULE = ('tables of 0..N rows for Interval, Bed6, Bed12, BedGraph, NarrowPeak, SAM, GTF, VCF (in-memory with text INFO, '
        'in-memory VCFEntry, lazily read, lazily read with replaced POS), FASTA (line width 80 and small widths, sequence '
        'lengths around multiples of the width, several alphabets), FASTQ; written through bnp.open(path, w|a) under a '
        'history of sessions x write calls x stream chunks that partitions the rows (all compositions for small n, empty '
        'pieces included) x {plain, gzip}; observed: file bytes (decompressed) and bnp.open(path).read(). '
        'non-trivial = at least 2 rows differing in the width of some cell (or a multi-line FASTA record) written in at '
        'least 2 pieces, or an integer cell next to a power of ten / int64 bound. Float columns also hold 0.0 and -0.0 together '
        '(equal values, different text) in mixed order under every split; "reread" tables are READ lazily from a canonical file, '
        'then sliced / masked / re-ordered and np.concatenate\'d (calls with concat=true write the concatenation in one write) '
        'before being written; identifier columns empty in every row; int columns also held as int8/16/32/64 and uint8/16/32/64 '
        'arrays and float columns as float32, with values at both limits of the dtype, 0 and -1 (case field dtypes); SAM cases with a '
        'tag-less row also read the old trailing-TAB spelling; after the writes the table handed to write() must be unchanged; '
        'BIG tables (case field big): a base block of 1..7 generated rows tiled to 4097..131073 rows (quick; thorough 2^k-1, 2^k, 2^k+1 for '
        'k = 8..17, 10^4+-1, 10^5+-1, 3*2^16+1, 2^18+1) handed to ONE write call / stream chunk, alone, after a small piece, in append mode, to gzip, '
        'for every in-memory format; file bytes and read-back table observed in lossless run-length form and decided segment-wise in Coq (Corr/C03T.v)')
EXHAUSTIVE = {'quick': False, 'thorough': False}
TIE = ('translator+correspondence: 44 definitions regenerated from /repo (translate/gen_c03.py -> Gen/C03.v) bridged to the named '
       'helpers of Model/C03.v (Bridge/C03.v, theorem C03_source_tie); Model.C03.run_hist evaluated in Coq on the same history, '
       'reference reader on the written bytes')
ASSUMPTIONS = [
    'A-FLOAT: float cells are printed by Python str(float) (opaque printer). Theorems C03_parse_serialise_floats / C03_roundtrip_delim '
    'cover float tables for ANY printer/reader pair with the stated round-trip hypothesis (reader inverts printer, no TAB/LF in the '
    'text); that str(float)/str_to_float satisfy it to printing precision is checked per case: the generator supplies the text and '
    'the exact value, spec_ok compares the value read back with the exact value to 1e-12 relative',
    'A-DTYPE: a cell FI n denotes the mathematical value whatever integer dtype holds it (uint64 values stay within the int64 range the '
    'reader returns; a VCF POS column stays below its dtype maximum because the file holds POS+1); a float32 cell carries the text '
    'str(np.float32(v)) and, as its value, the value of that text',
    'A-GZIP: gzip is transparent (the decompressed concatenation of members is compared)',
    'A-READER: the reader is the reference reader Model.C03.parse_file (tied to bnp.open(path).read() by model_ok on every case); '
    'the library reader itself is properties C01/C02',
    'lazy VCF sources: an unmodified lazily read table (variant lazy, Model fmt VcfL) is passed through as the canonical text '
    'it was read from (model = spec for that call; the lazy extraction itself is property C04); with a replaced POS '
    'column (variant lazypos) the model is from_data_lazy_pos = the eager serialiser (C03_vcf_pos_paths_agree)',
    'reread tables (Model fmt DelimL / VcfL): an unmodified lazily read table, however selected and concatenated, is passed '
    'through as the canonical text of the selected records in the selected order (model = spec for that call)',
    'SAM without optional tags: canonical (Spec ser_sam, Model sam_join_fields, both write paths since /repo 81bde1f) is the '
    'SAM-standard line without a TAB before the empty tags cell; the old eager spelling (trailing TAB) is still accepted by the '
    'reader (C03_sam_empty_tags_spellings) and is written by the harness into k_alt_file and read with bnp.open on every such case']
PARTIAL = ['C03_int_text_partial / C03_fasta_partial / C03_write_pieces_partial are about the code BEFORE the repairs (history); the '
           'code at /repo HEAD is covered without those guards by C03_int_text_fixed + C03_cell_text_current, C03_fasta_fixed, '
           'C03_write_pieces_head',
           'C03_from_data_canonical_partial: tables in table_ok (rectangular, FASTA: [name; sequence] rows, FASTQ: [name; seq; qual] rows; '
           'not VCFEntry with Union INFO: that variant is correspondence-only)',
           'read-back (C03_parse_serialise_*, C03_roundtrip_*): text cells without TAB/LF (FASTA: sequence without ">" and LF, name '
           'without LF; VCF: first cell not starting with "#")',
           'C03_model_ok_spec_ok*: float-free tables (spec_ok itself compares floats to 1e-12; no theorem about str_to_float)']
PER_FILE = 40
COQ_CORR = 'C03T'      # Corr/C03T.v: case = Plain (Corr/C03.v case) | Big (run-length case for big tables)

# column kinds: D identifier (SequenceID), S text, I int, L int list, F float, Q qualities, R rest of line
KINDS = {
    'bed3': 'DII', 'bed6': 'DIIDIS', 'bed12': 'DIIDISIISILL', 'bdg': 'DIIF', 'narrowpeak': 'DIIDISFFFI',
    'sam': 'DIDIISSIISSR', 'gtf': 'DSDIISSSS', 'vcf': 'DISSSSSS', 'fasta': 'DS', 'fastq': 'DSQ',
}
SUFFIX = {'bed3': '.bed', 'bed6': '.bed', 'bed12': '.bed', 'bdg': '.bdg', 'narrowpeak': '.narrowPeak', 'sam': '.sam',
          'gtf': '.gtf', 'vcf': '.vcf', 'fasta': '.fa', 'fastq': '.fq'}
VCF_DEFAULT_HEADER = '##fileformat=VCFv4.1\n' + '\t'.join('#CHROM POS ID REF ALT QUAL FILTER INFO FORMAT'.split()) + '\n'
VCF_SRC_HEADER = '##fileformat=VCFv4.2\n##source=c03\n#CHROM\tPOS\tID\tREF\tALT\tQUAL\tFILTER\tINFO\n'
IDCH = 'abcdefghijklmnopqrstuvwxyzABCDEFGHIJKLMNOPQRSTUVWXYZ0123456789_.:-|*=+'
I64MAX, I64MIN = 2 ** 63 - 1, -2 ** 63
ALPHABETS = {'ascii': 'ACGTNacgtnRYKM', 'dna': 'ACGT', 'acgtn': 'ACGTN', 'rna': 'ACGU', 'protein': 'ACDEFGHIKLMNPQRSTVWY'}


# ----------------------------------------------------------------------------- generator
def _edge_ints():
    out = [0, 1, 9, 10, 11, 99, 100, 101, 999, 1000, I64MAX, I64MAX - 1]
    for k in range(2, 19):
        out += [10 ** k - 1, 10 ** k, 10 ** k + 1]
    for k, s in ((15, 2), (16, 21), (17, 407), (18, 4031)):
        out += [10 ** k - s, 10 ** k - s - 1, 10 ** k - s + 1 if s > 1 else 10 ** k - 1]
    return out


EDGE = _edge_ints()


class G:
    def __init__(self, rng):
        self.r = rng

    def ident(self, lo=1, hi=8):
        n = self.r.choice([lo, lo, 1, 2, 3, hi, self.r.randint(lo, hi)])
        return ''.join(self.r.choice(IDCH) for _ in range(max(lo, n)))

    def coord(self, wide=0.08, neg=0.15):
        x = self.r.random()
        if x < wide:
            v = self.r.choice(EDGE)
        elif x < 0.6:
            v = self.r.randint(0, 1200)
        else:
            v = self.r.randint(0, 10 ** self.r.randint(1, 18))
        if self.r.random() < neg:
            v = -v
        return v

    def small(self):
        return self.r.choice([0, 0, 1, 5, 9, 10, 60, 99, 100, 255, 1000, self.r.randint(0, 70000)])

    def fl(self):
        x = self.r.random()
        if x < 0.12:
            return self.r.choice([0.0, -0.0])      # equal values with different text: 0.0 and -0.0
        if x < 0.25:
            return self.r.choice([0.0, 1.0, -1.0, 0.5, 1e-05, 2.5e-07, 1e+16, 1e+22, 123456789.125, 0.1, 100.0, -0.001])
        j = self.r.randint(0, 6)
        k = self.r.randint(-10 ** self.r.randint(1, 7), 10 ** self.r.randint(1, 7))
        return k / 10 ** j

    def opt(self, gen, p=0.3):
        return '.' if self.r.random() < p else gen()

    def seq(self, L, alpha):
        return ''.join(self.r.choice(ALPHABETS[alpha]) for _ in range(L))

    def row(self, fmt, alpha='ascii', width=80):
        r = self.r
        if fmt == 'bed3':
            return [self.ident(), self.coord(), self.coord()]
        if fmt == 'bed6':
            return [self.ident(), self.coord(), self.coord(), r.choice(['', '.', self.ident(), self.ident(1, 20)]),
                    self.small() * r.choice([1, 1, -1]), r.choice('+-.')]
        if fmt == 'bed12':
            nb = r.choice([1, 1, 2, 3, 5])
            return [self.ident(), self.coord(0.1, 0), self.coord(0.1, 0), self.ident(), self.small(), r.choice('+-.'),
                    self.coord(0.1, 0), self.coord(0.1, 0), r.choice(['0', '255,0,0', '0,0,255', '.']), nb,
                    [self.coord(0.2, 0.1) for _ in range(nb)], [self.small() for _ in range(nb)]]
        if fmt == 'bdg':
            return [self.ident(), self.coord(0.1, 0), self.coord(0.1, 0), self.fl()]
        if fmt == 'narrowpeak':
            return [self.ident(), self.coord(0.1, 0), self.coord(0.1, 0), self.opt(self.ident), self.small(), r.choice('+-.'),
                    self.fl(), self.fl(), self.fl(), r.choice([-1, 0, 5, self.small()])]
        if fmt == 'sam':
            L = r.choice([0, 1, 2, 5, 12])
            extra = r.choice(['', 'NM:i:0', 'NM:i:1\tXS:A:+', 'RG:Z:' + self.ident() + '\tAS:i:%d\tXX:Z:a b' % self.small()])
            return [self.ident(), r.choice([0, 4, 16, 99, 147, 2048]), self.opt(self.ident, 0.1).replace('.', '*'),
                    self.coord(0.1, 0), r.choice([0, 1, 30, 60, 255]), r.choice(['*', '%dM' % max(L, 1), '3M1I2D4M', '5S7M']),
                    r.choice(['*', '=', self.ident()]), self.coord(0.1, 0), self.coord(0.1, 0.4),
                    self.seq(L, 'acgtn') or '*', ''.join(chr(33 + r.randint(0, 60)) for _ in range(L)) or '*', extra]
        if fmt == 'gtf':
            return [self.ident(), self.opt(self.ident), r.choice(['gene', 'exon', 'transcript', 'CDS', self.ident()]),
                    self.coord(0.1, 0), self.coord(0.1, 0), r.choice(['.', '0.5', '100', '1e-5']), r.choice('+-.'),
                    r.choice(['.', '0', '1', '2']),
                    r.choice(['', '.', 'gene_id "g%d";' % self.small(), 'gene_id "g1"; transcript_id "t 1"; exon_number 3;'])]
        if fmt == 'vcf':
            # POS is stored 0-based and written +1: the largest representable stored value is 2^63 - 2
            return [self.ident(), min(self.coord(0.15, 0), I64MAX - 1), self.opt(lambda: 'rs%d' % self.small()),
                    self.seq(r.choice([1, 1, 2, 5]), 'acgtn'), r.choice(['.', 'A', 'T,G', '<DEL>', self.seq(3, 'dna')]),
                    r.choice(['.', '50', '29.5', '0']), r.choice(['.', 'PASS', 'q10;s50']),
                    r.choice(['.', 'DP=3', 'AF=0.5;DB', 'NS=3;DP=14;AF=0.5;DB;H2'])]
        if fmt == 'fasta':
            w = width
            L = r.choice([0, 1, 2, w - 1, w, w + 1, 2 * w - 1, 2 * w, 2 * w + 1, 3 * w, r.randint(0, 3 * w + 2)])
            nm = r.choice(['', self.ident(), self.ident(), self.ident() + ' some description', 'x' * max(w - 1, 0),
                           'y' * max(w - 2, 0), 'z' * w])
            return [nm, self.seq(max(L, 0), alpha)]
        if fmt == 'fastq':
            L = r.choice([0, 1, 1, 2, 3, 10, 79, 80, 81, r.randint(0, 30)])
            return [r.choice(['', self.ident(), self.ident() + ' 1:N:0']), self.seq(L, alpha),
                    [r.choice([0, 1, 2, 30, 40, 41, 60, 93, r.randint(0, 93)]) for _ in range(L)]]
        raise ValueError(fmt)


def compositions(n, allow_zero_extra=0):
    """all ways of cutting n rows into consecutive non-empty pieces: 2^(n-1) of them (n=0: one empty piece)."""
    if n == 0:
        return [[0]]
    out = []
    for mask in range(2 ** (n - 1)):
        sizes, cur = [], 1
        for i in range(n - 1):
            if mask >> i & 1:
                sizes.append(cur)
                cur = 1
            else:
                cur += 1
        sizes.append(cur)
        out.append(sizes)
    return out


def _hist(kind, sizes, rng):
    """turn a list of piece sizes into a history.  kind: calls | stream | mixed | w+a | a | w+a+a | a-stream"""
    def calls(szs, stream=False):
        if stream:
            return [dict(stream=True, sizes=list(szs))]
        return [dict(stream=False, sizes=[s]) for s in szs]
    if kind == 'calls':
        return [dict(append=False, calls=calls(sizes))]
    if kind == 'stream':
        return [dict(append=False, calls=calls(sizes, True))]
    if kind == 'mixed':
        k = rng.randint(0, len(sizes))
        j = rng.randint(k, len(sizes))
        return [dict(append=False, calls=calls(sizes[:k]) + calls(sizes[k:j], True) + calls(sizes[j:]))]
    if kind == 'a':
        return [dict(append=True, calls=calls(sizes))]
    if kind == 'a-stream':
        return [dict(append=True, calls=calls(sizes, True))]
    if kind == 'w+a':
        k = rng.randint(1, len(sizes))
        return [dict(append=False, calls=calls(sizes[:k])), dict(append=True, calls=calls(sizes[k:], rng.random() < 0.3))]
    if kind == 'w+a+a':
        k = rng.randint(1, len(sizes))
        j = rng.randint(k, len(sizes))
        return [dict(append=False, calls=calls(sizes[:k])), dict(append=True, calls=calls(sizes[k:j])),
                dict(append=True, calls=calls(sizes[j:]))]
    raise ValueError(kind)


HKINDS = ['calls', 'stream', 'mixed', 'w+a', 'a', 'w+a+a', 'a-stream']


def _mk(fmt, rows, hist, gz=False, variant='', alpha='ascii', width=80, wbt=False, dtypes=None):
    """dtypes: {str(column index): numpy dtype name} for int / float columns held in a non-default dtype"""
    return dict(fmt=fmt, rows=rows, hist=hist, gz=gz, variant=variant, alpha=alpha, width=width, wbt=wbt,
                dtypes=dict(dtypes or {}))


def _with_zeros(sizes, rng, p=0.3):
    out = []
    for s in sizes:
        if rng.random() < p:
            out.append(0)
        out.append(s)
    if rng.random() < p:
        out.append(0)
    return out


def generate(tier, seed):
    rng = random.Random(seed * 1000003 + 303)
    g = G(rng)
    cases = []
    thorough = tier != 'quick'
    fmts = list(KINDS)

    def variant_of(fmt):
        if fmt == 'vcf':
            return rng.choice(['str', 'str', 'lazy', 'lazypos', 'lazypos', 'union'])
        return ''

    def alpha_of(fmt):
        if fmt in ('fasta', 'fastq'):
            return rng.choice(list(ALPHABETS))
        return 'ascii'

    # (1) every format, n = 0..3(4) rows, every composition, round-robin over history kinds / gzip
    nmax = 4 if thorough else 3
    reps = 3 if thorough else 1
    k = 0
    for fmt in fmts:
        for n in range(0, nmax + 1):
            for sizes in compositions(n):
                for _ in range(reps):
                    for hk in (HKINDS if (thorough or n <= 2) else [HKINDS[k % len(HKINDS)], HKINDS[(k + 3) % len(HKINDS)]]):
                        k += 1
                        alpha = alpha_of(fmt)
                        width = rng.choice([80, 80, 1, 2, 3, 4, 5]) if fmt == 'fasta' else 80
                        rows = [g.row(fmt, alpha, width) for _ in range(n)]
                        szs = _with_zeros(sizes, rng, 0.2) if n else sizes
                        cases.append(_mk(fmt, rows, _hist(hk, szs, rng), gz=(k % 3 == 0), variant=variant_of(fmt),
                                         alpha=alpha, width=width, wbt=(k % 2 == 0)))
    # (2) integer cells at every edge value (both signs), bed3, two values per table so widths differ
    ev = EDGE + [-v for v in EDGE] + [I64MIN, I64MIN + 1]
    for i, v in enumerate(ev):
        other = rng.choice(ev)
        rows = [['c', v, other], ['chr2', rng.randint(0, 99), v]]
        cases.append(_mk('bed3', rows, _hist(HKINDS[i % 2], [1, 1], rng), gz=(i % 5 == 0)))
    for i in range(40 if not thorough else 400):
        rows = [['c%d' % j, rng.choice(ev), [rng.choice(ev) for _ in range(rng.randint(1, 3))]] for j in range(rng.randint(1, 3))]
        # Bed12 carries List[int] columns: edge values inside lists
        rows12 = [[r[0], 0, 1, 'n', 0, '+', r[1], 2, '0', len(r[2]), r[2], list(reversed(r[2]))] for r in rows]
        cases.append(_mk('bed12', rows12, _hist('calls', [len(rows12)], rng)))
    # (3) FASTA wrap grid: every length 0..2w+2 at small widths, and the lengths around multiples of 80
    for w in ([1, 2, 3, 4] if not thorough else [1, 2, 3, 4, 5, 7]):
        for L in range(0, 2 * w + 3):
            alpha = alpha_of('fasta')
            rows = [['s', g.seq(L, alpha)], [rng.choice(['t', 'x' * (w - 1), 'tt']), g.seq(rng.choice([1, w, w + 1]), alpha)]]
            if L % 2:
                rows.reverse()
            cases.append(_mk('fasta', rows, _hist(HKINDS[L % 3], [1, 1] if L % 4 else [2], rng), width=w, alpha=alpha, gz=(L % 5 == 0)))
    for L in [0, 1, 79, 80, 81, 159, 160, 161, 239, 240, 241]:
        for alpha in (['ascii', 'dna'] if not thorough else list(ALPHABETS)):
            rows = [[g.ident(), g.seq(L, alpha)], [g.ident(), g.seq(rng.choice([1, 80, 81, 160]), alpha)]]
            cases.append(_mk('fasta', rows, _hist(rng.choice(HKINDS), [1, 1], rng), alpha=alpha))
    # the corner where an empty sequence does not trip the shape assertion: name length = width - 1
    for w in (2, 3, 5, 80):
        cases.append(_mk('fasta', [['n' * (w - 1), ''], ['q', 'ACGT']], _hist('calls', [2], rng), width=w))
        cases.append(_mk('fasta', [['q', 'ACGT'], ['n' * (w - 1), '']], _hist('calls', [1, 1], rng), width=w))
    # (4) larger random tables, random cut points, all history kinds
    n_big = 300 if not thorough else 6000
    for i in range(n_big):
        fmt = fmts[i % len(fmts)]
        n = rng.choice([2, 3, 4, 5, 6, 8, 12])
        alpha = alpha_of(fmt)
        width = rng.choice([80, 80, 80, 2, 3, 7]) if fmt == 'fasta' else 80
        rows = [g.row(fmt, alpha, width) for _ in range(n)]
        if n <= 6 and rng.random() < 0.5:
            sizes = rng.choice(compositions(n))
        else:
            cuts = sorted(rng.sample(range(1, n), rng.randint(0, min(4, n - 1))))
            sizes = [b - a for a, b in zip([0] + cuts, cuts + [n])]
        cases.append(_mk(fmt, rows, _hist(rng.choice(HKINDS), _with_zeros(sizes, rng, 0.15), rng), gz=(rng.random() < 0.3),
                         variant=variant_of(fmt), alpha=alpha, width=width, wbt=(rng.random() < 0.5)))
    # (6) float columns holding values that compare equal but print differently (0.0 / -0.0), several rows in mixed
    #     order, every way of splitting them over write calls
    zvals = [0.0, -0.0, 0.0, -0.0, 1.5, -2.25, 0.5]
    for fmt in ('bdg', 'narrowpeak'):
        for n in ((2, 3, 4) if not thorough else (2, 3, 4, 5)):
            comps = compositions(n)
            for ci, sizes in enumerate(comps):
                for rep_ in range(2 if not thorough else 4):
                    rows = [g.row(fmt) for _ in range(n)]
                    fcols = [j for j, kk in enumerate(KINDS[fmt]) if kk == 'F']
                    for j in fcols:
                        vals = [rng.choice(zvals) for _ in range(n)]
                        a, b = rng.sample(range(n), 2)
                        vals[a], vals[b] = 0.0, -0.0          # both zeros in the column
                        for r, v in zip(rows, vals):
                            r[j] = v
                    hk = HKINDS[(ci + rep_ + n) % len(HKINDS)]
                    cases.append(_mk(fmt, rows, _hist(hk, _with_zeros(sizes, rng, 0.1), rng), gz=((ci + rep_) % 3 == 0)))
    # (7) tables that were READ back (lazily, the default) from a canonical file, then sliced / masked / re-ordered and
    #     np.concatenate'd before being written: the file must hold exactly the selected rows, once
    n_rr = 140 if not thorough else 1500
    rr_fmts = ['bed3', 'bed6', 'bed12', 'bdg', 'narrowpeak', 'gtf', 'vcf']
    for i in range(n_rr):
        fmt = rr_fmts[i % len(rr_fmts)]
        m = rng.choice([2, 3, 4, 5, 6, 8])
        src_rows = [g.row(fmt) for _ in range(m)]
        if i % 9 == 4:                           # an identifier column that is empty in every source row
            for r in src_rows:
                for j, kk in enumerate(KINDS[fmt]):
                    if kk == 'D' and j > 0:
                        r[j] = ''
        sel = []                                 # list of chunks, each a list of source row numbers
        for _ in range(rng.choice([1, 2, 2, 3, 4])):
            kind = rng.choice(['slice', 'slice', 'mask', 'perm', 'empty'])
            if kind == 'slice':
                a = rng.randint(0, m - 1)
                b = rng.randint(a + 1, m)
                sel.append(list(range(a, b)))
            elif kind == 'mask':
                sel.append(sorted(rng.sample(range(m), rng.randint(1, m))))
            elif kind == 'perm':
                sel.append(rng.sample(range(m), rng.randint(1, m)))
            else:
                sel.append([])
        if i % 5 == 0:                           # the split-and-rejoin of the whole table
            cuts = sorted(rng.sample(range(1, m), min(m - 1, rng.randint(1, 3))))
            sel = [list(range(a, b)) for a, b in zip([0] + cuts, cuts + [m])]
        src_index = [x for ch in sel for x in ch]
        rows = [src_rows[x] for x in src_index]
        sizes = [len(ch) for ch in sel]
        mode = i % 4
        if mode == 0:                            # everything concatenated, one write
            calls = [dict(stream=False, sizes=sizes, concat=True)]
        elif mode == 1:                          # piece by piece
            calls = [dict(stream=False, sizes=[sz]) for sz in sizes]
        elif mode == 2:                          # a stream of the pieces
            calls = [dict(stream=True, sizes=sizes)]
        else:                                    # first piece alone, the rest concatenated
            calls = [dict(stream=False, sizes=sizes[:1])] + ([dict(stream=False, sizes=sizes[1:], concat=True)] if sizes[1:] else [])
        hist = [dict(append=False, calls=calls)]
        if i % 7 == 3 and len(calls) > 1:
            hist = [dict(append=False, calls=calls[:1]), dict(append=True, calls=calls[1:])]
        c = _mk(fmt, rows, hist, gz=(i % 3 == 1), variant='reread', wbt=(i % 2 == 0))
        c['src_rows'] = src_rows
        c['src_index'] = src_index
        cases.append(c)
    # (8) identifier (SequenceID) columns that are empty in EVERY row must round-trip (repaired in /repo 58b75b9)
    for i in range(24 if not thorough else 120):
        fmt = ['bed6', 'bed6', 'bed3', 'narrowpeak', 'bed12', 'fasta', 'fastq', 'gtf'][i % 8]
        n = rng.choice([1, 2, 3, 4])
        alpha = alpha_of(fmt)
        rows = [g.row(fmt, alpha, 80) for _ in range(n)]
        dcols = [j for j, kk in enumerate(KINDS[fmt]) if kk == 'D']
        which = dcols if i % 3 == 0 else [dcols[-1]]          # all identifier columns / the last one (BED name)
        for r in rows:
            for j in which:
                r[j] = ''
        if fmt == 'fasta':
            for r in rows:
                r[1] = r[1] or 'ACGT'
        sizes = rng.choice(compositions(n))
        cases.append(_mk(fmt, rows, _hist(HKINDS[i % len(HKINDS)], sizes, rng), gz=(i % 3 == 0), alpha=alpha, wbt=(i % 2 == 0)))
    # (9) int / float columns held in every dtype the table classes keep: values at both limits of the dtype, 0, -1/1.
    #     The written text is the decimal spelling of the mathematical value whatever the dtype.
    #     (uint64 values are kept within the int64 range the reader returns; a VCF POS column stays below its dtype's
    #     maximum because the file holds POS+1.)
    import numpy as np
    INT_DT = ['int8', 'int16', 'int32', 'int64', 'uint8', 'uint16', 'uint32', 'uint64']

    def ipool(dt, cap_max=False):
        ii = np.iinfo(dt)
        hi = min(int(ii.max), I64MAX) - (1 if cap_max else 0)
        lo = int(ii.min)
        pool = [lo, hi, 0, (-1 if lo < 0 else 1), lo + 1 if lo < 0 else 2, hi - 1]
        return lo, hi, pool

    def ival(dt, cap_max=False):
        lo, hi, pool = ipool(dt, cap_max)
        return rng.choice(pool) if rng.random() < 0.7 else rng.randint(max(lo, -10 ** 6), min(hi, 10 ** 6))

    def f32(v):
        return float(np.float32(v))

    k9 = 0
    for dt in INT_DT:
        lo, hi, pool = ipool(dt)
        for n in ((1, 2, 4) if not thorough else (1, 2, 3, 4, 6)):
            for rep_ in range(2 if not thorough else 6):
                k9 += 1
                # bed3: both coordinate columns in that dtype, the limits always present
                rows = [[g.ident(), ival(dt), ival(dt)] for _ in range(n)]
                rows[0][1] = lo
                rows[-1][2] = hi
                if n > 1:
                    rows[1][1] = hi
                    rows[0][2] = lo
                sizes = rng.choice(compositions(n))
                cases.append(_mk('bed3', rows, _hist(HKINDS[k9 % len(HKINDS)], _with_zeros(sizes, rng, 0.1), rng), gz=(k9 % 3 == 0),
                                 dtypes={'1': dt, '2': dt}))
        # other tables: one int column in that dtype (Bed6 score, NarrowPeak summit, SAM flag / position / mapq, VCF POS)
        for fmt, col, cap in (('bed6', 4, False), ('narrowpeak', 9, False), ('sam', 3, False), ('sam', 4, False), ('vcf', 1, True)):
            if fmt == 'vcf' and np.iinfo(dt).min < 0:
                pass
            k9 += 1
            n = rng.choice([1, 2, 3])
            rows = [g.row(fmt) for _ in range(n)]
            lo2, hi2, pool2 = ipool(dt, cap)
            vals = [lo2, hi2, 0][:n] if rng.random() < 0.5 else [rng.choice(pool2) for _ in range(n)]
            if fmt == 'vcf':
                vals = [max(v, 0) for v in vals]
            for r, v in zip(rows, vals):
                r[col] = v
            dts = {str(col): dt}
            if fmt == 'narrowpeak' and k9 % 2 == 0:                   # float32 score columns next to it
                for j in (6, 7, 8):
                    dts[str(j)] = 'float32'
                    for r in rows:
                        r[j] = f32(r[j])
            cases.append(_mk(fmt, rows, _hist(HKINDS[k9 % len(HKINDS)], rng.choice(compositions(n)), rng), gz=(k9 % 4 == 0),
                             variant=('str' if fmt == 'vcf' else ''), dtypes=dts))
    # float32 value columns (BedGraph, NarrowPeak): the text is the float32 spelling, the signed zeros included
    for i in range(16 if not thorough else 120):
        fmt = ('bdg', 'narrowpeak')[i % 2]
        n = rng.choice([1, 2, 3, 4])
        rows = [g.row(fmt) for _ in range(n)]
        dts = {}
        for j, kk in enumerate(KINDS[fmt]):
            if kk == 'F':
                dts[str(j)] = 'float32'
                for r in rows:
                    r[j] = f32(rng.choice([r[j], 0.1, -0.0, 0.0, 1e-05, 16777217.0, 3.4e+38, 1.5, -2.25e-07]))
        cases.append(_mk(fmt, rows, _hist(HKINDS[i % len(HKINDS)], rng.choice(compositions(n)), rng), gz=(i % 3 == 0), dtypes=dts))
    # (5) exhaustive small scope (thorough): bed3 / bed6, n <= 3, field alphabet of 4 symbols, width <= 3, all compositions
    if thorough:
        sym = ['', 'a', 'bc', 'def']
        ints = [0, 9, 10, -1]
        for n in (1, 2, 3):
            for names in itertools.product(sym[1:], repeat=n):
                for vals in itertools.product(ints, repeat=n):
                    rows = [[names[j], vals[j], vals[(j + 1) % n]] for j in range(n)]
                    for sizes in compositions(n):
                        cases.append(_mk('bed3', rows, _hist('calls', sizes, rng)))
    cases += _gen_big(thorough, rng, g)
    return cases


def search(tier, seed, disagreeing):
    return generate('quick', seed + 1)[:1500]


# ----------------------------------------------------------------------------- implementation runner
def _rows_for_session(case):
    """cut case['rows'] along the history; returns list of sessions -> list of calls -> list of chunks (row lists)"""
    rows = case['rows']
    pos = 0
    out = []
    for s in case['hist']:
        cs = []
        for c in s['calls']:
            chunks = []
            for sz in c['sizes']:
                chunks.append(rows[pos:pos + sz])
                pos += sz
            if c.get('concat'):      # np.concatenate of the pieces, written by ONE write call
                chunks = [[r for ch in chunks for r in ch]]
            cs.append(chunks)
        out.append(cs)
    assert pos == len(rows), (pos, len(rows))
    return out


def _ser_reference(case, rows):
    """harness-side text of a canonical VCF source file (for the lazy variants)"""
    out = ''
    for r in rows:
        out += '\t'.join([r[0], str(r[1] + 1)] + r[2:]) + '\n'
    return out


def observe(case):
    if case.get('big'):
        return _observe_big(case)
    import dataclasses
    import numpy as np
    import bionumpy as bnp
    from bionumpy import datatypes as dt
    from bionumpy.io import delimited_buffers as db
    from bionumpy.io.multiline_buffer import MultiLineFastaBuffer
    from bionumpy.streams import NpDataclassStream
    fmt, rows, variant = case['fmt'], case['rows'], case['variant']
    kinds = KINDS[fmt]
    d = tempfile.mkdtemp(prefix='c03_')
    try:
        cls = {'bed3': dt.Interval, 'bed6': dt.Bed6, 'bed12': dt.Bed12, 'bdg': dt.BedGraph, 'narrowpeak': dt.NarrowPeak,
               'sam': dt.SAMEntry, 'gtf': dt.GTFEntry, 'vcf': dt.VCFWithInfoAsStringEntry, 'fasta': dt.SequenceEntry,
               'fastq': dt.SequenceEntryWithQuality}[fmt]
        if fmt == 'vcf' and variant == 'union':
            cls = dt.VCFEntry
        wbt = None
        rbt = None
        if fmt == 'bed6':
            rbt = db.Bed6Buffer
        if fmt == 'bed12':
            rbt = db.Bed12Buffer
        if case['wbt']:
            wbt = rbt
        if fmt == 'fasta' and case['width'] != 80:
            class Narrow(MultiLineFastaBuffer):
                n_characters_per_line = case['width']
            wbt = Narrow

        def table(rs):
            if fmt == 'fastq':
                tups = [(r[0], r[1], ''.join(chr(q + 33) for q in r[2])) for r in rs]
            else:
                tups = [tuple(r) for r in rs]
            t = cls.from_entry_tuples(tups)
            for j, dt in sorted(case.get('dtypes', {}).items()):      # columns held in a non-default dtype
                name = dataclasses.fields(cls)[int(j)].name
                t = dataclasses.replace(t, **{name: np.array([r[int(j)] for r in rs], dtype=dt)})
                assert getattr(t, name).dtype == np.dtype(dt), ('the table did not keep the dtype', name, dt)
            if fmt in ('fasta', 'fastq') and case['alpha'] != 'ascii':
                enc = {'dna': bnp.DNAEncoding, 'acgtn': bnp.encodings.alphabet_encoding.ACGTnEncoding,
                       'rna': bnp.encodings.alphabet_encoding.RNAENcoding,
                       'protein': bnp.encodings.alphabet_encoding.AminoAcidEncoding}[case['alpha']]
                t = dataclasses.replace(t, sequence=bnp.as_encoded_array(t.sequence, enc))
            return t
        if not rows:
            dummy = {'bed3': ['c', 0, 1], 'bed6': ['c', 0, 1, 'n', 0, '+'],
                     'bed12': ['c', 0, 1, 'n', 0, '+', 0, 1, '0', 1, [1], [0]], 'bdg': ['c', 0, 1, 0.5],
                     'narrowpeak': ['c', 0, 1, 'n', 0, '+', 1.0, 1.0, 1.0, 0],
                     'sam': ['r', 0, 'c', 0, 0, '*', '*', 0, 0, 'A', '!', ''],
                     'gtf': ['c', 's', 'gene', 1, 2, '.', '+', '.', '.'], 'vcf': ['c', 0, '.', 'A', 'T', '.', '.', '.'],
                     'fasta': ['n', 'A'], 'fastq': ['n', 'A', [0]]}[fmt]
            full = None
            base = [dummy]
        else:
            base = rows
        if fmt == 'vcf' and variant in ('lazy', 'lazypos'):
            src = os.path.join(d, 'src.vcf')
            srows = [list(r) for r in base]
            if variant == 'lazypos':
                for j, r in enumerate(srows):
                    r[1] = (r[1] * 7 + 3 + j) % 1000
            with open(src, 'w') as f:
                f.write(VCF_SRC_HEADER + _ser_reference(case, srows))
            full = bnp.open(src).read()
            if variant == 'lazypos':
                full = bnp.replace(full, position=np.array([r[1] for r in base], dtype=int))
        elif variant == 'reread':
            # the pieces are selections of a table that was READ (lazily, the default) from a canonical file
            src = os.path.join(d, 'src' + SUFFIX[fmt])
            with open(src, 'wb') as f:
                f.write(_header(case) + _ref_chunk(case, case['src_rows'], set())[1].encode('latin1'))
            back = bnp.open(src, buffer_type=rbt).read()
            assert len(back) == len(case['src_rows'])
            full = _Selector(back, case['src_index'], len(case['src_rows']))
        else:
            full = table(base)
        if not rows and variant != 'reread':
            full = full[:0]
        path = os.path.join(d, 'out' + SUFFIX[fmt] + ('.gz' if case['gz'] else ''))
        pos = 0
        err, errtype = 0, ''
        try:
            for s in case['hist']:
                with bnp.open(path, 'a' if s['append'] else 'w', buffer_type=wbt) as f:
                    for c in s['calls']:
                        chunks = []
                        for sz in c['sizes']:
                            chunks.append(full[pos:pos + sz])
                            pos += sz
                        if c.get('concat'):
                            nonempty = [ch for ch in chunks if len(ch)]
                            f.write(np.concatenate(nonempty) if nonempty else chunks[0])
                        elif c['stream']:
                            f.write(NpDataclassStream(iter(chunks)))
                        else:
                            f.write(chunks[0])
        except Exception as e:
            errtype = type(e).__name__
            err = {'AssertionError': 1, 'KeyError': 2}.get(errtype, 9)
            errtype += ': ' + str(e)[:120]
        # writing must not change the caller's table (e.g. the VCF POS+1 applied in place to a shared array)
        if err == 0 and rows and variant in ('', 'str') and case['alpha'] == 'ascii':
            try:
                if not _rows_match(case, rows, _table_rows(full, cls, kinds)):
                    err, errtype = 8, 'InputMutated: the table handed to write() differs from what it was before the write'
            except Exception as e:
                err, errtype = 8, 'InputMutated: cannot re-read the written table: %s' % type(e).__name__
        if os.path.exists(path):
            raw = open(path, 'rb').read()
            try:
                written = gzip.decompress(raw) if case['gz'] and raw else raw
            except Exception as e:
                written = b'\xff' + raw[:50]
        else:
            written = b''
        out = dict(err=err, errtype=errtype, written=written.hex(), read_ok=False, read=[], read_err='')
        if err == 0:
            try:
                r = bnp.open(path, buffer_type=rbt).read()
                out['read'] = _table_rows(r, cls, kinds)
                out['read_ok'] = True
            except Exception as e:
                import traceback
                out['read_err'] = '%s: %s | %s' % (type(e).__name__, str(e)[:160], traceback.format_exc(limit=-2)[-300:])
        # the OLD eager spelling of the same table (12 columns: a TAB before absent optional tags) must still read back equal
        if fmt == 'sam' and err == 0 and rows and any(r[-1] == '' for r in rows):
            alt = b''.join(('\t'.join(_cell_text(k, v, False) for k, v in zip(kinds, r)) + '\n').encode('latin1') for r in rows)
            apath = os.path.join(d, 'alt.sam')
            open(apath, 'wb').write(alt)
            out['alt'] = alt.hex()
            out['alt_read_ok'] = False
            out['alt_read'] = []
            try:
                out['alt_read'] = _table_rows(bnp.open(apath).read(), cls, kinds)
                out['alt_read_ok'] = True
            except Exception as e:
                out['alt_err'] = '%s: %s' % (type(e).__name__, str(e)[:160])
        return out
    finally:
        shutil.rmtree(d, ignore_errors=True)


class _Selector:
    """full[pos:pos+sz] for a re-read table: rows pos..pos+sz of the case are rows src_index[pos..] of the table read
    from the source file, taken as a slice when they are consecutive, a boolean mask when increasing, else an index array"""

    def __init__(self, back, src_index, n_src):
        self.back, self.idx, self.n = back, src_index, n_src

    def __getitem__(self, sl):
        import numpy as np
        idx = self.idx[sl]
        if not idx:
            return self.back[0:0]
        if idx == list(range(idx[0], idx[0] + len(idx))):
            return self.back[idx[0]:idx[0] + len(idx)]
        if all(a < b for a, b in zip(idx, idx[1:])):
            m = np.zeros(self.n, dtype=bool)
            m[idx] = True
            return self.back[m]
        return self.back[np.array(idx)]


def _table_rows(r, cls, kinds):
    """a table read by bionumpy as canonical JSON rows"""
    import dataclasses
    import numpy as np
    cols = []
    for fld, k in zip(dataclasses.fields(cls), kinds):
        v = getattr(r, fld.name)
        if k in 'DSR':
            col = [x.encode('latin1').hex() for x in _texts(v)]
        elif k == 'I':
            col = [int(x) for x in np.asarray(v).tolist()]
        elif k in 'LQ':
            col = [[int(y) for y in x] for x in v.tolist()]
        elif k == 'F':
            col = []
            for x in np.asarray(v, dtype=float).tolist():
                if x != x or x in (float('inf'), float('-inf')):
                    col.append([0, 0])
                else:
                    col.append(list(float(x).as_integer_ratio()))
        cols.append(col)
    n = len(cols[0]) if cols else 0
    assert all(len(c) == n for c in cols), [len(c) for c in cols]
    return [[c[i] for c in cols] for i in range(n)]


def _texts(v):
    """a text column as a list of str (EncodedRaggedArray, EncodedArray of single characters, StringArray)"""
    if len(v) == 0:
        return []
    out = v.tolist()
    if isinstance(out, str):
        out = list(out)
    return [x if isinstance(x, str) else str(x) for x in out]


# ----------------------------------------------------------------------------- Coq emitter
def _float_text(v, dt=None):
    """the opaque printer: str() of the element as the column array holds it"""
    if dt == 'float32':
        import numpy as np
        return str(np.float32(v))
    return str(float(v))


def _fld(k, v, read=False, dt=None):
    if k in 'DSR':
        return 'FS %s' % (hx(bytes.fromhex(v)) if read else hx(v.encode('latin1')))
    if k == 'I':
        return 'FI %s' % cz(v)
    if k == 'L':
        return 'FL %s' % zl(v)
    if k == 'Q':
        return 'FQ %s' % zl(v)
    if k == 'F':
        if read:
            return 'FF (@nil Z) %s %s' % (cz(v[0]), cz(v[1]))
        txt = _float_text(v, dt)
        n, dd = float(txt).as_integer_ratio()          # the value as printed (equal to v for float64 columns)
        return 'FF %s %s %s' % (hx(txt.encode()), cz(n), cz(dd))
    raise ValueError(k)


def _row(kinds, r, read=False, dts=None):
    dts = dts or {}
    return clist([_fld(k, v, read, dts.get(str(j))) for j, (k, v) in enumerate(zip(kinds, r))], 'fld')


def _fmt_term(case):
    fmt = case['fmt']
    if fmt == 'fasta':
        return '(Fasta %s)' % cz(case['width'])
    if fmt == 'fastq':
        return 'Fastq'
    if fmt == 'vcf':
        return {'union': 'VcfU', 'lazy': 'VcfL', 'reread': 'VcfL'}.get(case['variant'], 'Vcf')
    if fmt == 'sam':
        return 'Sam'
    return 'DelimL' if case['variant'] == 'reread' else 'Delim'


def _header(case):
    if case['fmt'] != 'vcf':
        return b''
    if case['variant'] in ('lazy', 'lazypos', 'reread'):
        return VCF_SRC_HEADER.encode()
    return VCF_DEFAULT_HEADER.encode()


KCODE = {'S': 0, 'I': 1, 'L': 2, 'F': 3, 'Q': 4, 'R': 5, 'D': 6}


def to_coq(case, o):
    if case.get('big'):
        return _to_coq_big(case, o)
    return '(Plain %s)' % _to_coq_plain(case, o)


def _to_coq_plain(case, o):
    kinds = KINDS[case['fmt']]
    sess = []
    for s, cs in zip(case['hist'], _rows_for_session(case)):
        calls = []
        for c, chunks in zip(s['calls'], cs):
            calls.append('{| c_stream := %s; c_chunks := %s |}' % (
                cbool(c['stream'] and not c.get('concat')), clist([clist([_row(kinds, r, False, case.get('dtypes')) for r in ch], 'row') for ch in chunks], '(list row)')))
        sess.append('{| s_append := %s; s_calls := %s |}' % (cbool(s['append']), clist(calls, 'call')))
    read = clist([_row(kinds, r, True) for r in o['read']], 'row') if o['read_ok'] else '(@nil row)'
    return ('{| k_fmt := %s; k_schema := %s; k_header := %s; k_gz := %s; k_hist := %s; k_err := %s; k_written := %s; '
            'k_read_ok := %s; k_read := %s; k_alt_file := %s; k_alt_read_ok := %s; k_alt_read := %s |}' % (
                _fmt_term(case), zl([KCODE[k] for k in kinds]), hx(_header(case)), cbool(case['gz']), clist(sess, 'session'),
                cz(o['err']), hx(bytes.fromhex(o['written'])), cbool(o['read_ok']), read,
                hx(bytes.fromhex(o.get('alt', ''))), cbool(o.get('alt_read_ok', False)),
                clist([_row(kinds, r, True) for r in o.get('alt_read', [])], 'row') if o.get('alt_read_ok') else '(@nil row)'))


# ----------------------------------------------------------------------------- evidence helpers
def _cell_width(k, v):
    if k in 'DSR':
        return len(v)
    if k == 'I':
        return len(str(v))
    if k in 'LQ':
        return len(v) * 100 + sum(len(str(x)) for x in v)
    return len(str(v))


def _n_pieces(case):
    return sum(1 for s in case['hist'] for c in s['calls'] for sz in c['sizes'] if sz > 0)


def _edge_int(case):
    for r in case['rows']:
        for k, v in zip(KINDS[case['fmt']], r):
            vs = [v] if k == 'I' else (v if k == 'L' else [])
            for x in vs:
                a = abs(x)
                if a >= 10 ** 15 - 5000 or (a >= 9 and (str(a).strip('9') == '' or str(a).strip('0') == '1')):
                    return True
    return False


def nontrivial(case, o):
    if case.get('big'):
        return True
    rows = case['rows']
    kinds = KINDS[case['fmt']]
    if _edge_int(case):
        return True
    if _n_pieces(case) < 2 or len(rows) < 2:
        return False
    if case['fmt'] == 'fasta' and any(len(r[1]) > case['width'] for r in rows):
        return True
    for j, k in enumerate(kinds):
        if len(set(_cell_width(k, r[j]) for r in rows)) > 1:
            return True
    return False


def describe(case, o):
    if case.get('big'):
        return _describe_big(case, o)
    return dict(fmt=case['fmt'], variant=case['variant'], gz=case['gz'], width=case['width'], alphabet=case['alpha'],
                rows=case['rows'][:3], n_rows=len(case['rows']), history=case['hist'], err=o.get('errtype') or 0,
                written=bytes.fromhex(o.get('written', ''))[:200].decode('latin1'), read_ok=o.get('read_ok'),
                read_err=o.get('read_err'))


def explain(case, o):
    return describe(case, o)


def distribution(cases, obs):
    d = dict(fmt={}, variant={}, rows={}, pieces={}, gz=0, append_sessions=0, stream_calls=0, empty_pieces=0, edge_ints=0,
             errors={}, read_failures=0, fasta_widths={}, alphabets={}, sam_old_spelling_reads=0, reread_tables=0, concat_calls=0, signed_zero_columns=0, column_dtypes={})
    for c, o in zip(cases, obs):
        def inc(m, k):
            m[str(k)] = m.get(str(k), 0) + 1
        inc(d['fmt'], c['fmt'])
        if c.get('big'):
            inc(d.setdefault('big_call_rows', {}), max(_big_call_sizes(c)))
        if c['variant']:
            inc(d['variant'], c['variant'])
        inc(d['rows'], min(len(c['rows']), 8))
        inc(d['pieces'], min(_n_pieces(c), 8))
        d['gz'] += c['gz']
        d['append_sessions'] += sum(1 for s in c['hist'] if s['append'])
        d['stream_calls'] += sum(1 for s in c['hist'] for cc in s['calls'] if cc['stream'])
        d['empty_pieces'] += sum(1 for s in c['hist'] for cc in s['calls'] for sz in cc['sizes'] if sz == 0)
        d['edge_ints'] += _edge_int(c)
        if c['fmt'] == 'fasta':
            inc(d['fasta_widths'], c['width'])
        if c['fmt'] in ('fasta', 'fastq'):
            inc(d['alphabets'], c['alpha'])
        if isinstance(o, dict) and o.get('err'):
            inc(d['errors'], o['errtype'].split(':')[0])
        if isinstance(o, dict) and not o.get('err') and not o.get('read_ok'):
            d['read_failures'] += 1
        if isinstance(o, dict) and 'alt' in o:
            d['sam_old_spelling_reads'] += 1
        for dt_ in set(c.get('dtypes', {}).values()):
            inc(d['column_dtypes'], dt_)
        d['reread_tables'] += c['variant'] == 'reread'
        d['concat_calls'] += sum(1 for s_ in c['hist'] for cc in s_['calls'] if cc.get('concat'))
        for j, kk in enumerate(KINDS[c['fmt']]):
            if kk == 'F':
                sg = set(str(float(r[j])) for r in c['rows'] if float(r[j]) == 0.0)
                d['signed_zero_columns'] += len(sg) == 2
    return d


# ----------------------------------------------------------------------------- known findings
# A Python mirror of the writer with one switch per recorded defect.  A violating case is attributed to a finding only
# when switching on that defect (alone, or together with others) reproduces the observation exactly — so a new
# defect on the same input class is still reported.
F_INT = 'C03-int-width-float-log10'
F_FASTA = 'C03-fasta-empty-sequence'
F_UNION = 'C03-vcfentry-union-info-keyerror'
F_GZAPP = 'C03-gzip-append-header-again'
F_STREAM = 'C03-stream-of-empty-chunks-no-header'
F_EMPTYID = 'C03-all-empty-identifier-column-unreadable'
F_ORDER = [F_INT, F_FASTA, F_UNION, F_GZAPP, F_STREAM]      # all repaired in /repo; kept as regression switches of the mirror


def _int_text(n, pinned):
    if not pinned:
        return str(n)
    if n == I64MIN:
        return '-2'
    a = abs(n)
    d = len(str(a))
    slack = {15: 2, 16: 21, 17: 407, 18: 4031}.get(d, 0)
    t = ('0' if 10 ** d - a <= slack else '') + str(a)
    return ('-' if n < 0 else '') + t


def _cell_text(k, v, pinned, dt=None):
    if k in 'DSR':
        return v
    if k == 'I':
        return _int_text(v, pinned)
    if k == 'L':
        return ','.join(_int_text(x, pinned) for x in v)
    if k == 'Q':
        return ''.join(chr(q + 33) for q in v)
    return _float_text(v, dt)


def _ref_chunk(case, rows, T):
    """(err, text) of one from_data call"""
    fmt, kinds = case['fmt'], KINDS[case['fmt']]
    pinned = F_INT in T and not (fmt == 'vcf' and case['variant'] == 'lazy')      # unmodified lazy records pass through
    if fmt == 'fasta':
        w = case['width']
        if F_FASTA in T and any(len(r[1]) == 0 and len(r[0]) != w - 1 for r in rows):
            return 1, ''
        out = ''
        for n, sq in rows:
            out += '>' + n + '\n' + ''.join(sq[i:i + w] + '\n' for i in range(0, len(sq), w))
        return 0, out
    if fmt == 'fastq':
        return 0, ''.join('@%s\n%s\n+\n%s\n' % (r[0], r[1], _cell_text('Q', r[2], pinned)) for r in rows)
    if fmt == 'vcf' and case['variant'] == 'union' and F_UNION in T:
        return 2, ''
    out = ''
    for r in rows:
        cells = [_cell_text(k, (v + 1 if (fmt == 'vcf' and j == 1) else v), pinned, case.get('dtypes', {}).get(str(j)))
                 for j, (k, v) in enumerate(zip(kinds, r))]
        if fmt == 'sam' and cells[-1] == '':
            cells = cells[:-1]                  # SAM: no TAB before absent optional tags
        out += '\t'.join(cells) + '\n'
    return 0, out


def _ref_run(case, T):
    """expected (err, bytes, read_ok, rows) when exactly the defects in T are present"""
    hdr = _header(case).decode()
    has_header = case['fmt'] not in ('fasta', 'fastq')
    content = ''
    err = 0
    for s, cs in zip(case['hist'], _rows_for_session(case)):
        if not s['append']:
            content = ''
        hw = False
        is_ab = s['append'] and not (case['gz'] and F_GZAPP in T)
        for c, chunks in zip(s['calls'], cs):
            stream = c['stream'] and not c.get('concat')
            todo = [ch for ch in chunks if ch] if stream else chunks
            if stream and F_STREAM not in T and not todo and chunks:
                todo = [[]]
            for ch in todo:
                if has_header and not is_ab and not hw:
                    content += hdr
                    hw = True
                if ch:
                    err, txt = _ref_chunk(case, ch, T)
                    content += txt
                if err:
                    break
            if err:
                break
        if err:
            break
    rows = case['rows']
    kinds = KINDS[case['fmt']]
    read_ok = err == 0
    if read_ok and rows:
        if case['fmt'] == 'fasta' and F_FASTA in T and any(len(r[1]) == 0 for r in rows):
            read_ok = False
    if read_ok and has_header:
        body = content.split('\n')
        while body and body[0].startswith('#'):
            body.pop(0)
        if any(l.startswith('#') for l in body):       # a header in the middle of the file is not a record
            read_ok = False
    exp_rows = []
    if read_ok:
        for r in rows:
            e = []
            pinned = F_INT in T and not (case['fmt'] == 'vcf' and case['variant'] == 'lazy')
            for k, v in zip(kinds, r):
                if k == 'I':
                    e.append(int(_int_text(v, pinned)))
                elif k == 'L':
                    e.append([int(_int_text(x, pinned)) for x in v])
                elif k == 'F':
                    e.append(float(_float_text(v, case.get('dtypes', {}).get(str(len(e))))))
                else:
                    e.append(v)
            exp_rows.append(e)
    return err, content.encode('latin1'), read_ok, exp_rows


def _rows_match(case, exp_rows, got):
    kinds = KINDS[case['fmt']]
    if len(exp_rows) != len(got):
        return False
    for e, g in zip(exp_rows, got):
        for k, a, b in zip(kinds, e, g):
            if k in 'DSR':
                if a.encode('latin1').hex() != b:
                    return False
            elif k == 'F':
                if b[1] == 0:
                    return False
                from fractions import Fraction
                fa, fb = Fraction(*float(a).as_integer_ratio()), Fraction(b[0], b[1])
                if abs(fa - fb) * 10 ** 12 > abs(fa):
                    return False
            elif a != b:
                return False
    return True


def _explained(case, o, T):
    err, content, read_ok, exp_rows = _ref_run(case, T)
    if err != o['err'] or content.hex() != o['written']:
        return False
    if err:
        return True
    if read_ok != o['read_ok']:
        return False
    if read_ok and not _rows_match(case, exp_rows, o['read']):
        return False
    if 'alt' in o:          # the alternative spelling must be read exactly like the canonical one
        if o.get('alt_read_ok') != read_ok:
            return False
        if read_ok and not _rows_match(case, exp_rows, o['alt_read']):
            return False
    return True


def _explaining_set(case, o):
    for n in range(0, len(F_ORDER) + 1):
        for T in itertools.combinations(F_ORDER, n):
            if _explained(case, o, set(T)):
                return T
    return None


# defects that the model at /repo HEAD still has (its switch is on the as-is side).  A violating case is attributed to
# a finding only if it is explained by ACTIVE defects alone: the mirror then behaves exactly like the Coq model, so a
# case on which the implementation disagrees with the model can never be swallowed by a finding.
ACTIVE = set()      # no recorded defect is left at /repo HEAD: every violation is reported


def finding(case, o):
    if case.get('big'):
        return None
    T = _explaining_set(case, o)
    if T and set(T) <= ACTIVE:
        return T[0]
    return None


def signature(case, o):
    if case.get('big'):
        return 'big/%s/%s/err%d/read%s' % (case['fmt'], case['variant'], o.get('err', -1), o.get('read_ok'))
    T = _explaining_set(case, o)
    if T:
        return '+'.join(T)
    return '%s/%s/err%d/read%s/%s' % (case['fmt'], case['variant'], o.get('err', -1), o.get('read_ok'),
                                    'gz' if case['gz'] else '')


# ----------------------------------------------------------------------------- BIG tables (round 6)
# The SIZE of one write call is part of the property's quantifier ("tables of 0..N rows").  Code on the write route may
# switch algorithm with the number of rows (block-wise formatting, buffering, dtype of offsets), so tables whose row
# count straddles powers of two / ten are written in one call, as a stream chunk, after a small piece, in append mode and
# to gzip.  A big table is a small base block of p rows tiled (plus a partial block), so that the case, the file and the
# table read back all have an exact run-length form; Coq decides the property on that form (Corr/C03T.v).
BIG_SIZES_QUICK = [4097, 32769, 65535, 65536, 65537, 100001, 131073]
BIG_SIZES_THOROUGH = sorted(set([2 ** k + d for k in range(8, 18) for d in (-1, 0, 1)] + [9999, 10001, 99999, 100001,
                                                                                          3 * 2 ** 16 + 1, 2 ** 18 + 1]))
BIG_FMTS = [('vcf', 'str'), ('vcf', 'union'), ('bed3', ''), ('bed6', ''), ('bdg', ''), ('narrowpeak', ''), ('gtf', ''),
            ('sam', ''), ('bed12', ''), ('fasta', ''), ('fastq', '')]
BIG_HKINDS = ['one', 'one-gz', 'small+a', 'stream', 'calls', 'a-gz', 'two-big']


def _big_hist(hk, segs_big, segs_small):
    def call(chunks, stream=False):
        return dict(stream=stream, chunks=chunks)
    if hk in ('one', 'one-gz'):
        return [dict(append=False, calls=[call([segs_big])])]
    if hk in ('small+a', 'a-gz'):
        return [dict(append=False, calls=[call([segs_small])]), dict(append=True, calls=[call([segs_big])])]
    if hk == 'stream':
        return [dict(append=False, calls=[call([segs_small, segs_big, [], segs_small], True)])]
    if hk == 'calls':
        return [dict(append=False, calls=[call([segs_big]), call([segs_small])])]
    if hk == 'two-big':
        return [dict(append=False, calls=[call([segs_big]), call([segs_big])])]
    raise ValueError(hk)


def _tile_segs(base, n):
    p = len(base)
    segs = []
    if n // p:
        segs.append([base, n // p])
    if n % p:
        segs.append([base[:n % p], 1])
    return segs


def _gen_big(thorough, rng, g):
    cases = []
    sizes = BIG_SIZES_THOROUGH if thorough else BIG_SIZES_QUICK
    k = 0
    for fi, (fmt, variant) in enumerate(BIG_FMTS):
        heavy = fmt in ('fasta', 'fastq', 'bed12', 'sam', 'narrowpeak', 'gtf')
        if thorough:
            mine = [n for n in sizes if not heavy or n <= 2 ** 16 + 1]
        elif fmt == 'vcf':
            mine = sizes
        else:       # every format meets the 2^16 boundary from above; the other sizes rotate
            mine = sorted(set([65537, sizes[fi % len(sizes)], 65536 if fi % 2 else 131073 if not heavy else 32769]))
        for n in mine:
            hk = BIG_HKINDS[k % len(BIG_HKINDS)]
            k += 1
            width = rng.choice([80, 80, 3, 7]) if fmt == 'fasta' else 80
            p = rng.choice([1, 2, 3, 5, 7])
            base = [g.row(fmt, 'ascii', width) for _ in range(p)]
            if fmt in ('fasta', 'fastq'):       # keep the records short: the point is the number of rows
                for r in base:
                    L = rng.choice([0, 1, width - 1, width, width + 1]) if fmt == 'fasta' else rng.choice([1, 2, 5])
                    r[1] = g.seq(L, 'ascii')
                    if fmt == 'fastq':
                        r[2] = [rng.choice([0, 30, 41, 93]) for _ in range(L)]
            small = [g.row(fmt, 'ascii', width) for _ in range(rng.choice([1, 2]))]
            if fmt == 'fastq':
                for r in small:
                    r[1], r[2] = r[1][:3] or 'A', (r[2][:3] or [1])[:len(r[1][:3] or 'A')]
                    r[2] = (r[2] + [7, 7, 7])[:len(r[1])]
            c = _mk(fmt, [], [], gz=hk.endswith('gz'), variant=variant, width=width)
            c['big'] = True
            c['bhist'] = _big_hist(hk, _tile_segs(base, n), [[small, 1]])
            cases.append(c)
    return cases


def _big_call_sizes(case):
    return [sum(len(b) * max(n, 0) for b, n in ch) for s in case['bhist'] for c in s['calls'] for ch in c['chunks']] or [0]


def _row_lines(case, r):
    if case['fmt'] == 'fasta':
        w = case['width']
        return 1 + (len(r[1]) + w - 1) // w
    if case['fmt'] == 'fastq':
        return 4
    return 1


def _rle_compress(items, hints):
    """lossless run-length form of a list: [[block, count], ...].  hints = [(period, count), ...]: the segmentation the
    table has; as long as the items follow it the segments are aligned with it, afterwards greedy by the hinted periods."""
    out, pos, n = [], 0, len(items)
    for p, cnt in hints:
        if p <= 0 or cnt <= 0:
            continue
        blk = items[pos:pos + p]
        if len(blk) == p and pos + p * cnt <= n and items[pos:pos + p * cnt] == blk * cnt:
            out.append([blk, cnt])
            pos += p * cnt
        else:
            break
    periods = sorted({p for p, _ in hints if p > 0} | {1}, reverse=True)
    lit = []
    while pos < n:
        best = None
        for p in periods:
            blk = items[pos:pos + p]
            if len(blk) < p:
                continue
            r = 1
            while items[pos + r * p:pos + (r + 1) * p] == blk:
                r += 1
            if r >= 2 and (best is None or p * r > best[0] * best[1]):
                best = (p, r)
        if best:
            if lit:
                out.append([lit, 1])
                lit = []
            out.append([items[pos:pos + best[0]], best[1]])
            pos += best[0] * best[1]
        else:
            lit.append(items[pos])
            pos += 1
    if lit:
        out.append([lit, 1])
    assert [x for b, c in out for x in b * c] == items
    return out


def _observe_big(case):
    import numpy as np
    import bionumpy as bnp
    from bionumpy import datatypes as dt
    from bionumpy.io import delimited_buffers as db
    from bionumpy.io.multiline_buffer import MultiLineFastaBuffer
    from bionumpy.streams import NpDataclassStream
    fmt, variant = case['fmt'], case['variant']
    kinds = KINDS[fmt]
    d = tempfile.mkdtemp(prefix='c03b_')
    try:
        cls = {'bed3': dt.Interval, 'bed6': dt.Bed6, 'bed12': dt.Bed12, 'bdg': dt.BedGraph, 'narrowpeak': dt.NarrowPeak,
               'sam': dt.SAMEntry, 'gtf': dt.GTFEntry, 'vcf': dt.VCFWithInfoAsStringEntry, 'fasta': dt.SequenceEntry,
               'fastq': dt.SequenceEntryWithQuality}[fmt]
        if fmt == 'vcf' and variant == 'union':
            cls = dt.VCFEntry
        wbt = rbt = None
        if fmt == 'bed6':
            rbt = db.Bed6Buffer
        if fmt == 'bed12':
            rbt = db.Bed12Buffer
        if fmt == 'fasta' and case['width'] != 80:
            class Narrow(MultiLineFastaBuffer):
                n_characters_per_line = case['width']
            wbt = Narrow

        def table(rs):
            if fmt == 'fastq':
                return cls.from_entry_tuples([(r[0], r[1], ''.join(chr(q + 33) for q in r[2])) for r in rs])
            return cls.from_entry_tuples([tuple(r) for r in rs])
        all_rows = [r for s in case['bhist'] for c in s['calls'] for ch in c['chunks'] for b, n in ch for r in b]
        empty = table(all_rows[:1])[:0]

        def chunk_table(segs):
            parts = [table(b)[np.tile(np.arange(len(b)), n)] for b, n in segs if b and n > 0]
            if not parts:
                return empty
            return parts[0] if len(parts) == 1 else np.concatenate(parts)
        path = os.path.join(d, 'out' + SUFFIX[fmt] + ('.gz' if case['gz'] else ''))
        err, errtype = 0, ''
        try:
            for s in case['bhist']:
                with bnp.open(path, 'a' if s['append'] else 'w', buffer_type=wbt) as f:
                    for c in s['calls']:
                        tabs = [chunk_table(ch) for ch in c['chunks']]
                        for t, ch in zip(tabs, c['chunks']):
                            assert len(t) == sum(len(b) * n for b, n in ch if n > 0), 'harness: wrong table size'
                        if c['stream']:
                            f.write(NpDataclassStream(iter(tabs)))
                        else:
                            f.write(tabs[0])
        except Exception as e:
            errtype = type(e).__name__
            err = {'AssertionError': 1, 'KeyError': 2}.get(errtype, 9)
            errtype += ': ' + str(e)[:120]
        if os.path.exists(path):
            raw = open(path, 'rb').read()
            try:
                written = gzip.decompress(raw) if case['gz'] and raw else raw
            except Exception:
                written = b'\xff' + raw[:50]
        else:
            written = b''
        segs = [(b, n) for s in case['bhist'] for c in s['calls'] for ch in c['chunks'] for b, n in ch if b and n > 0]
        lines = written.split(b'\n')
        lines = [x + b'\n' for x in lines[:-1]] + ([lines[-1]] if lines[-1] else [])
        hints = [(sum(_row_lines(case, r) for r in b), n) for b, n in segs]
        hdr = _header(case)
        if hdr and written.startswith(hdr):
            hints = [(hdr.count(b'\n'), 1)] + hints
        wr = _rle_compress(lines, hints)
        out = dict(err=err, errtype=errtype, n_bytes=len(written), written_rle=[[b''.join(b).hex(), n] for b, n in wr],
                   head=written[:160].decode('latin1'), read_ok=False, read_rle=[], read_err='', n_read=0)
        assert b''.join(bytes.fromhex(h) * n for h, n in out['written_rle']) == written
        if err == 0:
            try:
                r = bnp.open(path, buffer_type=rbt).read()
                rows = _table_rows(r, cls, kinds)
                out['n_read'] = len(rows)
                out['read_rle'] = _rle_compress(rows, [(len(b), n) for b, n in segs])
                out['read_ok'] = True
            except Exception as e:
                out['read_err'] = '%s: %s' % (type(e).__name__, str(e)[:160])
        return out
    finally:
        shutil.rmtree(d, ignore_errors=True)


def _to_coq_big(case, o):
    kinds = KINDS[case['fmt']]

    def rle_rows(segs, read):
        return clist(['(%s, %s)' % (clist([_row(kinds, r, read) for r in b], 'row'), cz(n)) for b, n in segs], '(list row * Z)')
    sess = []
    for s in case['bhist']:
        calls = ['{| bc_stream := %s; bc_chunks := %s |}' % (cbool(c['stream']), clist([rle_rows(ch, False) for ch in c['chunks']], '(rle row)'))
                 for c in s['calls']]
        sess.append('{| bs_append := %s; bs_calls := %s |}' % (cbool(s['append']), clist(calls, 'bcall')))
    written = clist(['(%s, %s)' % (hx(bytes.fromhex(h)), cz(n)) for h, n in o['written_rle']], '(list Z * Z)')
    return ('(Big {| b_fmt := %s; b_schema := %s; b_header := %s; b_gz := %s; b_hist := %s; b_err := %s; b_written := %s; '
            'b_read_ok := %s; b_read := %s |})' % (
                _fmt_term(case), zl([KCODE[k] for k in kinds]), hx(_header(case)), cbool(case['gz']), clist(sess, 'bsession'),
                cz(o['err']), written, cbool(o['read_ok']), rle_rows(o['read_rle'], True) if o['read_ok'] else '(@nil (list row * Z))'))


def _describe_big(case, o):
    return dict(fmt=case['fmt'], variant=case['variant'], gz=case['gz'], width=case['width'], big=True,
                history=[dict(append=s['append'], calls=[dict(stream=c['stream'], chunks=[[[b[:3], n] for b, n in ch] for ch in c['chunks']])
                                                         for c in s['calls']]) for s in case['bhist']],
                rows_per_call=_big_call_sizes(case), err=o.get('errtype') or 0, n_bytes=o.get('n_bytes'), written_head=o.get('head'),
                written_segments=[[bytes.fromhex(h)[:120].decode('latin1'), n] for h, n in o.get('written_rle', [])[:6]],
                read_ok=o.get('read_ok'), n_read=o.get('n_read'), read_err=o.get('read_err'))

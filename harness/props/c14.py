"""C14 — reverse complement, strand-aware extraction and translation are biologically exact."""
import itertools
import os
import random
import shutil
import tempfile

from harness.lib import hx, cz, clist

ID = 'C14'
RULE = ('three kinds of cases. rev: lists of DNA strings (all strings up to a length bound over the ten symbols '
        'ACGTNacgtn, packed as rows of one ragged array, empty rows included, plus longer random rows) in ASCII, ACGT '
        'and ACGTN encoding, reverse-complemented once (ragged array, SequenceEntry, each row as a flat array) and '
        'twice; str: a reference string and a set of stranded intervals (every [a,b) of short references, random '
        'sets on longer ones, empty intervals included) through get_strand_specific_sequences (3 encodings), '
        'GenomicSequence.from_dict and Genome.from_file(...).read_sequence(); tr: all 64 codons, all pairs of '
        'codons, random concatenations in mixed case, empty rows. Every expected value is computed inside Coq from '
        'the Spec tables and also compared with Biopython. non-trivial = some row is not its own reverse '
        'complement / some minus-strand interval of length >= 2 / at least one codon')
EXHAUSTIVE = {'quick': False, 'thorough': False}
TIE = 'correspondence (complement tables, lookup, row reversal, np.where choice, TCAG 3-mer hash evaluated in Coq on the same inputs) + Biopython as second oracle for the Spec tables'
ASSUMPTIONS = ['npstructures ragged indexing ([..., ::-1], flat[starts:stops]) is modelled as per-row reversal / slicing and only tied by correspondence',
               'Biopython 1.88 Seq.reverse_complement / Seq.translate (standard table) used as an independent oracle for the Coq Spec tables']
PARTIAL = ['C14_revcomp_partial: for the code at HEAD ASCII-encoded input must be upper case (C14_revcomp_pinned_refuted: "a" -> NUL)',
           'C14_stranded_partial: for the code at HEAD the interval set must extract more bases than it has intervals (C14_stranded_pinned_refuted: one 1-bp interval raises)']
PER_FILE = 40
ALPH = {0: 'ACGTNacgtn', 1: 'ACGTacgt', 2: 'ACGTNacgtn'}
ERR = {'EncodingError': 1, 'AssertionError': 2, 'IndexError': 3, 'KeyError': 4, 'AttributeError': 5, 'ValueError': 5}
CODONS = [''.join(p) for p in itertools.product('ACGT', repeat=3)]


# ----------------------------------------------------------------------------- generator
def _pack(strings, per):
    return [strings[i:i + per] for i in range(0, len(strings), per)]


def _all_ivs(L):
    return [(a, b) for a in range(L + 1) for b in range(a, L + 1)]


def generate(tier, seed):
    rng = random.Random(seed * 7919 + 14)
    quick = tier == 'quick'
    cases = []

    def rstr(L, alph):
        return ''.join(rng.choice(alph) for _ in range(L))

    # ---- rev: exhaustive short strings per encoding, packed as ragged rows
    maxlen = 3 if quick else 4
    per = 12 if quick else 16
    for enc in (0, 1, 2):
        strings = [''.join(p) for L in range(maxlen + 1) for p in itertools.product(ALPH[enc], repeat=L)]
        rng.shuffle(strings)
        # upper-case-only strings are packed apart from those with lower case (which the ASCII lookup at HEAD
        # cannot complement), so that a known finding does not mask the upper-case rows
        for part in ([s for s in strings if s == s.upper()], [s for s in strings if s != s.upper()]):
            for rows in _pack(part, per):
                cases.append(dict(op='rev', enc=enc, rows=rows))
        cases.append(dict(op='rev', enc=enc, rows=[]))
        cases.append(dict(op='rev', enc=enc, rows=['', '']))
        cases.append(dict(op='rev', enc=enc, rows=['', ALPH[enc], '']))
        for i in range(25 if quick else 250):
            n = rng.randint(1, 6)
            rows = [rstr(rng.choice([0, 1, 2, 5, 9, 17, 30]) if rng.random() < 0.5 else rng.randint(0, 12),
                         ALPH[enc] if i % 3 else ALPH[enc].upper()) for _ in range(n)]
            cases.append(dict(op='rev', enc=enc, rows=rows))

    # ---- tr: all codons, all pairs, random concatenations
    for rows in _pack(CODONS, 8):
        cases.append(dict(op='tr', rows=rows + ['']))
    cases.append(dict(op='tr', rows=CODONS))
    pairs = [a + b for a in CODONS for b in CODONS]
    for rows in _pack(pairs, 64):
        cases.append(dict(op='tr', rows=rows))
    cases.append(dict(op='tr', rows=['', '']))
    for i in range(60 if quick else 600):
        n = rng.randint(1, 6)
        rows = []
        for _ in range(n):
            k = rng.choice([0, 1, 2, 3, 7]) if rng.random() < 0.6 else rng.randint(0, 12)
            s = ''.join(rng.choice(CODONS) for _ in range(k))
            if i % 2:
                s = ''.join(ch.lower() if rng.random() < 0.4 else ch for ch in s)
            rows.append(s)
        cases.append(dict(op='tr', rows=rows))
    if not quick:
        triples = [''.join(rng.choice(CODONS) for _ in range(3)) for _ in range(12800)]
        for rows in _pack(triples, 64):
            cases.append(dict(op='tr', rows=rows))

    # ---- str: reference + stranded intervals, five routes
    routes = [(0, 0), (0, 1), (0, 2), (1, 2), (2, 2)]
    for route, enc in routes:
        alph = ALPH[enc]
        # every interval of short references, in sets of up to 6
        for L in range(1, (6 if quick else 9)):
            ref = rstr(L, alph)
            ivs = [(a, b, '+-'[(a + b + k) % 2]) for a, b in _all_ivs(L) for k in (0, 1)]
            rng.shuffle(ivs)
            for chunk in _pack(ivs, 6):
                cases.append(dict(op='str', route=route, enc=enc, ref=ref, ivs=[list(x) for x in chunk]))
        # few bases, many intervals (single 1-bp interval, all-empty sets, n == total, n > total)
        ref = rstr(7, alph)
        for ivs in ([(2, 3, '-')], [(0, 0, '+')], [(1, 1, '-'), (4, 4, '+')], [(0, 1, '+'), (5, 6, '-')],
                    [(0, 2, '-'), (3, 3, '+')], [(0, 2, '-'), (3, 3, '+'), (4, 4, '-')], [(0, 2, '-')], [(0, 3, '-'), (3, 3, '+')]):
            cases.append(dict(op='str', route=route, enc=enc, ref=ref, ivs=[list(x) for x in ivs]))
        for i in range(30 if quick else 300):
            L = rng.choice([3, 8, 20, 40]) if rng.random() < 0.5 else rng.randint(2, 25)
            ref = rstr(L, alph if i % 4 else alph.upper())
            ivs = []
            for _ in range(rng.randint(1, 6)):
                a = rng.randint(0, L)
                b = rng.randint(a, L) if rng.random() < 0.8 else a
                st = '-' if rng.random() < 0.5 else '+'
                ivs.append([a, b, st])
            if i % 10 == 9:
                ivs[0][2] = '.'        # not quantified by the property: only model_ok looks at this row
            cases.append(dict(op='str', route=route, enc=enc, ref=ref, ivs=ivs))
    return cases


# ----------------------------------------------------------------------------- implementation runner
def _err(e):
    return [ERR.get(type(e).__name__, 9), []]


def _rows(x):
    """decoded text of every row of an encoded (ragged) array"""
    return [r.to_string().encode('latin1').hex() for r in x]


def _bio_rc(s):
    from Bio.Seq import Seq
    return str(Seq(s).reverse_complement())


def observe(case):
    import numpy as np
    import bionumpy as bnp
    from bionumpy.encoded_array import as_encoded_array
    from bionumpy.encodings import DNAEncoding, ACGTnEncoding
    from bionumpy.sequence import get_reverse_complement, get_strand_specific_sequences, translate_dna_to_protein
    from bionumpy.datatypes import SequenceEntry, StrandedInterval
    encs = {0: None, 1: DNAEncoding, 2: ACGTnEncoding}
    op = case['op']
    if op == 'rev':
        rows, enc = case['rows'], encs[case['enc']]
        out = dict(bio=[_bio_rc(s).encode().hex() for s in rows], once=[])

        def enc_arr(x):
            return as_encoded_array(x, enc) if enc is not None else as_encoded_array(x)
        try:
            s = enc_arr(rows)
        except Exception as e:
            out['once'].append(_err(e))
            out['twice'] = _err(e)
            return out
        try:
            r = get_reverse_complement(s)
            ok = r.lengths.tolist() == s.lengths.tolist() and r.encoding == s.encoding
            out['once'].append([0 if ok else 9, _rows(r)])
            try:
                out['twice'] = [0, _rows(get_reverse_complement(r))]
            except Exception as e:
                out['twice'] = _err(e)
        except Exception as e:
            out['once'].append(_err(e))
            out['twice'] = _err(e)
        # each row as a flat EncodedArray
        try:
            flat = []
            for x in rows:
                fr = get_reverse_complement(enc_arr(x))
                flat.append(fr.to_string().encode('latin1').hex())
            out['once'].append([0, flat])
        except Exception as e:
            out['once'].append(_err(e))
        # the dataclass route (sequence column is ASCII)
        if case['enc'] == 0 and rows:
            try:
                se = SequenceEntry.from_entry_tuples([('s%d' % i, x) for i, x in enumerate(rows)])
                r = get_reverse_complement(se)
                ok = [n.to_string() for n in r.name] == ['s%d' % i for i in range(len(rows))]
                out['once'].append([0 if ok else 9, _rows(r.sequence)])
            except Exception as e:
                out['once'].append(_err(e))
        return out
    if op == 'tr':
        from Bio.Seq import Seq
        rows = case['rows']
        out = dict(bio=[str(Seq(s).translate()).encode().hex() for s in rows], outs=[])
        try:
            r = translate_dna_to_protein(as_encoded_array(rows))
            out['outs'].append([0, _rows(r)])
        except Exception as e:
            out['outs'].append(_err(e))
        try:
            se = SequenceEntry.from_entry_tuples([('s%d' % i, x) for i, x in enumerate(rows)])
            r = translate_dna_to_protein(se)
            ok = [n.to_string() for n in r.name] == ['s%d' % i for i in range(len(rows))]
            out['outs'].append([0 if ok else 9, _rows(r.sequence)])
        except Exception as e:
            out['outs'].append(_err(e))
        return out
    # ---- stranded extraction
    ref, ivs, route = case['ref'], case['ivs'], case['route']
    out = dict(bio=[(_bio_rc(ref[a:b]) if st == '-' else ref[a:b]).encode().hex() for a, b, st in ivs])
    I = StrandedInterval.from_entry_tuples([('c', a, b, st) for a, b, st in ivs])
    d = None
    try:
        if route == 0:
            enc = encs[case['enc']]
            r = get_strand_specific_sequences(as_encoded_array(ref, enc) if enc is not None else as_encoded_array(ref), I)
        elif route == 1:
            from bionumpy.genomic_data.genomic_sequence import GenomicSequence
            r = GenomicSequence.from_dict({'c': ref, 'd': 'GGGG'}).extract_intervals(I, stranded=True)
        else:
            d = tempfile.mkdtemp(prefix='c14_')
            path = os.path.join(d, 'g.fa')
            w = 1 + len(ref) % 7
            with open(path, 'w') as f:
                f.write('>c\n' + ''.join(ref[i:i + w] + '\n' for i in range(0, len(ref), w)) + '>d\nGGGG\n')
            g = bnp.Genome.from_file(path, filter_function=lambda x: True)
            r = g.read_sequence()[g.get_intervals(I, stranded=True)]
        out['o'] = [0 if len(r) == len(ivs) else 9, _rows(r)]
    except Exception as e:
        out['o'] = _err(e)
    finally:
        if d:
            shutil.rmtree(d, ignore_errors=True)
    return out


# ----------------------------------------------------------------------------- Coq emitter
def _hrows(hexrows):
    return clist([hx(bytes.fromhex(h)) for h in hexrows], '(list Z)')


def _obs(o):
    return '(%s, %s)' % (cz(o[0]), _hrows(o[1]))


def _srows(rows):
    return clist([hx(s.encode()) for s in rows], '(list Z)')


def to_coq(case, o):
    op = case['op']
    if op == 'rev':
        return 'CRev %s %s %s %s %s' % (cz(case['enc']), _srows(case['rows']), clist([_obs(x) for x in o['once']], 'obs'),
                                        _obs(o['twice']), _hrows(o['bio']))
    if op == 'tr':
        return 'CTr %s %s %s' % (_srows(case['rows']), clist([_obs(x) for x in o['outs']], 'obs'), _hrows(o['bio']))
    ivs = clist(['(%s, %s, %s)' % (cz(a), cz(b), cz(ord(st))) for a, b, st in case['ivs']], '(Z*Z*Z)')
    return 'CStr %s %s %s %s %s %s' % (cz(case['route']), cz(case['enc']), hx(case['ref'].encode()), ivs, _obs(o['o']), _hrows(o['bio']))


# ----------------------------------------------------------------------------- evidence helpers
def _rc(s):
    return s[::-1].translate(str.maketrans('ACGTacgt', 'TGCAtgca'))


def nontrivial(case, o):
    op = case['op']
    if op == 'rev':
        return any(len(s) >= 2 and _rc(s) != s and s[::-1] != s for s in case['rows'])
    if op == 'tr':
        return any(len(s) >= 3 for s in case['rows'])
    return any(st == '-' and b - a >= 2 for a, b, st in case['ivs'])


def describe(case, o):
    d = dict(case)
    if case['op'] == 'rev':
        d['rows'] = case['rows'][:6]
        d['observed'] = [o['once'][0][0], [bytes.fromhex(h).decode('latin1') for h in o['once'][0][1][:6]]]
    elif case['op'] == 'tr':
        d['rows'] = case['rows'][:6]
        d['observed'] = [o['outs'][0][0], [bytes.fromhex(h).decode('latin1') for h in o['outs'][0][1][:6]]]
    else:
        d['observed'] = [o['o'][0], [bytes.fromhex(h).decode('latin1') for h in o['o'][1]]]
    return d


def distribution(cases, obs):
    d = dict(rev={}, tr=0, str={}, rows=0, empty_rows=0, lower_case_rows=0, codons=0, intervals=0, minus=0,
             empty_intervals=0, errors={})
    for c, o in zip(cases, obs):
        if c['op'] == 'rev':
            k = 'enc%d' % c['enc']
            d['rev'][k] = d['rev'].get(k, 0) + 1
            d['rows'] += len(c['rows'])
            d['empty_rows'] += sum(1 for s in c['rows'] if not s)
            d['lower_case_rows'] += sum(1 for s in c['rows'] if s != s.upper())
            code = o['once'][0][0] if isinstance(o, dict) and o.get('once') else -1
        elif c['op'] == 'tr':
            d['tr'] += 1
            d['codons'] += sum(len(s) // 3 for s in c['rows'])
            code = o['outs'][0][0] if isinstance(o, dict) and o.get('outs') else -1
        else:
            k = 'route%d_enc%d' % (c['route'], c['enc'])
            d['str'][k] = d['str'].get(k, 0) + 1
            d['intervals'] += len(c['ivs'])
            d['minus'] += sum(1 for a, b, st in c['ivs'] if st == '-')
            d['empty_intervals'] += sum(1 for a, b, st in c['ivs'] if a == b)
            code = o['o'][0] if isinstance(o, dict) and o.get('o') else -1
        if code:
            d['errors'][str(code)] = d['errors'].get(str(code), 0) + 1
    return d


def _nul_for_lower(src_rows, got_rows, want_rows):
    """True iff got differs from want, and only by NUL bytes at positions whose expected symbol is lower case."""
    if len(got_rows) != len(want_rows):
        return False
    diff = False
    for g, w in zip(got_rows, want_rows):
        if len(g) != len(w):
            return False
        for x, y in zip(g, w):
            if x != y:
                if not (x == '\x00' and y.islower()):
                    return False
                diff = True
    return diff


def finding(case, o):
    op = case['op']
    if op == 'rev' and case['enc'] == 0 and o['once'] and o['once'][0][0] == 0:
        got = [bytes.fromhex(h).decode('latin1') for h in o['once'][0][1]]
        if _nul_for_lower(case['rows'], got, [_rc(s) for s in case['rows']]):
            return 'C14-ascii-lowercase-complement'
    if op == 'str':
        ivs = case['ivs']
        if o['o'][0] == 5 and len(ivs) >= sum(b - a for a, b, st in ivs):
            return 'C14-stranded-where-not-broadcast'
        if case['route'] == 0 and case['enc'] == 0 and o['o'][0] == 0:
            got = [bytes.fromhex(h).decode('latin1') for h in o['o'][1]]
            want = [(_rc(case['ref'][a:b]) if st == '-' else case['ref'][a:b]) for a, b, st in ivs]
            known = [st in '+-' for a, b, st in ivs]
            got = [g for g, k in zip(got, known) if k]
            want = [w for w, k in zip(want, known) if k]
            if _nul_for_lower(None, got, want):
                return 'C14-ascii-lowercase-complement'
    return None


def signature(case, o):
    op = case['op']
    if op == 'rev':
        return 'rev enc%d code%s' % (case['enc'], o['once'][0][0] if o.get('once') else '?')
    if op == 'tr':
        return 'tr code%s' % (o['outs'][0][0] if o.get('outs') else '?')
    return 'str route%d enc%d code%s' % (case['route'], case['enc'], o['o'][0])

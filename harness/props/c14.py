"""C14 — reverse complement, strand-aware extraction and translation are biologically exact."""
import itertools
import os
import random
import shutil
import tempfile

from harness.lib import hx, cz, clist

ID = 'C14'
RULE = ('six kinds of cases. rev: lists of DNA strings (all strings up to a length bound over the ten symbols '
        'ACGTNacgtn, packed as rows of one ragged array, empty rows included, plus longer random rows) in ASCII, ACGT '
        'and ACGTN encoding, reverse-complemented once (ragged array, SequenceEntry, each row as a flat array) and '
        'twice (with an untouched and with a materialised intermediate), also on inputs that are not yet materialised views built by prior indexing (row slice, step, mask, fancy index, column slices, reversed columns); str: a reference string and a set of stranded intervals (every [a,b) of short references, random '
        'sets on longer ones, empty intervals included; since round 6 also, as ordinary cases, the formerly failing class: at least as many intervals as extracted bases — single 1-base intervals at every position, sets of 1-base intervals only, all-empty sets of 1..33 intervals, n == bases, n > bases — on all routes and for transcripts) through get_strand_specific_sequences (3 encodings), '
        'GenomicSequence.from_dict and Genome.from_file(...).read_sequence(); tr: all 64 codons, all pairs of '
        'codons, random concatenations in mixed case, empty rows, plus rows with N/n or a length that is not a multiple of three (must raise); gen: genes.get_transcript_sequences on single- and multi-exon transcripts; seq: programs of several calls (translate, reverse complement, re-read) on the SAME ragged array / SequenceEntry and on a kept reverse complement, operands must stay unchanged; fa (round 6): the indexed-FASTA backend Genome.from_file(fa).read_sequence()[intervals] on WRAPPED multi-record FASTA files (1..4 records, line widths 1..60, lengths w, 2w, 3w, 3w+1, 2w-1, one-line records, every fifth file without final line break, index given or written by the library), interval tables in annotation order — every interval inside an enclosing one placed directly after it for six (length, width) layouts, and random tables where a feature is followed by neighbours inside it / identical / overlapping right / left / adjacent / on another record with the same coordinates, starts snapped to line breaks — and 3-4 calls on the SAME GenomicSequence object (stranded, unstranded, reversed, sorted, same starts with other stops, again); the Coq model builds the file bytes and runs the seek/read/np.delete fetch on them. Every expected value is computed inside Coq from '
        'the Spec tables and also compared with Biopython. non-trivial = some row is not its own reverse '
        'complement / some minus-strand interval of length >= 2 / at least one codon')
EXHAUSTIVE = {'quick': False, 'thorough': False}
TIE = 'translator+correspondence (Gen/C14.v regenerated from dna.py, translate.py, kmers.py, genes.py, genomic_sequence.py; Bridge/C14.v; complement tables, lookup, row reversal, the explicit row mask broadcast_row_mask and the mask form / broadcast operand of the three np.where sites, np.where choice, TCAG 3-mer hash evaluated in Coq on the same inputs; Biopython as second oracle for the Spec tables)'
ASSUMPTIONS = ['indexed-FASTA route: the .fai on disk is an input of the model (in every generated case it equals the standard index fa_index_from, which is what C14_fasta_file / C14_fasta_call are stated for); file objects seek/read are modelled as skipn/firstn on the file bytes; files without final line break are tied by correspondence only',
               'npstructures ragged indexing ([..., ::-1], flat[starts:stops], lazy views) is modelled as per-row reversal / slicing and tied by correspondence only (inputs are also handed over as not yet materialised views)',
               'Biopython 1.88 Seq.reverse_complement / Seq.translate (standard table) used as an independent oracle for the Coq Spec tables (bio_ok)',
               'genes.get_transcript_sequences is called with in-memory GFFExonEntry rows behind a minimal annotation object (len, get_exons): the GTF-file route raises TypeError at HEAD before reaching the strand code (the repository\'s own test_get_transcript_sequences is not in the passing baseline)',
               'translation of rows that do not split into ACGTacgt codons (N/n, length not a multiple of 3) is outside the quantifier; expected behaviour fixed as "must raise" and checked (C14_translate_total)']
PARTIAL = ['round 6: C14_fasta_fetch / C14_fasta_file / C14_fasta_call / C14_link_fasta cover the indexed-FASTA fetch for files whose every line is terminated; the slow path IndexedFasta.get_interval_sequences for non-StringEncoding chromosomes is not observed',
           'nothing in force is partial: C14_revcomp_head, C14_stranded_head, C14_transcripts_head, C14_translate(_total), C14_link hold without a size or case guard for the code at HEAD (complement table repaired in c37d549; np.where mask repaired by broadcast_row_mask, notes/C14.fix-2.final.diff; C14_row_mask_where + C14_source_tie tie the regenerated mask expression of the three call sites to the row-wise choice of the model)',
           'history, about the code BEFORE the repairs: C14_revcomp_partial / C14_stranded_partial / C14_revcomp_pinned_refuted / C14_stranded_pinned_refuted (lower-case ASCII table and column mask), C14_stranded_pinned_where / C14_stranded_pinned_where_fails / C14_transcripts_pinned_where (column mask `(..)[:, np.newaxis]`: correct iff more bases than items, otherwise raises — the former finding C14-stranded-where-not-broadcast)']
PER_FILE = 40
ALPH = {0: 'ACGTNacgtn', 1: 'ACGTacgt', 2: 'ACGTNacgtn'}
ERR = {'EncodingError': 1, 'AssertionError': 2, 'IndexError': 3, 'KeyError': 4, 'AttributeError': 5, 'ValueError': 5}
CODONS = [''.join(p) for p in itertools.product('ACGT', repeat=3)]


# ----------------------------------------------------------------------------- lazy views
# A case may carry 'view': the ragged input handed to the library is then a NOT YET MATERIALISED npstructures view built
# by indexing a freshly encoded base array (row slice, step, boolean mask, fancy index, column slices, reversed columns;
# 'rc' = the untouched result of a previous get_reverse_complement).  _eff() applies the same indexing to the Python
# list of rows: that is the input the property (and the Coq side, which stays list-of-rows) speaks about.
def _apply_view(rows, view, enc=0):
    k = view['kind']
    if k == 'rows':
        return rows[view['a']:view['b']]
    if k == 'step':
        return rows[view['a']::view['k']]
    if k == 'mask':
        return [r for r, m in zip(rows, view['mask']) if m]
    if k == 'fancy':
        return [rows[i] for i in view['idx']]
    if k == 'cols_from':
        return [r[view['a']:] for r in rows]
    if k == 'cols_to':
        return [r[:view['b']] for r in rows]
    if k == 'cols_rev':
        return [r[::-1] for r in rows]
    if k == 'rows_cols':
        return [r[view['c']:] for r in rows[view['a']:]]
    if k == 'rc':
        return [_rc(r) if enc == 0 else _rc(r).upper() for r in rows]
    raise ValueError(k)


def _eff(case):
    return _apply_view(case['rows'], case['view'], case.get('enc', 0)) if case.get('view') else case['rows']


def _index_view(x, view):
    """the same indexing on a bionumpy ragged array; nothing here looks at the result"""
    import numpy as np
    k = view['kind']
    if k == 'rows':
        return x[view['a']:view['b']]
    if k == 'step':
        return x[view['a']::view['k']]
    if k == 'mask':
        return x[np.array(view['mask'], dtype=bool)]
    if k == 'fancy':
        return x[list(view['idx'])]
    if k == 'cols_from':
        return x[:, view['a']:]
    if k == 'cols_to':
        return x[:, :view['b']]
    if k == 'cols_rev':
        return x[:, ::-1]
    if k == 'rows_cols':
        return x[view['a']:, view['c']:]
    if k == 'rc':
        from bionumpy.sequence import get_reverse_complement
        return get_reverse_complement(x)
    raise ValueError(k)


def _views(rng, n, col=1, with_rc=False):
    """a set of view descriptions for a base array of n >= 3 rows; col = column step unit (3 keeps codon rows)"""
    vs = [dict(kind='rows', a=1, b=None), dict(kind='rows', a=rng.randint(1, n - 1), b=n - rng.randint(0, 1)),
          dict(kind='step', a=0, k=2), dict(kind='step', a=1, k=rng.choice([2, 3])),
          dict(kind='mask', mask=[rng.random() < 0.6 for _ in range(n)]),
          dict(kind='fancy', idx=[rng.randrange(n) for _ in range(rng.randint(1, n))]),
          dict(kind='fancy', idx=list(range(n))[::-1]),
          dict(kind='cols_from', a=col), dict(kind='cols_to', b=-col), dict(kind='cols_rev'),
          dict(kind='rows_cols', a=1, c=col)]
    if with_rc:
        vs.append(dict(kind='rc'))
    return vs


# ----------------------------------------------------------------------------- generator
def _pack(strings, per):
    return [strings[i:i + per] for i in range(0, len(strings), per)]


def _all_ivs(L):
    return [(a, b) for a in range(L + 1) for b in range(a, L + 1)]


def generate(tier, seed):
    rng = random.Random(seed * 7919 + 14)
    quick = tier == 'quick'
    cases = []

    def rstr(L, alph):
        return ''.join(rng.choice(alph) for _ in range(L))

    # ---- rev: exhaustive short strings per encoding, packed as ragged rows
    maxlen = 3 if quick else 4
    per = 12 if quick else 16
    for enc in (0, 1, 2):
        strings = [''.join(p) for L in range(maxlen + 1) for p in itertools.product(ALPH[enc], repeat=L)]
        rng.shuffle(strings)
        # upper-case-only strings are packed apart from those with lower case (which the ASCII lookup at HEAD
        # cannot complement), so that a known finding does not mask the upper-case rows
        for part in ([s for s in strings if s == s.upper()], [s for s in strings if s != s.upper()]):
            for rows in _pack(part, per):
                cases.append(dict(op='rev', enc=enc, rows=rows))
        cases.append(dict(op='rev', enc=enc, rows=[]))
        cases.append(dict(op='rev', enc=enc, rows=['', '']))
        cases.append(dict(op='rev', enc=enc, rows=['', ALPH[enc], '']))
        for i in range(25 if quick else 150):
            n = rng.randint(1, 6)
            rows = [rstr(rng.choice([0, 1, 2, 5, 9, 17, 30]) if rng.random() < 0.5 else rng.randint(0, 12),
                         ALPH[enc] if i % 3 else ALPH[enc].upper()) for _ in range(n)]
            cases.append(dict(op='rev', enc=enc, rows=rows))

    # ---- rev on lazy views (input built by prior indexing, fresh per call)
    for enc in (0, 1, 2):
        for i in range(6 if quick else 20):
            n = rng.randint(3, 7)
            base = [rstr(rng.choice([0, 1, 2, 4, 7, 12]), ALPH[enc] if (i % 2 or enc) else ALPH[enc].upper()) for _ in range(n)]
            for v in _views(rng, n):
                cases.append(dict(op='rev', enc=enc, rows=base, view=v))

    # ---- tr: all codons, all pairs, random concatenations
    for rows in _pack(CODONS, 8):
        cases.append(dict(op='tr', rows=rows + ['']))
    cases.append(dict(op='tr', rows=CODONS))
    pairs = [a + b for a in CODONS for b in CODONS]
    for rows in _pack(pairs, 64):
        cases.append(dict(op='tr', rows=rows))
    cases.append(dict(op='tr', rows=['', '']))
    for i in range(60 if quick else 600):
        n = rng.randint(1, 6)
        rows = []
        for _ in range(n):
            k = rng.choice([0, 1, 2, 3, 7]) if rng.random() < 0.6 else rng.randint(0, 12)
            s = ''.join(rng.choice(CODONS) for _ in range(k))
            if i % 2:
                s = ''.join(ch.lower() if rng.random() < 0.4 else ch for ch in s)
            rows.append(s)
        cases.append(dict(op='tr', rows=rows))
    for i in range(5 if quick else 30):
        n = rng.randint(3, 6)
        base = [''.join(rng.choice(CODONS) for _ in range(rng.choice([0, 1, 2, 3, 5]))) for _ in range(n)]
        for v in _views(rng, n, col=3, with_rc=True):
            cases.append(dict(op='tr', rows=base, view=v))
    if not quick:
        triples = [''.join(rng.choice(CODONS) for _ in range(3)) for _ in range(6400)]
        for rows in _pack(triples, 64):
            cases.append(dict(op='tr', rows=rows))

    # ---- tr on input the property does not quantify over: N / n, length not a multiple of three -> must raise
    for rows in (['ACN'], ['ACGTTT', 'NNN'], ['acn', ''], ['AC'], ['ACGT', ''], ['ACGTT', 'A'], ['ACGTT', 'ACGG', 'AAA'],
                 ['A', 'CG'], ['ACN', 'A'], ['ACGTTTA'], ['', 'n'], ['TTTT', 'TT', 'TTT']):
        cases.append(dict(op='tr', rows=rows))
    for i in range(12 if quick else 120):
        rows = [''.join(rng.choice(CODONS) for _ in range(rng.randint(0, 4))) for _ in range(rng.randint(1, 5))]
        k = rng.randrange(len(rows))
        if i % 2:
            pos = rng.randint(0, len(rows[k]))
            rows[k] = rows[k][:pos] + rng.choice('Nn') + rows[k][pos:] + ('AC' if i % 4 == 1 else '')   # N (length kept a multiple of 3 half the time)
        else:
            rows[k] = rows[k] + rng.choice(['A', 'ac'])
            if i % 4 == 0 and len(rows) > 1:                 # total length still a multiple of three
                k2 = (k + 1) % len(rows)
                rows[k2] = rows[k2] + ('AC' if len(rows[k]) % 3 == 1 else 'g')
        cases.append(dict(op='tr', rows=rows))

    # ---- gen: genes.get_transcript_sequences on in-memory exon entries (single- and multi-exon transcripts)
    for i in range(40 if quick else 400):
        L = rng.choice([6, 12, 30]) if rng.random() < 0.5 else rng.randint(3, 25)
        ref = rstr(L, ALPH[2] if i % 3 else ALPH[2].upper())
        txs = []
        for _ in range(rng.randint(1, 5)):
            exons, pos = [], 0
            for _ in range(rng.choice([1, 1, 2, 3])):
                a = rng.randint(pos, L)
                b = rng.randint(a, L) if rng.random() < 0.85 else a
                exons.append([a, b])
                pos = b
            txs.append([exons, '-' if rng.random() < 0.5 else '+'])
        cases.append(dict(op='gen', ref=ref, txs=txs))
    for txs in ([[[[2, 3]], '-']], [[[[0, 0]], '+']], [[[[0, 1]], '+'], [[[3, 4]], '-']], [[[[0, 2], [4, 6]], '-']],
                [[[[1, 3]], '-'], [[[3, 3]], '+']], [[[[0, 3], [3, 6]], '-'], [[[6, 7]], '+']]):
        cases.append(dict(op='gen', ref='ACGTNAc', txs=txs))
    # round 6 — transcripts with at most as many bases as transcripts (raised before the np.where repair)
    for txs in ([[[[6, 7]], '-']], [[[[0, 0], [3, 3]], '-']], [[[[0, 1]], '-'], [[[6, 7]], '-'], [[[4, 5]], '+']],
                [[[[1, 1]], '+'], [[[2, 2], [5, 5]], '-'], [[[7, 7]], '-']], [[[[0, 0], [2, 3]], '-'], [[[3, 3]], '+'], [[[4, 4]], '-']],
                [[[[0, 1], [1, 1]], '+'], [[[5, 6]], '-'], [[[2, 2]], '-'], [[[3, 3]], '+']]):
        cases.append(dict(op='gen', ref='ACGTNAc', txs=txs))
    for i in range(10 if quick else 60):
        L = rng.randint(2, 9)
        ref = rstr(L, ALPH[2])
        n = rng.choice([1, 2, 3, 6, 17])
        txs = []
        for _ in range(n):
            a = rng.randint(0, L - 1)
            ex = [[a, a + (1 if rng.random() < 0.5 else 0)]]
            if rng.random() < 0.3:
                ex.append([ex[0][1], ex[0][1]])
            txs.append([ex, rng.choice('+-')])
        cases.append(dict(op='gen', ref=ref, txs=txs))

    # ---- str routes 3 / 4: several chromosomes; the genome of the intervals lists them in another order / a subset / sorted
    NAMES = ['chr2', 'chr10', 'chr1', 'chrX', 'chrM']
    for i in range(40 if quick else 300):
        k = rng.randint(2, 5)
        names = NAMES[:k]
        rng.shuffle(names)
        chroms = [[n, rstr(rng.randint(3, 14), ALPH[2] if i % 3 else ALPH[2].upper())] for n in names]
        route = 3 if i % 2 else 4
        if route == 3:
            order = list(names)
            mode = i % 8
            if mode == 1:
                rng.shuffle(order)
            elif mode == 3:
                order = order[::-1]
            elif mode == 5:
                order = sorted(order)
            else:
                order = rng.sample(order, rng.randint(1, k))      # a subset, in any order
            usable = order
        else:
            order, usable = None, names
        off, pos = {}, 0
        for n, sq in chroms:
            off[n] = pos
            pos += len(sq)
        seqd = dict(chroms)
        civs = []
        for _ in range(rng.randint(1, 7)):
            c = rng.choice(usable)
            L = len(seqd[c])
            a = rng.randint(0, L)
            b = rng.randint(a, L) if rng.random() < 0.85 else a
            civs.append([c, a, b, '-' if rng.random() < 0.5 else '+'])
        if i % 3:
            civs.append([usable[0], 0, len(seqd[usable[0]]), '-'])    # a whole chromosome, minus strand
        elif i % 2:
            civs = [[cn, a, min(a + 1, len(seqd[cn])), st] for cn, a, b, st in civs]   # only 1-base / empty intervals
        c = dict(op='str', route=route, enc=2, ref=''.join(sq for n, sq in chroms),
                 ivs=[[off[cn] + a, off[cn] + b, st] for cn, a, b, st in civs], chroms=chroms, civs=civs)
        if route == 3:
            c['order'] = order
        else:
            c['sort_names'] = bool(i % 4 == 0)
        cases.append(c)

    # ---- seq: several calls on the SAME objects (x built once, r = a kept reverse complement of x): operands must stay
    #      unchanged and every later result must equal the result on a fresh copy
    PROGRAMS = [['tr:x', 'tr:x'], ['tr:x', 'rc:x'], ['tr:x', 'read:x'], ['tr:x', 'keep_rc', 'tr:r'],
                ['keep_rc', 'tr:r', 'tr:r', 'read:r'], ['keep_rc', 'tr:r', 'rc:r'], ['rc:x', 'tr:x', 'rc:x', 'tr:x'],
                ['tr:x', 'read:x', 'tr:x', 'rc:x', 'read:x', 'keep_rc', 'tr:r', 'rc:r', 'read:r', 'tr:x'],
                ['keep_rc', 'tr:x', 'tr:r', 'read:x', 'read:r'], ['read:x', 'tr:x', 'keep_rc', 'rc:r', 'tr:x'],
                # results kept over later calls on ANOTHER input (b = the rows in reverse order) of the same total size
                ['keep_rc', 'rc:b', 'read:r'], ['keep_rc', 'rc:b', 'tr:r', 'rc:r'], ['rc:b', 'keep_rc', 'rc:b', 'tr:b', 'read:r', 'rc:x'],
                ['keep_rc', 'tr:b', 'rc:b', 'rc:r', 'read:r', 'read:x']]
    bases = [CODONS[:16], ['ATGGCCTTTAAATAGTTT', '', 'acgGGGtga', 'ATG'], [''.join(CODONS), ''.join(reversed(CODONS))], ['ACGTTT']]
    for i in range(8 if quick else 60):
        bases.append([''.join(ch.lower() if (i % 2 and rng.random() < 0.4) else ch
                              for ch in ''.join(rng.choice(CODONS) for _ in range(rng.choice([0, 1, 2, 3, 5, 11]))))
                      for _ in range(rng.randint(1, 7))])
    for bi, base in enumerate(bases):
        for pi, prog in enumerate(PROGRAMS):
            for container in ('era', 'se'):
                if container == 'se' and not base:
                    continue
                c = dict(op='seq', rows=base, container=container, program=prog)
                if container == 'era' and len(base) >= 3 and (bi + pi) % 4 == 3:
                    c['view'] = _views(rng, len(base), col=3)[(bi + pi) % 11]
                cases.append(c)

    # ---- str: reference + stranded intervals, five routes
    routes = [(0, 0), (0, 1), (0, 2), (1, 2), (2, 2)]
    for route, enc in routes:
        alph = ALPH[enc]
        # every interval of short references, in sets of up to 6
        for L in range(1, (6 if quick else 9)):
            ref = rstr(L, alph)
            ivs = [(a, b, '+-'[(a + b + k) % 2]) for a, b in _all_ivs(L) for k in (0, 1)]
            rng.shuffle(ivs)
            for chunk in _pack(ivs, 6):
                cases.append(dict(op='str', route=route, enc=enc, ref=ref, ivs=[list(x) for x in chunk]))
        # few bases, many intervals (single 1-bp interval, all-empty sets, n == total, n > total)
        ref = rstr(7, alph)
        for ivs in ([(2, 3, '-')], [(0, 0, '+')], [(1, 1, '-'), (4, 4, '+')], [(0, 1, '+'), (5, 6, '-')],
                    [(0, 2, '-'), (3, 3, '+')], [(0, 2, '-'), (3, 3, '+'), (4, 4, '-')], [(0, 2, '-')], [(0, 3, '-'), (3, 3, '+')]):
            cases.append(dict(op='str', route=route, enc=enc, ref=ref, ivs=[list(x) for x in ivs]))
        # round 6 — the class that raised before the np.where repair (#intervals >= #extracted bases), now ordinary cases:
        # one 1-base interval at every position and strand; sets of 1-base intervals only; all-empty sets of 1..33
        # intervals; n == bases; n > bases
        ref = rstr(5, alph)
        for a in range(5):
            for st in '+-':
                cases.append(dict(op='str', route=route, enc=enc, ref=ref, ivs=[[a, a + 1, st]]))
        for n in ([1, 2, 3, 5, 17, 33] if quick else [1, 2, 3, 4, 5, 8, 16, 17, 18, 33, 64]):
            ref = rstr(rng.randint(1, 9), alph)
            L = len(ref)
            ones = [[a, a + 1, rng.choice('+-')] for a in (rng.randint(0, L - 1) for _ in range(n))]
            empty = [[a, a, rng.choice('+-')] for a in (rng.randint(0, L) for _ in range(n))]
            cases.append(dict(op='str', route=route, enc=enc, ref=ref, ivs=ones))            # n == bases
            cases.append(dict(op='str', route=route, enc=enc, ref=ref, ivs=empty))           # 0 bases
            mixed = [x for pair in zip(ones, empty) for x in pair]
            cases.append(dict(op='str', route=route, enc=enc, ref=ref, ivs=mixed))           # n > bases > 0
            if n > 1:
                two = [list(x) for x in empty]
                two[rng.randrange(n)] = [0, min(L, n), '-']                                   # n >= bases, one longer row
                cases.append(dict(op='str', route=route, enc=enc, ref=ref, ivs=two))
        for i in range(30 if quick else 300):
            L = rng.choice([3, 8, 20, 40]) if rng.random() < 0.5 else rng.randint(2, 25)
            ref = rstr(L, alph if i % 4 else alph.upper())
            ivs = []
            for _ in range(rng.randint(1, 6)):
                a = rng.randint(0, L)
                b = rng.randint(a, L) if rng.random() < 0.8 else a
                st = '-' if rng.random() < 0.5 else '+'
                ivs.append([a, b, st])
            if i % 10 == 9:
                ivs[0][2] = '.'        # not quantified by the property: only model_ok looks at this row
            c = dict(op='str', route=route, enc=enc, ref=ref, ivs=ivs)
            if i % 6 == 5:      # many intervals (17 and more): row order after any internal regrouping / sorting of the rows
                L = len(ref)
                c['ivs'] = [[a, min(L, a + rng.randint(0, 4)), '-' if rng.random() < 0.5 else '+']
                            for a in (rng.randint(0, L) for _ in range(rng.choice([17, 18, 24, 33, 64])))]
            if route == 0 and i % 3 == 0:
                c['refview'] = ['offset', 'rev', 'step'][(i // 3) % 3]   # the reference itself is a view of a longer / reversed / interleaved array
            cases.append(c)

    # ---- fa (round 6): the indexed-FASTA backend on WRAPPED multi-record FASTA files, several calls on the same
    #      GenomicSequence object; interval tables in annotation order (a feature followed by features inside it),
    #      every relation of two consecutive intervals (nested / identical / overlapping / adjacent / disjoint /
    #      reversed / other record in between) x every position relative to the line breaks
    cases.extend(_fa_cases(rng, quick))
    return cases



# ----------------------------------------------------------------------------- fa: wrapped FASTA, indexed backend
def _fa_calls(ivs, rng, k):
    """the calls made one after the other on the same object: (intervals, stranded)"""
    rev = ivs[::-1]
    progs = [[(ivs, True), (ivs, False), (rev, True), (ivs, True)],
             [(ivs, False), (ivs, True)],
             [(rev, True), (ivs, True), (ivs, True)],
             [(ivs, True), (sorted(ivs), True), (rev, False)],
             # the same starts with other stops, then the first table again (a result remembered by its starts)
             [(ivs, True), ([(c, a, a + (b - a) // 2, st) for c, a, b, st in ivs], True), (ivs, True)]]
    return [dict(ivs=[list(x) for x in i], stranded=st) for i, st in progs[k % len(progs)]]


def _fa_case(recs, ivs, rng, k, nl_end=True, fai='lib'):
    return dict(op='fa', recs=[list(r) for r in recs], nl_end=nl_end, fai=fai, calls=_fa_calls(ivs, rng, k))


def _fa_cases(rng, quick):
    out = []
    k = 0

    def rstr(L, alph):
        return ''.join(rng.choice(alph) for _ in range(L))

    def distinct(L):
        """a sequence in which a shift by a few bases is always visible (no periodic stretches)"""
        s = rstr(L, ALPH[2])
        return ''.join(c if i == 0 or c.upper() != s[i - 1].upper() else 'ACGT'[('ACGT'.index(c.upper()) + 1) % 4] if c.upper() in 'ACGT' else 'A'
                       for i, c in enumerate(s))

    # (1) every interval inside an enclosing one, directly after it, for small (length, width) layouts: width 1, width
    #     dividing the length, last line partial, one-line record (width >= length), enclosing interval = whole record /
    #     starting and ending mid-line / starting or ending exactly at a line break
    layouts = [(12, 3), (10, 4), (7, 1), (9, 9), (8, 5), (6, 20)] if quick else [(12, 3), (10, 4), (7, 1), (9, 9), (8, 5), (6, 20), (15, 4), (14, 7), (16, 2), (13, 6)]
    for L, w in layouts:
        seq = distinct(L)
        outers = sorted({(0, L), (1, L - 1), (min(w, L) - 1, L), (0, max(w, 1) if w <= L else L), (min(w, L), L)})
        for (a1, b1) in outers:
            if not 0 <= a1 < b1 <= L:
                continue
            inner = [(a, b) for a in range(a1, b1 + 1) for b in range(a, b1 + 1)]
            rng.shuffle(inner)
            per = 14
            if quick and len(inner) > 3 * per:
                # keep the boundary members (same start, same end, start on every line, empty) and a sample of the rest
                keep = [x for x in inner if x[0] == a1 or x[1] == b1 or x[0] == x[1] or x[0] % w == 0 or x[1] % w == 0]
                rest = [x for x in inner if x not in keep]
                inner = (keep + rest)[:max(3 * per, len(keep))][:5 * per]
            for chunk in _pack(inner, per):
                st = rng.choice('+-')
                ivs = [(0, a1, b1, st)] + [(0, a, b, st if rng.random() < 0.7 else rng.choice('+-')) for a, b in chunk]
                recs = [('c', seq, w), ('d', 'GGGGAC', 4)]
                out.append(_fa_case(recs, ivs, rng, k, nl_end=(k % 5 != 4), fai=('given' if k % 2 else 'lib')))
                k += 1

    # (2) annotation-ordered tables on several records with different line widths: features followed by features inside
    #     them (transcript, then its exons), repeated features, overlapping and adjacent neighbours, jumps to another record
    #     and back
    names = ['chr1', 'chr2', 'chrX', 'chrM']
    for i in range(60 if quick else 400):
        n = rng.randint(1, 4)
        recs = []
        for j in range(n):
            w = rng.choice([1, 2, 3, 5, 7, 10, 20, 60])
            L = rng.choice([w, 2 * w, 3 * w, 3 * w + 1, 2 * w - 1]) if rng.random() < 0.4 else rng.randint(1, 70)
            L = max(1, min(L, 70))
            recs.append((names[j], distinct(L) if i % 4 else distinct(L).upper(), w))
        ivs = []
        for _ in range(rng.randint(1, 4)):
            c = rng.randrange(n)
            L, w = len(recs[c][1]), recs[c][2]
            a1 = rng.randint(0, L)
            b1 = rng.randint(a1, L)
            if rng.random() < 0.5:          # snap to line breaks
                a1 = min(L, (a1 // w) * w)
                b1 = max(a1, min(L, -(-b1 // w) * w))
            st = rng.choice('+-')
            ivs.append((c, a1, b1, st))
            for _ in range(rng.choice([0, 1, 2, 3, 5])):
                kind = rng.choice(['in', 'in', 'in', 'same', 'right', 'left', 'adj', 'other'])
                if kind == 'in':
                    a = rng.randint(a1, b1)
                    b = rng.randint(a, b1)
                elif kind == 'same':
                    a, b = a1, b1
                elif kind == 'right':
                    a = rng.randint(a1, b1)
                    b = rng.randint(b1, L)
                elif kind == 'left':
                    b = rng.randint(a1, b1)
                    a = rng.randint(0, b if b < a1 else a1)
                elif kind == 'adj':
                    a, b = b1, rng.randint(b1, L)
                else:
                    c2 = rng.randrange(n)
                    L2 = len(recs[c2][1])
                    a = rng.randint(0, L2)
                    b = rng.randint(a, L2)
                    if rng.random() < 0.5:      # the same coordinates on another record
                        a, b = min(a1, L2), min(b1, L2)
                    ivs.append((c2, a, b, rng.choice('+-')))
                    continue
                if rng.random() < 0.3:
                    a = min(b, (a // w) * w)
                ivs.append((c, a, b, st if rng.random() < 0.7 else rng.choice('+-')))
        out.append(_fa_case(recs, ivs, rng, k, nl_end=(i % 5 != 4), fai=('given' if i % 2 else 'lib')))
        k += 1
    return out


def _fa_text(case):
    t = ''
    for name, seq, w in case['recs']:
        t += '>%s\n' % name + ''.join(seq[i:i + w] + '\n' for i in range(0, len(seq), w))
    return t if case['nl_end'] else t[:-1]


def _fa_std_index(case):
    """the samtools-faidx index of _fa_text(case): name, rlen, offset, lenc, lenb"""
    rows, pos = [], 0
    for name, seq, w in case['recs']:
        off = pos + len(name) + 2
        lenc = min(w, len(seq))
        rows.append((name, len(seq), off, lenc, lenc + 1))
        pos = off + len(seq) + -(-len(seq) // w)
    return rows


def _observe_fa(case):
    import bionumpy as bnp
    from bionumpy.datatypes import StrandedInterval
    d = tempfile.mkdtemp(prefix='c14fa_')
    out = dict(calls=[], fai=[], fsize=0)
    try:
        path = os.path.join(d, 'g.fa')
        text = _fa_text(case)
        with open(path, 'w') as f:
            f.write(text)
        out['fsize'] = os.path.getsize(path)
        if case['fai'] == 'given':
            with open(path + '.fai', 'w') as f:
                f.write(''.join('%s\t%d\t%d\t%d\t%d\n' % r for r in _fa_std_index(case)))
        names = [r[0] for r in case['recs']]
        try:
            g = bnp.Genome.from_file(path, filter_function=lambda x: True)
            gs = g.read_sequence()
        except Exception as e:
            out['calls'] = [_err(e) for _ in case['calls']]
            return out
        try:
            idx = {}
            for line in open(path + '.fai'):
                p = line.rstrip('\n').split('\t')
                idx[p[0]] = [int(x) for x in p[1:5]]
            out['fai'] = [idx.get(n, [0, 0, 1, 1]) for n in names]
        except Exception:
            out['fai'] = []
        for call in case['calls']:
            try:
                I = StrandedInterval.from_entry_tuples([(names[c], a, b, st) for c, a, b, st in call['ivs']])
                r = gs[g.get_intervals(I, stranded=call['stranded'])]
                rows = _rows(r)
                ok = len(rows) == len(call['ivs']) and r.lengths.tolist() == [b - a for c, a, b, st in call['ivs']]
                out['calls'].append([0 if ok else 9, rows])
            except Exception as e:
                out['calls'].append(_err(e))
        return out
    finally:
        shutil.rmtree(d, ignore_errors=True)

# ----------------------------------------------------------------------------- implementation runner
def _err(e):
    return [ERR.get(type(e).__name__, 9), []]


def _rows(x):
    """decoded text of every row of an encoded (ragged) array"""
    return [r.to_string().encode('latin1').hex() for r in x]


def _bio_rc(s):
    from Bio.Seq import Seq
    return str(Seq(s).reverse_complement())


def observe(case):
    import numpy as np
    import bionumpy as bnp
    from bionumpy.encoded_array import as_encoded_array
    from bionumpy.encodings import DNAEncoding, ACGTnEncoding
    from bionumpy.sequence import get_reverse_complement, get_strand_specific_sequences, translate_dna_to_protein
    from bionumpy.datatypes import SequenceEntry, StrandedInterval
    encs = {0: None, 1: DNAEncoding, 2: ACGTnEncoding}
    op = case['op']
    if op == 'fa':
        return _observe_fa(case)
    if op == 'rev':
        rows, enc, view = _eff(case), encs[case['enc']], case.get('view')
        out = dict(bio=[_bio_rc(s).encode().hex() for s in rows], once=[], twice=[])

        def enc_arr(x):
            return as_encoded_array(x, enc) if enc is not None else as_encoded_array(x)

        def fresh():
            """the input array, constructed anew for every call; with a view: never looked at before it is handed over"""
            if view:
                return _index_view(enc_arr(case['rows']), view)
            return enc_arr(rows)
        try:
            fresh()
        except Exception as e:
            out['once'].append(_err(e))
            out['twice'].append(_err(e))
            return out
        # applied twice WITHOUT touching the intermediate result in any way (it stays an unmaterialised view)
        try:
            rr = get_reverse_complement(get_reverse_complement(fresh()))
            out['twice'].append([0, _rows(rr)])
        except Exception as e:
            out['twice'].append(_err(e))
        try:
            s = fresh()
            r = get_reverse_complement(s)
            got = _rows(r)                                    # materialises r
            ok = r.lengths.tolist() == [len(x) for x in rows] and r.encoding == s.encoding
            out['once'].append([0 if ok else 9, got])
            try:
                out['twice'].append([0, _rows(get_reverse_complement(r))])      # materialised intermediate
            except Exception as e:
                out['twice'].append(_err(e))
        except Exception as e:
            out['once'].append(_err(e))
            out['twice'].append(_err(e))
        # the result used before it is ever iterated: lengths, ravel
        try:
            r = get_reverse_complement(fresh())
            flat = r.ravel().to_string()
            lens = r.lengths.tolist()
            cut, pos = [], 0
            for n in lens:
                cut.append(flat[pos:pos + n].encode('latin1').hex())
                pos += n
            out['once'].append([0 if pos == len(flat) else 9, cut])
        except Exception as e:
            out['once'].append(_err(e))
        # each row as a flat EncodedArray
        try:
            flat = []
            for x in rows:
                fr = get_reverse_complement(enc_arr(x))
                flat.append(fr.to_string().encode('latin1').hex())
            out['once'].append([0, flat])
        except Exception as e:
            out['once'].append(_err(e))
        # results KEPT over a later call on OTHER sequences of the same encoding and the same total number of bases,
        # then read: the ragged result, and every flat result
        other = [s[::-1] for s in rows[::-1]]
        try:
            ra = get_reverse_complement(fresh())
            get_reverse_complement(enc_arr(other))
            rb = get_reverse_complement(enc_arr([_rc(s) for s in rows]))
            _rows(rb)
            out['once'].append([0, _rows(ra)])
        except Exception as e:
            out['once'].append(_err(e))
        try:
            kept = [get_reverse_complement(enc_arr(x)) for x in rows]
            for x in rows:
                get_reverse_complement(enc_arr(_rc(x))).to_string()
            out['once'].append([0, [fr.to_string().encode('latin1').hex() for fr in kept]])
        except Exception as e:
            out['once'].append(_err(e))
        # the dataclass route (sequence column is ASCII); with a row view the dataclass itself is indexed
        if case['enc'] == 0 and rows:
            try:
                if view and view['kind'] in ('rows', 'step', 'mask', 'fancy'):
                    names = _apply_view(['s%d' % i for i in range(len(case['rows']))], view)
                    se = _index_view(SequenceEntry.from_entry_tuples([('s%d' % i, x) for i, x in enumerate(case['rows'])]), view)
                else:
                    names = ['s%d' % i for i in range(len(rows))]
                    se = SequenceEntry.from_entry_tuples([(n, x) for n, x in zip(names, rows)])
                r = get_reverse_complement(se)
                ok = [n.to_string() for n in r.name] == names
                out['once'].append([0 if ok else 9, _rows(r.sequence)])
            except Exception as e:
                out['once'].append(_err(e))
        return out
    if op == 'tr':
        from Bio.Seq import Seq
        rows, view = _eff(case), case.get('view')
        wellformed = all(len(s) % 3 == 0 and set(s) <= set('ACGTacgt') for s in rows)
        out = dict(bio=[str(Seq(s).translate()).encode().hex() for s in rows] if wellformed else [], outs=[])
        try:
            x = _index_view(as_encoded_array(case['rows']), view) if view else as_encoded_array(rows)
            r = translate_dna_to_protein(x)
            out['outs'].append([0, _rows(r)])
        except Exception as e:
            out['outs'].append(_err(e))
        try:
            if view and view['kind'] in ('rows', 'step', 'mask', 'fancy'):
                names = _apply_view(['s%d' % i for i in range(len(case['rows']))], view)
                se = _index_view(SequenceEntry.from_entry_tuples([('s%d' % i, x) for i, x in enumerate(case['rows'])]), view)
            else:
                names = ['s%d' % i for i in range(len(rows))]
                se = SequenceEntry.from_entry_tuples([(n, x) for n, x in zip(names, rows)])
            r = translate_dna_to_protein(se)
            ok = [n.to_string() for n in r.name] == names
            out['outs'].append([0 if ok else 9, _rows(r.sequence)])
        except Exception as e:
            out['outs'].append(_err(e))
        return out
    if op == 'seq':
        base, view = case['rows'], case.get('view')
        steps = []
        if case['container'] == 'se':
            holder = SequenceEntry.from_entry_tuples([('s%d' % i, s) for i, s in enumerate(base)])
            X = lambda: holder                       # the dataclass is handed to the library; .sequence is read for observation
            seq_of = lambda v: v.sequence
        else:
            arr = as_encoded_array(base)
            if view:
                arr = _index_view(arr, view)         # stays an unmaterialised view until a step looks at it
            X = lambda: arr
            seq_of = lambda v: v
        R = {}

        def ob(f):
            try:
                v = f()
                return [0, _rows(v)]
            except Exception as e:
                return _err(e)
        for st in case['program']:
            if st == 'keep_rc':
                try:
                    R['r'] = get_reverse_complement(X())
                except Exception as e:
                    R['r'] = None
                continue
            what, obj = st.split(':')
            if obj == 'b':          # another input: the same rows in reverse order (same encoding, same total size)
                if 'b' not in R:
                    rb = _eff(case)[::-1]
                    R['b'] = (SequenceEntry.from_entry_tuples([('b%d' % i, s) for i, s in enumerate(rb)])
                              if case['container'] == 'se' else as_encoded_array(rb))
                f = get_reverse_complement if what == 'rc' else translate_dna_to_protein
                steps.append([5 if what == 'rc' else 6, ob(lambda t=R['b'], f=f: seq_of(f(t)))])
                continue
            if obj == 'r' and R.get('r') is None:
                steps.append([{'tr': 3, 'read': 2, 'rc': 4}[what], [9, []]])
                continue
            target = X() if obj == 'x' else R['r']
            if what == 'read':
                def rd(t=target):
                    s = seq_of(t)
                    rows = _rows(s)
                    if s.lengths.tolist() != [len(bytes.fromhex(h)) for h in rows]:
                        raise RuntimeError('lengths attribute disagrees with the rows')
                    return s
                steps.append([0 if obj == 'x' else 2, ob(rd)])
            elif what == 'tr':
                steps.append([1 if obj == 'x' else 3, ob(lambda t=target: seq_of(translate_dna_to_protein(t)))])
            else:
                steps.append([2 if obj == 'x' else 4, ob(lambda t=target: seq_of(get_reverse_complement(t)))])
        return dict(steps=steps)
    if op == 'gen':
        from bionumpy.datatypes.gtf import GFFExonEntry
        from bionumpy.sequence.genes import get_transcript_sequences
        ref, txs = case['ref'], case['txs']
        out = dict(bio=[])
        for ex, st in txs:
            sp = ''.join(ref[a:b] for a, b in ex)
            out['bio'].append((_bio_rc(sp) if st == '-' else sp).encode().hex())

        class Entries:                     # in-memory annotation: only what get_transcript_sequences uses
            def __init__(self, exons):
                self._exons = exons

            def __len__(self):
                return len(self._exons)

            def get_exons(self):
                return self._exons
        rows = [('c', 'src', 'exon', a, b, '.', st, '.', 'x', 'g%d' % t, 't%d' % t, 'e%d_%d' % (t, k))
                for t, (ex, st) in enumerate(txs) for k, (a, b) in enumerate(ex)]
        try:
            r = get_transcript_sequences(Entries(GFFExonEntry.from_entry_tuples(rows)), ref)
            ok = [n.to_string() for n in r.name] == ['t%d' % t for t in range(len(txs))]
            out['o'] = [0 if ok else 9, _rows(r.sequence)]
        except Exception as e:
            out['o'] = _err(e)
        return out
    # ---- stranded extraction
    ref, ivs, route = case['ref'], case['ivs'], case['route']
    out = dict(bio=[(_bio_rc(ref[a:b]) if st == '-' else ref[a:b]).encode().hex() for a, b, st in ivs])
    d = None
    if route in (3, 4):
        # several chromosomes; case['ref'] / case['ivs'] are the concatenation and the global coordinates (what goes to Coq),
        # case['chroms'] / case['civs'] what the library sees
        from bionumpy.genomic_data.genomic_sequence import GenomicSequence
        chroms, civs = case['chroms'], case['civs']
        seqd = {n: s for n, s in chroms}
        try:
            if route == 3:
                from bionumpy.genomic_data import GenomicIntervals
                from bionumpy.genomic_data.genome_context import GenomeContext
                ctx = GenomeContext.from_dict({n: len(seqd[n]) for n in case['order']})
                gi = GenomicIntervals.from_fields(ctx, [c for c, a, b, st in civs], [a for c, a, b, st in civs],
                                                  [b for c, a, b, st in civs], [st for c, a, b, st in civs])
                gs = GenomicSequence.from_dict(seqd)
                r = gs[gi]
                r2 = gs.extract_intervals(gi, stranded=True)
                rows1, rows2 = _rows(r), _rows(r2)
                out['o'] = [0 if rows1 == rows2 and len(rows1) == len(civs) else 9, rows1]
            else:
                d = tempfile.mkdtemp(prefix='c14_')
                path = os.path.join(d, 'g.fa')
                with open(path, 'w') as f:
                    for n, s in chroms:
                        w = 1 + len(s) % 5
                        f.write('>%s\n' % n + ''.join(s[i:i + w] + '\n' for i in range(0, len(s), w)))
                g = bnp.Genome.from_file(path, sort_names=case['sort_names'], filter_function=lambda x: True)
                I = StrandedInterval.from_entry_tuples([(c, a, b, st) for c, a, b, st in civs])
                r = g.read_sequence()[g.get_intervals(I, stranded=True)]
                out['o'] = [0 if len(r) == len(civs) else 9, _rows(r)]
        except Exception as e:
            out['o'] = _err(e)
        finally:
            if d:
                shutil.rmtree(d, ignore_errors=True)
        return out
    I = StrandedInterval.from_entry_tuples([('c', a, b, st) for a, b, st in ivs])
    I_other = StrandedInterval.from_entry_tuples([('c', a, b, st) for a, b, st in ivs[::-1]])
    try:
        if route == 0:
            enc = encs[case['enc']]

            def E(x):
                return as_encoded_array(x, enc) if enc is not None else as_encoded_array(x)
            rv = case.get('refview')
            if rv == 'offset':
                refarr = E('GA' + ref + 'T')[2:-1]
            elif rv == 'rev':
                refarr = E(ref[::-1])[::-1]
            elif rv == 'step':
                refarr = E(''.join(ch + 'A' for ch in ref))[::2]
            else:
                refarr = E(ref)
            r = get_strand_specific_sequences(refarr, I)
            try:                                   # a later call on other intervals of the same total size; r is read afterwards
                _rows(get_strand_specific_sequences(refarr, I_other))
            except Exception:
                pass
        elif route == 1:
            from bionumpy.genomic_data.genomic_sequence import GenomicSequence
            r = GenomicSequence.from_dict({'c': ref, 'd': 'GGGG'}).extract_intervals(I, stranded=True)
        else:
            d = tempfile.mkdtemp(prefix='c14_')
            path = os.path.join(d, 'g.fa')
            w = 1 + len(ref) % 7
            with open(path, 'w') as f:
                f.write('>c\n' + ''.join(ref[i:i + w] + '\n' for i in range(0, len(ref), w)) + '>d\nGGGG\n')
            g = bnp.Genome.from_file(path, filter_function=lambda x: True)
            r = g.read_sequence()[g.get_intervals(I, stranded=True)]
        out['o'] = [0 if len(r) == len(ivs) else 9, _rows(r)]
    except Exception as e:
        out['o'] = _err(e)
    finally:
        if d:
            shutil.rmtree(d, ignore_errors=True)
    return out


# ----------------------------------------------------------------------------- Coq emitter
def _hrows(hexrows):
    return clist([hx(bytes.fromhex(h)) for h in hexrows], '(list Z)')


def _obs(o):
    return '(%s, %s)' % (cz(o[0]), _hrows(o[1]))


def _srows(rows):
    return clist([hx(s.encode()) for s in rows], '(list Z)')


def to_coq(case, o):
    op = case['op']
    if op == 'fa':
        recs = clist(['(%s, %s, %s)' % (hx(n.encode()), hx(sq.encode()), cz(w)) for n, sq, w in case['recs']], 'fa_rec')
        fai = clist(['(%s, %s, %s, %s)' % tuple(cz(x) for x in r) for r in o['fai']], 'fa_idx')
        calls = clist(['(%s, %s, %s)' % (clist(['(%s, %s, %s, %s)' % (cz(c), cz(a), cz(b), cz(ord(st))) for c, a, b, st in cl['ivs']], 'iv4'),
                                         'true' if cl['stranded'] else 'false', _obs(ob))
                       for cl, ob in zip(case['calls'], o['calls'])], '(list iv4 * bool * obs)')
        return 'CFa %s %s %s %s %s' % (recs, 'true' if case['nl_end'] else 'false', cz(o['fsize']), fai, calls)
    if op == 'rev':
        return 'CRev %s %s %s %s %s' % (cz(case['enc']), _srows(_eff(case)), clist([_obs(x) for x in o['once']], 'obs'),
                                        clist([_obs(x) for x in o['twice']], 'obs'), _hrows(o['bio']))
    if op == 'tr':
        return 'CTr %s %s %s' % (_srows(_eff(case)), clist([_obs(x) for x in o['outs']], 'obs'), _hrows(o['bio']))
    if op == 'seq':
        return 'CSeq %s %s' % (_srows(_eff(case)), clist(['(%s, %s)' % (cz(k), _obs(x)) for k, x in o['steps']], '(Z * obs)'))
    if op == 'gen':
        txs = clist(['(%s, %s)' % (clist(['(%s, %s)' % (cz(a), cz(b)) for a, b in ex], '(Z*Z)'), cz(ord(st))) for ex, st in case['txs']],
                    'transcript')
        return 'CGen %s %s %s %s' % (hx(case['ref'].encode()), txs, _obs(o['o']), _hrows(o['bio']))
    ivs = clist(['(%s, %s, %s)' % (cz(a), cz(b), cz(ord(st))) for a, b, st in case['ivs']], '(Z*Z*Z)')
    return 'CStr %s %s %s %s %s %s' % (cz(case['route']), cz(case['enc']), hx(case['ref'].encode()), ivs, _obs(o['o']), _hrows(o['bio']))


# ----------------------------------------------------------------------------- evidence helpers
def _rc(s):
    return s[::-1].translate(str.maketrans('ACGTacgt', 'TGCAtgca'))


def nontrivial(case, o):
    op = case['op']
    if op == 'fa':
        return any(st == '-' and b - a >= 2 for c, a, b, st in case['calls'][0]['ivs'])
    if op == 'rev':
        return any(len(s) >= 2 and _rc(s) != s and s[::-1] != s for s in _eff(case))
    if op == 'tr':
        return any(len(s) >= 3 for s in _eff(case))
    if op == 'seq':
        return any(len(s) >= 3 for s in _eff(case)) and len(case['program']) >= 2
    if op == 'gen':
        return any(st == '-' and sum(b - a for a, b in ex) >= 2 for ex, st in case['txs'])
    return any(st == '-' and b - a >= 2 for a, b, st in case['ivs'])


def describe(case, o):
    d = dict(case)
    if case['op'] == 'fa':
        d['observed'] = [[x[0], [bytes.fromhex(h).decode('latin1') for h in x[1][:8]]] for x in o['calls']]
        d['fai_on_disk'] = o['fai']
        return d
    if case['op'] == 'rev':
        d['rows'] = case['rows'][:6]
        d['observed'] = [o['once'][0][0], [bytes.fromhex(h).decode('latin1') for h in o['once'][0][1][:6]]]
    elif case['op'] == 'seq':
        d['rows'] = case['rows'][:6]
        d['observed'] = [[k, x[0], [bytes.fromhex(h).decode('latin1') for h in x[1][:4]]] for k, x in o['steps']]
    elif case['op'] == 'tr':
        d['rows'] = case['rows'][:6]
        d['observed'] = [o['outs'][0][0], [bytes.fromhex(h).decode('latin1') for h in o['outs'][0][1][:6]]]
    else:
        d['observed'] = [o['o'][0], [bytes.fromhex(h).decode('latin1') for h in o['o'][1]]]
    return d


def distribution(cases, obs):
    d = dict(rev={}, tr=0, str={}, lazy_view_inputs={}, rows=0, empty_rows=0, lower_case_rows=0, codons=0, intervals=0, minus=0,
             empty_intervals=0, errors={})
    for c, o in zip(cases, obs):
        vk = (c['op'] + ':' + c['view']['kind']) if c.get('view') else ('str:ref_' + c['refview'] if c.get('refview') else None)
        if vk:
            d['lazy_view_inputs'][vk] = d['lazy_view_inputs'].get(vk, 0) + 1
        if c['op'] == 'fa':
            f = d.setdefault('fa', dict(cases=0, calls=0, intervals=0, nested_after_enclosing=0, nested_on_later_line=0,
                                        identical_neighbours=0, no_final_newline=0, fai_given=0, one_line_records=0, widths={}))
            f['cases'] += 1
            f['calls'] += len(c['calls'])
            f['no_final_newline'] += 0 if c['nl_end'] else 1
            f['fai_given'] += c['fai'] == 'given'
            for n, sq, w in c['recs']:
                f['widths'][str(w)] = f['widths'].get(str(w), 0) + 1
                f['one_line_records'] += len(sq) <= w
            iv = c['calls'][0]['ivs']
            f['intervals'] += len(iv)
            for p, q in zip(iv, iv[1:]):
                if p[0] == q[0] and p[1] <= q[1] and q[2] <= p[2]:
                    f['nested_after_enclosing'] += 1
                    f['identical_neighbours'] += (p[1], p[2]) == (q[1], q[2])
                    f['nested_on_later_line'] += q[1] // c['recs'][p[0]][2] > p[1] // c['recs'][p[0]][2]
            code = max([x[0] for x in o['calls']] or [0]) if isinstance(o, dict) and o.get('calls') else -1
        elif c['op'] == 'rev':
            k = 'enc%d' % c['enc']
            d['rev'][k] = d['rev'].get(k, 0) + 1
            d['rows'] += len(c['rows'])
            d['empty_rows'] += sum(1 for s in c['rows'] if not s)
            d['lower_case_rows'] += sum(1 for s in c['rows'] if s != s.upper())
            code = o['once'][0][0] if isinstance(o, dict) and o.get('once') else -1
        elif c['op'] == 'tr':
            d['tr'] += 1
            d['codons'] += sum(len(s) // 3 for s in c['rows'])
            code = o['outs'][0][0] if isinstance(o, dict) and o.get('outs') else -1
            if not all(len(s) % 3 == 0 and set(s) <= set('ACGTacgt') for s in c['rows']):
                d['tr_must_raise'] = d.get('tr_must_raise', 0) + 1
        elif c['op'] == 'seq':
            d['seq_programs'] = d.get('seq_programs', 0) + 1
            d['seq_steps'] = d.get('seq_steps', 0) + len(c['program'])
            code = max([x[0] for k, x in o['steps']] or [0]) if isinstance(o, dict) and 'steps' in o else -1
        elif c['op'] == 'gen':
            d['gen_transcripts'] = d.get('gen_transcripts', 0) + len(c['txs'])
            d['gen_multi_exon'] = d.get('gen_multi_exon', 0) + sum(1 for ex, st in c['txs'] if len(ex) > 1)
            code = o['o'][0] if isinstance(o, dict) and o.get('o') else -1
        else:
            k = 'route%d_enc%d' % (c['route'], c['enc'])
            d['str'][k] = d['str'].get(k, 0) + 1
            d['intervals'] += len(c['ivs'])
            d['minus'] += sum(1 for a, b, st in c['ivs'] if st == '-')
            d['empty_intervals'] += sum(1 for a, b, st in c['ivs'] if a == b)
            code = o['o'][0] if isinstance(o, dict) and o.get('o') else -1
        if code:
            d['errors'][str(code)] = d['errors'].get(str(code), 0) + 1
    return d


def finding(case, o):
    """No known finding is left for C14: the former `C14-stranded-where-not-broadcast` (np.where raised whenever the item set
    had at least as many items as extracted bases) was repaired in the library (broadcast_row_mask, notes/C14.fix-2.final.diff);
    that class is generated as ordinary cases and a failure there is a VIOLATION."""
    return None


def signature(case, o):
    op = case['op']
    if op == 'fa':
        return 'fa codes%s' % sorted({x[0] for x in o['calls']})
    if op == 'rev':
        return 'rev enc%d code%s' % (case['enc'], o['once'][0][0] if o.get('once') else '?')
    if op == 'tr':
        return 'tr code%s' % (o['outs'][0][0] if o.get('outs') else '?')
    if op == 'seq':
        bad = [k for k, x in o['steps'] if x[0]]
        return 'seq %s codes%s' % (case['container'], bad[:1])
    if op == 'gen':
        return 'gen code%s' % o['o'][0]
    return 'str route%d enc%d code%s' % (case['route'], case['enc'], o['o'][0])

"""C13 — sliding-window sequence functions are row-local and match their definitions."""
import itertools
import random

from harness.lib import hx, zl, cz, cbool, clist

ID = 'C13'
RULE = ('one case = one public call (get_kmers / get_minimizers / match_string / get_motif_scores with an integer-valued matrix and with a '
        'real-valued matrix built by every public PWM constructor incl. backgrounds in every key order and read_motif / count_kmers flat, per row, '
        'weighted, and on rows of more than 10^6 letters / KmerEncoding.encode+to_string), called positionally and with keyword arguments in both orders, on a ragged list of sequences; every tuple of row lengths of the small '
        'grid x every window length with total letters >= window (exhaustive over lengths, letters random), plus rows of '
        'length w-1, w, w+1, empty rows, a short last row, windows up to 31 and flat data crossing the 32-letter '
        'register border of the bit-packed path; the collection is a freshly built array or a non-contiguous VIEW of a larger '
        'one (rows sliced off, boolean mask, reordering, first column trimmed), a single sequence as a 1-d array, or '
        'equal-length sequences as a 2-d array (encoded, and un-encoded for get_kmers / match_string / get_motif_scores); non-trivial = at least two rows and at least one row holds a window')
EXHAUSTIVE = {'quick': False, 'thorough': False}
TIE = 'translator+correspondence'
TIE_DETAIL = ('translator: translate/gen_c13.py regenerates Gen/C13.v (17 definitions: the column-slice bound at the four trim sites, '
              'k-mer weights, encode weights, to_string digits and tests, number of labels, minimizer window arithmetic, PWM pass '
              'bounds) and Bridge/C13.v + Props.C13_source_tie re-prove them equal to the model helpers on every run; '
              'correspondence: Model.C13 rolling / get_kmers incl. the uint64 register model / get_minimizers / match_string / '
              'get_motif_scores / count_kmers / encode / to_string evaluated in Coq on the same rows')
ASSUMPTIONS = ['domain of the property: distinct alphabet letters, letters of the alphabet only, 1 <= k <= window <= 31, total letters >= window, '
               '|A|^k < 2^63 (int64 wrap-around is outside the property and not modelled)',
               'motif scores: exact theorems over integers and over exact rationals (C13_motif_scores, C13_motif_scores_rational); the check '
               'compares integer-valued float matrices exactly (op motif) and real-valued matrices from PWM.from_counts with a tolerance of '
               'w+1 units of 2^-20 (op motif_real, a labelled float TEST: float rounding itself is under no theorem)',
               'count_kmers is observed where |A|^k <= 300 (its label list is built for every possible k-mer)',
               'rolling_window(mode="same"), RegexMatcher / match_regexp and get_motif_scores_old are not reachable from the observed API '
               '(get_kmers, get_minimizers, match_string, get_motif_scores, count_kmers, KmerEncoding.encode/to_string) and are outside the check']
PARTIAL = ['C13_*_partial about stop_pinned (the column slice before /repo c9f70fe) and C13_dense_routes_refuted (2-d input before /repo 56c9986 / '
           'd2972ec) are history; the code now in /repo is covered at full strength: C13_model_agrees_implies_property holds for every case in the '
           'domain, every window >= 1, every input form, all ten operations',
           'npstructures (ragged column slice, BitArray.pack/sliding_window) is modelled from its source, not verified; '
           'C13_packed_eq_generic is about that register-level model, tied to the installed library by the correspondence only',
           'real-valued motif matrices: exact theorem over rationals (C13_motif_scores_rational); floats and logarithms only by the tolerance test']
PER_FILE = 40

ALPHS = [('dna', 'ACGT'), ('custom', 'ACGTN'), ('custom', 'ACTG'), ('amino', 'ACDEFGHIKLMNPQRSTVWY*'),
         ('dna', 'ACGT'), ('custom', 'ACG'), ('custom', 'AC')]
OPS = ['kmers', 'minimizers', 'match', 'motif', 'count', 'count_rows', 'codec', 'motif_real', 'count_weighted', 'count_big']
GRID_OPS = OPS[:9]       # count_big is generated separately (a few fixed cases)
CTORS = ['from_counts', 'from_dict', 'from_dict_bg_same_order', 'from_dict_bg_permuted', 'from_dict_bg_uniform_permuted', 'jaspar', 'csv']
SCALE = 2 ** 20          # motif_real: scores and matrix entries are handed to Coq as round(x * SCALE)
KMAX = {2: 31, 3: 31, 4: 31, 5: 27, 21: 14}          # |A|^k < 2^63


VIEWS = ['tail', 'mask', 'perm', 'cols', 'head']


def _mk(rng, op, enc, alpha, lens, w, k=None, ascii_in=False, low_entropy=False, view=None, dense=False):
    n = len(alpha)
    letters = alpha[:2] if low_entropy else alpha
    rows = [''.join(rng.choice(letters) for _ in range(L)) for L in lens]
    case = dict(op=OPS.index(op), enc=enc, alpha=alpha, ascii=bool(ascii_in), rows=rows, w=w, k=w, pat='', cols=[],
                parent=None, view=None, kind='ragged')
    flat = ''.join(rows)
    if op == 'minimizers':
        case['k'] = k if k else rng.randint(1, w)
    if op == 'match':
        # mostly a real substring of the ravelled data (so it may straddle a row border), sometimes random
        if rng.random() < 0.75 and len(flat) >= w:
            i = rng.randrange(len(flat) - w + 1)
            case['pat'] = flat[i:i + w]
        else:
            case['pat'] = ''.join(rng.choice(letters) for _ in range(w))
    if op == 'motif':
        case['cols'] = [[rng.randint(-40, 40) for _ in range(n)] for _ in range(w)]
    case['kw'] = rng.randrange(3)          # 0 positional, 1 keyword arguments, 2 keyword arguments in reverse order
    if op == 'motif_real':
        # a real-valued matrix built by one of the public constructors from INPUT numbers (integer weights; the
        # probability of letter a at position j is weight / column sum); the background lists the letters in its own order
        ctor = CTORS[rng.randrange(len(CTORS))]
        case['ctor'] = ctor
        case['weights'] = [[rng.randint(0 if ctor == 'from_counts' else 1, 30) for _ in range(n)] for _ in range(w)]
        if 'bg' in ctor:
            order = list(range(n))
            if 'permuted' in ctor:
                while order == list(range(n)):
                    rng.shuffle(order)
            bw = [5] * n if 'uniform' in ctor else [rng.randint(1, 9) for _ in range(n)]
            if 'uniform' not in ctor and len(set(bw)) == 1:
                bw[0] += 3
            case['bg'] = [[alpha[i], bw[i]] for i in order]       # (letter, weight) in the order the dict lists them
    if op == 'count_weighted':
        nwin = sum(max(L - w + 1, 0) for L in lens)
        case['weights'] = [rng.randint(0, 9) for _ in range(nwin)]
    if dense and op != 'codec' and len(rows) == 1:
        case['kind'] = 'single'            # one sequence handed over as a 1-d EncodedArray, not a ragged array
        return case
    if dense and op != 'codec' and len(rows) >= 2 and len(set(lens)) == 1 and lens[0] >= 1:
        if not ascii_in:
            case['kind'] = 'matrix'        # equal-length sequences handed over as a 2-d EncodedArray
            return case
        if op in ('kmers', 'match', 'motif'):
            case['kind'] = 'matrix_ascii'  # ... un-encoded
            return case
    if view and op != 'codec':
        # the collection handed to the library is a non-contiguous VIEW of a larger one (a prior slicing /
        # filtering / reordering / column-trimming step); `rows` stays the content of that view
        junk = lambda: ''.join(rng.choice(letters) for _ in range(rng.choice([1, 2, 3, w, w + 1])))
        if view == 'tail':
            case['parent'], case['view'] = [junk()] + rows, ['tail']
        elif view == 'head':
            case['parent'], case['view'] = rows + [junk()], ['head']
        elif view == 'mask':
            parent, mask = [], []
            for r in rows:
                while rng.random() < 0.5:
                    parent.append(junk()); mask.append(False)
                parent.append(r); mask.append(True)
            if all(mask):
                parent.insert(0, junk()); mask.insert(0, False)
            case['parent'], case['view'] = parent, ['mask', mask]
        elif view == 'perm':
            extra = [junk() for _ in range(rng.randint(0, 2))]
            order = list(range(len(rows) + len(extra)))
            rng.shuffle(order)                           # parent position of each of rows + extra
            parent = [None] * len(order)
            for item, pos in zip(rows + extra, order):
                parent[pos] = item
            case['parent'], case['view'] = parent, ['perm', order[:len(rows)]]
        elif view == 'cols':
            case['parent'], case['view'] = [rng.choice(letters) + r for r in rows], ['cols']
    return case


def _ok(op, n, w, total):
    if w < 1 or total < w or w > KMAX[n]:
        return False
    if op in ('count', 'count_rows', 'count_weighted') and (n ** w > 300 or w > 8):
        return False
    return True


def generate(tier, seed):
    rng = random.Random(seed * 7919 + 13)
    cases = []
    # ---- small grid: every tuple of row lengths x every window, every operation
    if tier == 'quick':
        grids = [(1, 6), (2, 4), (3, 3)]
        wmax = 5
    else:
        grids = [(1, 8), (2, 6), (3, 5), (4, 3)]
        wmax = 7
    cnt = {op: 0 for op in GRID_OPS}          # one counter per operation: alphabet / input form / letters cycle independently
    for nrows, maxlen in grids:
        for lens in itertools.product(range(maxlen + 1), repeat=nrows):
            for w in range(1, wmax + 1):
                if sum(lens) < w:
                    continue
                for op in GRID_OPS:
                    cnt[op] += 1
                    c = cnt[op]
                    enc, alpha = ALPHS[c % len(ALPHS)]
                    if op in ('count', 'count_rows', 'count_weighted') and len(alpha) ** w > 300:
                        enc, alpha = ('dna', 'ACGT') if w <= 4 else ('custom', 'AC')
                    if not _ok(op, len(alpha), w, sum(lens)):
                        continue
                    ascii_in = (enc == 'dna' and op in ('kmers', 'match', 'motif', 'motif_real') and (c // 7) % 2 == 0)
                    cases.append(_mk(rng, op, enc, alpha, lens, w, ascii_in=ascii_in, low_entropy=(c % 5 == 0),
                                     view=(VIEWS[(c // 3) % len(VIEWS)] if c % 3 == 1 else None), dense=(c % 2 == 0)))
    # ---- boundary rows around the window, larger windows (up to 31), register borders of the packed path
    n_big = 700 if tier == 'quick' else 6000
    for i in range(n_big):
        op = GRID_OPS[i % len(GRID_OPS)]
        enc, alpha = ALPHS[(i // len(GRID_OPS)) % len(ALPHS)]
        n = len(alpha)
        if op in ('count', 'count_rows', 'count_weighted'):
            w = rng.choice([w_ for w_ in range(1, 9) if n ** w_ <= 300])
        else:
            w = rng.choice([1, 2, 3, 4, 5, 8, 15, 16, 17, 30, 31, rng.randint(1, 31)])
            w = min(w, KMAX[n])
        nrows = rng.randint(1, 5)
        pool = [0, 1, w - 1, w, w + 1, 2 * w - 1, 2 * w, rng.randint(0, 12), rng.randint(0, 40)]
        if i % 5 == 0:
            pool += [31, 32, 33, 63, 64, 65, 32 - w, 33 - w, 64 - w]
        lens = [max(0, rng.choice(pool)) for _ in range(nrows)]
        if i % 3 == 0:                       # a short last row
            lens[-1] = rng.choice([0, 1, max(0, w - 2), max(0, w - 1)])
        j = i // len(GRID_OPS)
        if j % 5 == 2 and nrows >= 2:         # equal-length reads (also handed over as a 2-d array)
            lens = [lens[0]] * nrows
        if sum(lens) < w:
            lens = [lens[0] + w] * nrows if len(set(lens)) == 1 else [lens[0] + w] + lens[1:]
        k = None
        if op == 'minimizers':
            k = min(w, rng.choice([1, 2, w, max(1, w - 1), rng.randint(1, w)]))
        cases.append(_mk(rng, op, enc, alpha, lens, w, k=k, ascii_in=(enc == 'dna' and op in ('kmers', 'match', 'motif', 'motif_real') and j % 3 == 1),
                         low_entropy=(i % 6 == 0), view=(VIEWS[(i // 2) % len(VIEWS)] if i % 2 == 1 else None), dense=(j % 5 == 2 or i % 4 == 0)))
    # ---- size threshold: count_kmers(rows, 1) on more than 10^6 letters (count_encoded counts in chunks of 10^6 from
    #      there on).  Rows are patterns repeated many times; only (pattern, repetitions) go to Coq.
    def big(pats, reps):
        return dict(op=OPS.index('count_big'), enc='dna', alpha='ACGT', ascii=False, rows=pats, reps=reps, w=1, k=1, pat='', cols=[],
                    parent=None, view=None, kind='ragged', kw=len(cases) % 3)
    r = rng.randint(0, 3)
    bigs = [big(['ACGTT', 'GA', 'T'], [100000, 250000, 1]),                       # 1,000,001 letters
            big(['ACGTT', 'GA', 'CCAT', 'TG'], [200000, 250000, 125000, 1]),       # 2,000,002
            big(['ACGTT', 'GA'], [100000, 250000]),                                # exactly 1,000,000
            big(['TTGCA' + 'ACGT'[r], 'C', 'AG'], [166666 + r, 3 + r, 1])]           # seed-dependent, just over 10^6
    if tier != 'quick':
        bigs += [big(['ACGTTGCA', 'GA', 'T'], [375000, 1, 1 + i]) for i in range(3)]   # 3,000,003 .. 3,000,005
        bigs += [big(['AC', 'G', 'TTA'], [499999, 1, 1 + i]) for i in range(4)]
    cases += bigs
    return cases


# ------------------------------------------------------------------------------------ implementation side
def _encoding(case):
    import bionumpy as bnp
    from bionumpy.encodings import AlphabetEncoding
    if case['enc'] == 'dna':
        return bnp.DNAEncoding
    if case['enc'] == 'amino':
        return bnp.encodings.AminoAcidEncoding
    return AlphabetEncoding(case['alpha'])


def _ragged(x, nrows, kind='ragged'):
    """A ragged / 2-d / 1-d result as a list of rows.  A result of the wrong form (1-d for several sequences,
    wrong number of rows) is passed on as it is: it then fails the comparison inside Coq and is reported with its input."""
    import numpy as np
    if hasattr(x, 'raw'):
        x = x.raw()
    if isinstance(x, np.ndarray) and x.ndim == 1:
        return [[v for v in x]]
    return [[v for v in row] for row in x]


def _num(v):
    import numpy as np
    if isinstance(v, (bool, np.bool_)):
        return int(v)
    f = float(v)
    if f != f or f in (float('inf'), float('-inf')) or f != int(f):
        return 999999937          # a value no specification accepts
    return int(v) if not isinstance(v, float) else int(f)


def real_cols(case):
    """The motif matrix DEFINED by the inputs of a motif_real case, as round(x * SCALE) per position and letter:
    from_counts: log((c+1) / sum(c+1)); from_dict / jaspar / csv: log(p) - log(background), background 1/|A| unless given,
    looked up BY LETTER.  (math.log in the harness: the labelled float test; Coq only sums and compares with a tolerance.)"""
    import math
    n = len(case['alpha'])
    cols = []
    if case['ctor'] == 'from_counts':
        for col in case['weights']:
            tot = sum(c + 1 for c in col)
            cols.append([int(round(math.log((c + 1) / tot) * SCALE)) for c in col])
        return cols
    bg = {ch: 1.0 / n for ch in case['alpha']}
    if case.get('bg'):
        tot = sum(wt for _, wt in case['bg'])
        bg = {ch: wt / tot for ch, wt in case['bg']}
    for col in case['weights']:
        tot = sum(col)
        cols.append([int(round((math.log(col[i] / tot) - math.log(bg[case['alpha'][i]])) * SCALE)) for i in range(n)])
    return cols


def _build_pwm(case, PWM):
    """the PWM through the public constructor named by the case, from the same input numbers"""
    import os
    import tempfile
    import bionumpy as bnp
    alpha, ctor = case['alpha'], case['ctor']
    if ctor == 'from_counts':
        return PWM.from_counts({ch: [col[i] for col in case['weights']] for i, ch in enumerate(alpha)})
    probs = {ch: [col[i] / sum(col) for col in case['weights']] for i, ch in enumerate(alpha)}
    if ctor == 'from_dict':
        return PWM.from_dict(probs)
    if ctor.startswith('from_dict_bg'):
        tot = sum(wt for _, wt in case['bg'])
        background = {ch: wt / tot for ch, wt in case['bg']}            # dict in the listed (possibly permuted) order
        return PWM.from_dict(probs, background=background) if case['kw'] else PWM.from_dict(probs, background)
    d = tempfile.mkdtemp(prefix='c13_')
    try:
        if ctor == 'jaspar':
            path = os.path.join(d, 'm.jaspar')
            with open(path, 'w') as f:
                f.write('>M0001 test\n')
                for ch in alpha:
                    f.write('%s [ %s ]\n' % (ch, ' '.join(repr(x) for x in probs[ch])))
        else:
            path = os.path.join(d, 'm.csv')
            with open(path, 'w') as f:
                f.write(','.join(alpha) + '\n')
                for j in range(len(case['weights'])):
                    f.write(','.join(repr(probs[ch][j]) for ch in alpha) + '\n')
        return bnp.io.read_motif(path)
    finally:
        import shutil
        shutil.rmtree(d, ignore_errors=True)


def _real(v):
    f = float(v)
    if f != f or f in (float('inf'), float('-inf')):
        return 10 ** 15           # a value no specification accepts
    return int(round(f * SCALE))


def observe(case):
    import numpy as np
    import bionumpy as bnp
    from bionumpy.encodings.kmer_encodings import KmerEncoding
    from bionumpy.sequence.position_weight_matrix import PWM
    from bionumpy.encoded_array import EncodedArray
    enc = _encoding(case)
    alpha = case['alpha']
    assert ''.join(enc.get_alphabet()).upper() == alpha.upper(), (enc.get_alphabet(), alpha)
    rows, w, op = case['rows'], case['w'], OPS[case['op']]
    kind = case.get('kind', 'ragged')

    def make():
        if kind == 'single':
            return bnp.as_encoded_array(rows[0]) if case['ascii'] else bnp.as_encoded_array(rows[0], enc)
        if kind == 'matrix':
            rag = bnp.as_encoded_array(rows, enc)
            return EncodedArray(rag.raw().to_numpy_array(), enc)
        if kind == 'matrix_ascii':
            rag = bnp.as_encoded_array(rows)
            return EncodedArray(rag.raw().to_numpy_array(), rag.encoding)
        if not case.get('view'):
            return bnp.as_encoded_array(rows) if case['ascii'] else bnp.as_encoded_array(rows, enc)
        parent = bnp.as_encoded_array(case['parent']) if case['ascii'] else bnp.as_encoded_array(case['parent'], enc)
        vk = case['view'][0]
        if vk == 'tail':
            return parent[1:]
        if vk == 'head':
            return parent[:-1]
        if vk == 'mask':
            return parent[np.array(case['view'][1], dtype=bool)]
        if vk == 'perm':
            return parent[list(case['view'][1])]
        if vk == 'cols':
            return parent[:, 1:]
        raise RuntimeError('unknown view')
    if case.get('view'):
        # the view really holds `rows` (checked on its own object: reading a view may flatten it in place)
        got = [r.to_string() for r in make()]
        if got != rows:
            raise RuntimeError('view content %r != rows %r' % (got, rows))
    seqs = make()
    nrows = len(rows)
    try:
        kw = case.get('kw', 0)
        if op == 'kmers':
            r = [lambda: bnp.get_kmers(seqs, w), lambda: bnp.get_kmers(sequence=seqs, k=w), lambda: bnp.get_kmers(k=w, sequence=seqs)][kw]()
            # the returned k-mers rendered back to text through their own encoding (str of each element)
            raw = r.raw()
            texts = [str(x) for x in r] if (isinstance(raw, np.ndarray) and raw.ndim == 1) else [str(x) for row in r for x in row]
            return dict(out=[[_num(v) for v in row] for row in _ragged(r, nrows, kind)], labels=texts)
        if op == 'minimizers':
            r = [lambda: bnp.get_minimizers(seqs, case['k'], w), lambda: bnp.get_minimizers(sequence=seqs, k=case['k'], window_size=w),
                 lambda: bnp.get_minimizers(window_size=w, k=case['k'], sequence=seqs)][kw]()
            return dict(out=[[_num(v) for v in row] for row in _ragged(r, nrows, kind)])
        if op == 'match':
            r = [lambda: bnp.match_string(seqs, case['pat']), lambda: bnp.match_string(sequence=seqs, matching_sequence=case['pat']),
                 lambda: bnp.match_string(matching_sequence=case['pat'], sequence=seqs)][kw]()
            return dict(out=[[_num(v) for v in row] for row in _ragged(r, nrows, kind)])
        if op == 'motif':
            m = np.array(case['cols'], dtype=float).T.copy()          # alphabet x positions
            pwm = PWM(m, alpha) if kw == 0 else (PWM(matrix=m, alphabet=alpha) if kw == 1 else PWM(alphabet=alpha, matrix=m))
            r = [lambda: bnp.get_motif_scores(seqs, pwm), lambda: bnp.get_motif_scores(sequence=seqs, pwm=pwm),
                 lambda: bnp.get_motif_scores(pwm=pwm, sequence=seqs)][kw]()
            return dict(out=[[_num(v) for v in row] for row in _ragged(r, nrows, kind)])
        if op == 'motif_real':
            pwm = _build_pwm(case, PWM)
            r = bnp.get_motif_scores(seqs, pwm)
            return dict(out=[[_real(v) for v in row] for row in _ragged(r, nrows, kind)])
        if op in ('count', 'count_rows'):
            ax = None if op == 'count' else -1
            if op == 'count' and kw == 0:
                c = bnp.sequence.count_kmers(seqs, w)                 # axis defaults to None
            else:
                c = [lambda: bnp.sequence.count_kmers(seqs, w, ax), lambda: bnp.sequence.count_kmers(sequence=seqs, k=w, axis=ax),
                     lambda: bnp.sequence.count_kmers(axis=ax, k=w, sequence=seqs)][kw]()
            cnt = np.asarray(c.counts)
            out = [[_num(v) for v in cnt]] if (op == 'count' or cnt.ndim == 1) else [[_num(v) for v in row] for row in cnt]
            return dict(out=out, labels=[str(s) for s in c.alphabet])
        if op == 'count_weighted':
            from bionumpy.sequence.count_encoded import count_encoded
            kmers = bnp.get_kmers(seqs, w).ravel()
            wts = np.array(case['weights'], dtype=int)
            c = [lambda: count_encoded(kmers, wts, None), lambda: count_encoded(kmers, weights=wts, axis=None),
                 lambda: count_encoded(axis=None, weights=wts, values=kmers)][kw]()
            return dict(out=[[_num(v) for v in np.asarray(c.counts)]], labels=[str(s) for s in c.alphabet])
        if op == 'count_big':
            big = bnp.as_encoded_array([p * r_ for p, r_ in zip(rows, case['reps'])], enc)
            c = [lambda: bnp.sequence.count_kmers(big, 1), lambda: bnp.sequence.count_kmers(sequence=big, k=1),
                 lambda: bnp.sequence.count_kmers(k=1, axis=None, sequence=big)][kw]()
            return dict(out=[[_num(v) for v in np.asarray(c.counts)]], labels=[str(s) for s in c.alphabet])
        if op == 'codec':
            ke = KmerEncoding(enc, w)
            out = []
            for row in rows:
                texts = [row[i:i + w] for i in range(len(row) - w + 1)]
                if not texts:
                    continue
                many = [int(v) for v in np.asarray(ke.encode(texts).raw()).ravel()]
                many2 = [int(v) for v in np.asarray(ke.encode(bnp.as_encoded_array(texts)).raw()).ravel()]
                single = [int(ke.encode(t).raw()) for t in texts]
                joined = ke.to_string(np.array(single))          # array form: comma separated
                for t, h, h2, h3 in zip(texts, single, many, many2):
                    s = ke.to_string(h)
                    if h2 != h or h3 != h:
                        h = -1                     # the three encode routes (str, list, ragged array) must agree
                    out.append([h] + [ord(ch) for ch in s])
                if joined != ','.join(ke.to_string(h) for h in single):
                    out.append([-2])               # array rendering must be the join of the single renderings
            return dict(out=out)
        raise RuntimeError('unknown op')
    except Exception as e:          # whatever the library raises is the observation; it fails the comparison in Coq
        return dict(error=type(e).__name__, msg=str(e)[:120])


def _codes(case, s):
    return [case['alpha'].index(ch) for ch in s]


def to_coq(case, o):
    err = 'error' in o
    out = [] if err else o['out']
    labels = [] if err else o.get('labels', [])
    kind = {'matrix': 2, 'matrix_ascii': 3}.get(case.get('kind', 'ragged'), 0)
    opn = OPS[case['op']]
    cols = real_cols(case) if opn == 'motif_real' else case['cols']
    pat = zl(case['weights']) if opn == 'count_weighted' else (zl(case['reps']) if opn == 'count_big' else zl(_codes(case, case['pat'])))
    return ('{| k_op := %s; k_kind := %s; k_alpha := %s; k_rows := %s; k_w := %s; k_k := %s; k_pat := %s; k_cols := %s; '
            'k_err := %s; k_out := %s; k_labels := %s |}' % (
                cz(case['op']), cz(kind), hx(case['alpha'].encode()), clist([zl(_codes(case, r)) for r in case['rows']], '(list Z)'),
                cz(case['w']), cz(case['k']), pat,
                clist([zl(c) for c in cols], '(list Z)'), cbool(err),
                clist([zl(r) for r in out], '(list Z)'), clist([hx(s.encode('latin1')) for s in labels], '(list Z)')))


def nontrivial(case, o):
    if OPS[case['op']] == 'count_big':
        return True
    return len(case['rows']) >= 2 and any(len(r) >= case['w'] for r in case['rows'])


def describe(case, o):
    d = dict(op=OPS[case['op']], alphabet=case['alpha'], ascii_input=case['ascii'], rows=case['rows'], window=case['w'])
    if case.get('kind', 'ragged') != 'ragged':
        d['input_kind'] = case['kind']
    if case.get('view'):
        d['input_is_view'] = dict(parent=case['parent'], view=case['view'])
    if OPS[case['op']] == 'minimizers':
        d['k'] = case['k']
    if case['pat']:
        d['pattern'] = case['pat']
    if case['cols']:
        d['pwm_columns'] = case['cols']
    if 'out' not in o:
        d['observed'] = o.get('error') or o.get('__harness_error__')
        return d
    d['observed'] = o.get('error') or (o['out'] if sum(map(len, o['out'])) < 60 else '%d rows, %d values' % (len(o['out']), sum(map(len, o['out']))))
    return d


def explain(case, o):
    op = OPS[case['op']]
    call = {'kmers': 'bnp.get_kmers(seqs, %d)' % case['w'],
            'minimizers': 'bnp.get_minimizers(seqs, %d, %d)' % (case['k'], case['w']),
            'match': 'bnp.match_string(seqs, %r)' % case['pat'],
            'motif': 'bnp.get_motif_scores(seqs, PWM(np.array(%r, float).T, %r))' % (case['cols'], case['alpha']),
            'motif_real': '',
            'count': 'bnp.sequence.count_kmers(seqs, %d)' % case['w'],
            'count_rows': 'bnp.sequence.count_kmers(seqs, %d, axis=-1)' % case['w'],
            'codec': 'KmerEncoding(enc, %d).encode / .to_string on every window' % case['w'],
            'count_weighted': 'count_encoded(bnp.get_kmers(seqs, %d).ravel(), weights=np.array(%r), axis=None)' % (case['w'], case.get('weights')),
            'count_big': 'count_kmers(as_encoded_array([p * r for p, r in zip(%r, %r)], DNAEncoding), 1)' % (case['rows'], case.get('reps'))}[op]
    if op == 'motif_real':
        call = 'bnp.get_motif_scores(seqs, <PWM via %s from position weights %r%s>)  # compared with tolerance' % (
            case.get('ctor'), case.get('weights'), (', background listed as %r' % case['bg']) if case.get('bg') else '')
    call += '   [calling convention %d: 0 positional / 1 keywords / 2 keywords reversed]' % case.get('kw', 0)
    if op == 'count_big':
        return 'bnp.sequence.' + call
    enc = {'dna': 'bnp.DNAEncoding', 'amino': 'bnp.encodings.AminoAcidEncoding'}.get(case['enc'], 'AlphabetEncoding(%r)' % case['alpha'])
    if case.get('kind') == 'single':
        return 'seqs = bnp.as_encoded_array(%r%s)  # ONE sequence, 1-d; %s' % (case['rows'][0], '' if case['ascii'] else ', ' + enc, call)
    if case.get('kind') == 'matrix_ascii':
        return 'r = bnp.as_encoded_array(%r); seqs = EncodedArray(r.raw().to_numpy_array(), r.encoding)  # 2-d, un-encoded; %s' % (case['rows'], call)
    if case.get('kind') == 'matrix':
        return 'r = bnp.as_encoded_array(%r, %s); seqs = EncodedArray(r.raw().to_numpy_array(), r.encoding)  # 2-d; %s' % (case['rows'], enc, call)
    if case.get('view'):
        v = {'tail': 'parent[1:]', 'head': 'parent[:-1]', 'cols': 'parent[:, 1:]'}.get(case['view'][0])
        if case['view'][0] == 'mask':
            v = 'parent[np.array(%r)]' % (case['view'][1],)
        if case['view'][0] == 'perm':
            v = 'parent[%r]' % (case['view'][1],)
        return 'parent = bnp.as_encoded_array(%r%s); seqs = %s  # holds %r; %s' % (
            case['parent'], '' if case['ascii'] else ', ' + enc, v, case['rows'], call)
    return 'seqs = bnp.as_encoded_array(%r%s); %s' % (case['rows'], '' if case['ascii'] else ', ' + enc, call)


def distribution(cases, obs):
    d = dict(ops={}, alphabet_size={}, window={}, rows={}, with_empty_row=0, row_len_w_minus_1=0, row_len_w=0, row_len_w_plus_1=0,
             short_last_row=0, flat_over_32=0, ascii_input=0, input_view={}, input_kind={}, errors={})
    for c, o in zip(cases, obs):
        w = c['w']
        for key, v in (('ops', OPS[c['op']]), ('alphabet_size', len(c['alpha'])), ('window', w), ('rows', len(c['rows']))):
            d[key][str(v)] = d[key].get(str(v), 0) + 1
        L = [len(r) for r in c['rows']]
        d['with_empty_row'] += 0 in L
        d['row_len_w_minus_1'] += (w - 1) in L
        d['row_len_w'] += w in L
        d['row_len_w_plus_1'] += (w + 1) in L
        d['short_last_row'] += len(L) > 1 and L[-1] < w - 1
        d['flat_over_32'] += sum(L) > 32
        d['ascii_input'] += c['ascii']
        kd = c.get('kind', 'ragged')
        d['input_kind'][kd] = d['input_kind'].get(kd, 0) + 1
        if c.get('view'):
            d['input_view'][c['view'][0]] = d['input_view'].get(c['view'][0], 0) + 1
        if isinstance(o, dict) and 'error' in o:
            d['errors'][o['error']] = d['errors'].get(o['error'], 0) + 1
    return d


def _flat_route(case, o):
    """What the two dense routes of /repo HEAD return when they treat a 2-d array as ONE row — computed here only to
    recognise exactly that failure mode (the verdicts themselves are computed in Coq)."""
    op = OPS[case['op']]
    alpha, w = case['alpha'], case['w']
    flat = [alpha.index(ch) for r in case['rows'] for ch in r]
    n = len(alpha)
    starts = range(len(flat) - w + 1)
    if op == 'kmers':
        return ([[sum(flat[p + j] * n ** j for j in range(w)) for p in starts]],
                [''.join(alpha[x] for x in flat[p:p + w]) for p in starts])
    if op == 'motif':
        return [[sum(case['cols'][j][flat[p + j]] for j in range(w)) for p in starts]], None
    if op == 'motif_real':
        cols = real_cols(case)
        return [[sum(cols[j][flat[p + j]] for j in range(w)) for p in starts]], None
    return None, None


def finding(case, o):
    """An id only for EXACTLY the listed failure mode (the observation is what the faithful model of that defect predicts):
    C13-motif-2d-flat            get_motif_scores on a 2-d array of >= 2 rows returns the scores of the ravelled data as one row;
    C13-kmers-unencoded-2d-flat  get_kmers on an un-encoded 2-d array of >= 2 rows returns the k-mers of the ravelled data as one row;
    C13-window1-trim (fixed in /repo c9f70fe)  window 1: every row empty / every count zero / min() of an empty row."""
    op = OPS[case['op']]
    kind = case.get('kind', 'ragged')
    if 'error' not in o and kind in ('matrix', 'matrix_ascii') and len(case['rows']) >= 2:
        want, texts = _flat_route(case, o)
        if op in ('motif', 'motif_real') and want is not None:
            got = o['out']
            if op == 'motif' and got == want:
                return 'C13-motif-2d-flat'
            if op == 'motif_real' and len(got) == 1 and len(got[0]) == len(want[0]) \
                    and all(abs(a - b) <= case['w'] + 1 for a, b in zip(got[0], want[0])):
                return 'C13-motif-2d-flat'
            return None
        if op == 'kmers' and kind == 'matrix_ascii':
            return 'C13-kmers-unencoded-2d-flat' if (o['out'] == want and o.get('labels') == texts) else None
    if op in ('codec', 'motif_real'):
        return None
    win = case['k'] if op == 'minimizers' else case['w']
    if win != 1:
        return None
    if op == 'minimizers':
        return 'C13-window1-trim' if o.get('error') == 'ValueError' and 'zero-size' in o.get('msg', '') else None
    if 'error' in o:
        return None
    if all(all(v == 0 for v in r) for r in o['out']) if op in ('count', 'count_rows') else all(len(r) == 0 for r in o['out']):
        return 'C13-window1-trim'
    return None


def signature(case, o):
    """one line per root cause: wrong row lengths (the trim / re-wrap) versus wrong values of one operation"""
    op = OPS[case['op']]
    if 'error' in o:
        return 'error:' + o['error']
    if op in ('kmers', 'minimizers', 'match', 'motif', 'motif_real'):
        want = [max(len(r) - case['w'] + 1, 0) for r in case['rows']]
        if [len(r) for r in o['out']] != want:
            return 'row-lengths'
    return 'values:' + op

"""C15 — malformed input is reported, with the right line number, not mis-parsed."""
import gzip
import io
import os
import random
import shutil
import tempfile

from harness.lib import hx, cz, clist

ID = 'C15'
RULE = ('well-formed BED3 / BED6 / FASTQ / two-line FASTA / wrapped FASTA files of 1..5 records with ONE violation (non-numeric in an int column, '
        'character outside the strand alphabet, record not starting with its marker, "+" line replaced or really missing, different column count) '
        '(also in float columns mixing plain and scientific notation and in Optional[int] columns with "." placeholders: illegal character, two decimal points, no digit) injected at every record position x every chunk size 1..size+2 and whole read x {lazy, eager} x {BytesIO reader in seek / '
        'prepend mode, real plain / .gz file through bnp.open}; plus unviolated controls. non-trivial = violation not in the first '
        'chunk (the line offset bookkeeping matters); "#" header lines before the data; values of 20+ characters with a 19-digit '
        'tail; BED6 files of ~70000 records with the violation past record 65536 (only the expected line goes to Coq)')
EXHAUSTIVE = {'quick': False, 'thorough': False}
TIE = 'translator+correspondence (Gen/C01.v regenerated from parser.py, one_line_buffer.py, fastq_buffer.py, delimited_buffers.py, npdataclassreader.py; Bridge/C01.v; reader state machine + cut functions evaluated in Coq on the same bytes and chunk size)'
ASSUMPTIONS = ['the violating characters are chosen outside the characters the alphabet tables accept by the (separately recorded) C06 defect',
               'column-count violations are decided by the specification only (error required), the model does not cover reshape failures']
PARTIAL = []
PER_FILE = 64

TYS = {'bed3': '[CStr; CInt; CInt]', 'bed6': '[CStr; CInt; CInt; CStr; COptInt; CStrand]', 'bdg': '[CStr; CInt; CInt; CFloat]'}
FMT = {'fq': 'FastQ', 'fa2': 'TwoLineFasta'}


def _records(fmt, n, rng):
    recs = []
    for i in range(n):
        if fmt == 'bed3':
            recs.append([b'chr%d\t%d\t%d\n' % (1 + i % 2, rng.choice([0, 7, 10, 123]), rng.choice([9, 150, 2000]))])
        elif fmt == 'bed6':
            score = b'.' if (i + n) % 2 else b'%d' % (i * 7)       # Optional[int]: '.' placeholders next to numbers
            recs.append([b'c%d\t%d\t%d\tn%d\t%s\t%s\n' % (i % 3, rng.choice([1, 55]), rng.choice([60, 700]), i, score, b'+-.'[i % 3:i % 3 + 1])])
        elif fmt == 'bdg':
            # float column mixing plain and scientific notation
            v = [b'1.5', b'2e3', b'0.25', b'7.75e-1', b'3', b'-0.5', b'+4.0e+1'][(i + n) % 7]
            recs.append([b'chr%d\t%d\t%d\t%s\n' % (1 + i % 2, i * 10, i * 10 + 5, v)])
        elif fmt == 'fq':
            s = b'ACGTACG'[:1 + (i * 3) % 7]
            recs.append([b'@r%d\n' % i, s + b'\n', b'+\n', b'!' * len(s) + b'\n'])
        elif fmt == 'fa2':
            recs.append([b'>s%d\n' % i, b'ACGTTGCA'[:1 + (i * 5) % 8] + b'\n'])
        elif fmt == 'mfa':
            s = b'ACGTTGCAAC'[:1 + (i * 7) % 10]
            recs.append([b'>w%d\n' % i] + [s[j:j + 4] + b'\n' for j in range(0, len(s), 4)])
    return recs


def _violate(fmt, recs, r, cls):
    recs = [list(x) for x in recs]
    if cls == 'int':
        p = recs[r][0].split(b'\t')
        # characters above '9' and below '0', at the start, inside and at the end of the field
        kind = (r + len(recs)) % 10
        p[1] = [p[1] + b'z', b'?' + p[1], p[1][:1] + b'.' + p[1][1:], p[1][:1] + b'-' + p[1][1:], p[1][:1] + b' ' + p[1][1:],
                p[1] + b',', p[1][:1] + b'/' + p[1][1:],
                # long values whose last 19 characters are digits (a 64-bit integer has at most 19 digits)
                b'x1234567890123456789', b'1e0000000000000000003', b'chr7:0000000000000012345'][kind]
        recs[r][0] = b'\t'.join(p)
    elif cls == 'score':
        p = recs[r][0].rstrip(b'\n').split(b'\t')
        p[4] = [b'x7', b'7x', b'1.5', b'..'][r % 4]
        recs[r][0] = b'\t'.join(p) + b'\n'
    elif cls in ('float_char', 'float_dots', 'float_nodigit'):
        p = recs[r][0].rstrip(b'\n').split(b'\t')
        p[3] = {'float_char': [b'x.5', b'1.5e3x', b'1ex', b'1,5', b'2.5E3', b'nan'], 'float_dots': [b'1.2.3', b'1..2', b'1.2.3e4'],
                'float_nodigit': [b'+', b'-', b'.', b'+.', b'1e+', b'2.5e-']}[cls][r % {'float_char': 6, 'float_dots': 3, 'float_nodigit': 6}[cls]]
        recs[r][0] = b'\t'.join(p) + b'\n'
    elif cls == 'strand':
        p = recs[r][0].rstrip(b'\n').split(b'\t')
        p[5] = b'*' if r % 2 else b'?'
        recs[r][0] = b'\t'.join(p) + b'\n'
    elif cls == 'marker':
        recs[r][0] = b'X' + recs[r][0][1:]
    elif cls == 'plus':
        recs[r][2] = b'-\n'
    elif cls == 'plus_deleted':
        del recs[r][2]          # the '+' line is really missing: every later line is shifted by one
    elif cls == 'truncated':
        # the LAST record is cut short (r selects how many of its lines are kept: 1 .. lines-1)
        keep = 1 + r % (len(recs[-1]) - 1)
        recs[-1] = recs[-1][:keep]
    elif cls == 'ncols_more':
        recs[r][0] = recs[r][0].rstrip(b'\n') + b'\textra\n'
    elif cls == 'ncols_less':
        p = recs[r][0].rstrip(b'\n').split(b'\t')
        recs[r][0] = b'\t'.join(p[:-1]) + b'\n'
    return recs


CLASSES = {'bed3': ['int', 'ncols_more', 'ncols_less'], 'bed6': ['strand', 'int', 'score', 'ncols_less'],
           'bdg': ['int', 'float_char', 'float_dots', 'float_nodigit'], 'fq': ['marker', 'plus', 'plus_deleted', 'truncated'], 'fa2': ['marker', 'truncated'], 'mfa': ['marker']}


def generate(tier, seed):
    rng = random.Random(seed * 7907 + 15)
    cases = []
    ns = [1, 2, 3, 4] if tier == 'quick' else [1, 2, 3, 4, 5, 6]
    for fmt in ('bed3', 'bed6', 'bdg', 'fq', 'fa2', 'mfa'):
        for n in ns:
            base = _records(fmt, n, rng)
            variants = [(None, None)] + [(cls, r) for cls in CLASSES[fmt] for r in range(n)]
            if fmt == 'mfa':
                # wrapped FASTA: only the first record can lack its marker (a later line without '>' is sequence text)
                variants = [('marker', 0)]
            for cls, r in variants:
                recs = base if cls is None else _violate(fmt, base, r, cls)
                lines_per = len(base[0])
                data = b''.join(b''.join(x) for x in recs)
                final_nl = rng.random() < 0.7
                if not final_nl:
                    data = data[:-1]
                expected = None
                if cls is not None:
                    expected = r * lines_per + (2 if cls in ('plus', 'plus_deleted') else 0)
                    if cls == 'truncated' or (cls == 'plus_deleted' and r == n - 1):
                        expected = (n - 1) * lines_per          # an incomplete last record is reported at its first line
                size = len(data)
                if tier == 'quick' and n > 2:
                    ks = sorted(set([0, 1, 2, size // n, size // n + 1, size - 1, size, size + 1] + [rng.randint(1, size + 2) for _ in range(4)]))
                else:
                    ks = [0] + list(range(1, size + 3))
                for k in ks:
                    if k < 0:
                        continue
                    route = rng.choice(['seek', 'prepend', 'file', 'gz']) if k else rng.choice(['seek', 'file', 'gz'])
                    # '#' comment lines before the data (delimited formats): line numbers count from the start of the
                    # DATA, whatever precedes it
                    header = b''
                    if fmt in ('bed3', 'bed6', 'bdg') and (k + n) % 3 == 0:
                        header = [b'#one comment line\n', b'#first\n#second comment line\n', b'# c\n'][(k + (r or 0)) % 3]
                    cases.append(dict(fmt=fmt, data=data.hex(), header=header.hex(), k=k, lazy=bool((k + n + (r or 0)) % 2), route=route,
                                      cls=cls, r=r, n=n, expected=expected, rec_size=max(len(b''.join(x)) for x in recs)))
    # offsets beyond 2**16 characters of one column inside one chunk: a BED6 file of ~70000 records with one violation
    # (strand / start) at a record past 65536, read whole and with the default chunk size; only the expected line goes to Coq
    for j in range(2 if tier == 'quick' else 6):
        n = 70000 + 13 * j
        r = 65536 + [0, 4463, 1, 3000, 17, 2500][j] + (seed % 7)
        cases.append(dict(fmt='bed6', big=dict(n=n, r=r, cls=['strand', 'int'][j % 2]), data='', k=[0, 5000000][j % 2], lazy=bool(j % 2),
                          route=['file', 'gz', 'seek'][j % 3], cls='big_' + ['strand', 'int'][j % 2], r=r, n=n, expected=r, rec_size=30))
    return cases


def _big_bytes(big):
    rows = [b'c%d\t%d\t%d\tn\t%d\t%s\n' % (i % 3, 10 + i % 50, 100 + i % 50, i % 9, b'+-'[i % 2:i % 2 + 1]) for i in range(big['n'])]
    p = rows[big['r']].rstrip(b'\n').split(b'\t')
    if big['cls'] == 'strand':
        p[5] = b'?'
    else:
        p[1] = b'1x'
    rows[big['r']] = b'\t'.join(p) + b'\n'
    return b''.join(rows)


def _buffer(fmt):
    from bionumpy.io.delimited_buffers import BedBuffer, Bed6Buffer, BdgBuffer
    from bionumpy.io.fastq_buffer import FastQBuffer
    from bionumpy.io.one_line_buffer import TwoLineFastaBuffer
    from bionumpy.io.multiline_buffer import MultiLineFastaBuffer
    return {'mfa': MultiLineFastaBuffer, 'bdg': BdgBuffer, 'bed3': BedBuffer, 'bed6': Bed6Buffer, 'fq': FastQBuffer, 'fa2': TwoLineFastaBuffer}[fmt]


def observe(case):
    import numpy as np
    import bionumpy as bnp
    from bionumpy.io.parser import NumpyFileReader
    from bionumpy.io.npdataclassreader import NpDataclassReader
    from bionumpy.io.exceptions import FormatException
    data = _big_bytes(case['big']) if case.get('big') else bytes.fromhex(case.get('header', '')) + bytes.fromhex(case['data'])
    d = None
    try:
        if case['route'] in ('seek', 'prepend'):
            r = NumpyFileReader(io.BytesIO(data), _buffer(case['fmt']))
            if case['route'] == 'prepend':
                r.set_prepend_mode()
            rd = NpDataclassReader(r, lazy=case['lazy'])
        else:
            d = tempfile.mkdtemp(prefix='c15_')
            path = os.path.join(d, 'f.' + {'bed3': 'bed', 'bed6': 'bed', 'bdg': 'bdg', 'fq': 'fq', 'fa2': 'fa', 'mfa': 'fa'}[case['fmt']] + ('.gz' if case['route'] == 'gz' else ''))
            with (gzip.open(path, 'wb') if case['route'] == 'gz' else open(path, 'wb')) as f:
                f.write(data)
            rd = bnp.open(path, buffer_type=_buffer(case['fmt']), lazy=case['lazy'])
        try:
            n = 0
            if case['k'] == 0:
                t = rd.read()
                rows = t.tolist()
                n = len(rows)
            else:
                for c in rd.read_chunks(case['k']):
                    n += len(c.tolist())
                    if n > 1000:
                        return dict(kind='Other', what='runaway')
            return dict(kind='NoError', rows=n)
        except FormatException as e:
            return dict(kind='Format', line=int(e.line_number))
        except BaseException as e:
            return dict(kind='Other', what=type(e).__name__)
    finally:
        if d:
            shutil.rmtree(d, ignore_errors=True)


def _obs(o):
    return {'NoError': 'ONoError', 'Other': 'OOther'}.get(o['kind']) or 'OFormat %s' % cz(o['line'])


def to_coq(case, o):
    if case.get('big'):
        return 'CBigLine %s (%s)' % (cz(case['expected']), _obs(o))
    data = bytes.fromhex(case['data'])
    mode = 'Prepend' if case['route'] in ('prepend', 'gz') else 'Seek'
    if case['cls'] in ('ncols_more', 'ncols_less') or case['fmt'] == 'mfa':
        return 'CSpecOnly %s (%s)' % (cz(case['expected']), _obs(o))
    if case['fmt'] in TYS:
        return 'CDelim %s %s %s %s (%s)' % (TYS[case['fmt']], mode, cz(case['k']), hx(data), _obs(o))
    return 'COneLine %s %s %s %s (%s)' % (FMT[case['fmt']], mode, cz(case['k']), hx(data), _obs(o))


def nontrivial(case, o):
    return bool(case.get('big')) or (case['cls'] is not None and case['r'] > 0 and 0 < case['k'] <= case['r'] * case['rec_size'])


def describe(case, o):
    return dict(fmt=case['fmt'], big_file=case.get('big'), text=bytes.fromhex(case['data']).decode('latin1'), k=case['k'], lazy=case['lazy'], route=case['route'],
                violation=case['cls'], record=case['r'], expected_line=case['expected'], observed=o)


def distribution(cases, obs):
    d = {}
    for c, o in zip(cases, obs):
        e = d.setdefault('%s:%s' % (c['fmt'], c['cls']), dict(cases=0, Format=0, Other=0, NoError=0, violation_after_first_chunk=0))
        e['cases'] += 1
        e[o.get('kind', 'Other')] = e.get(o.get('kind', 'Other'), 0) + 1
        e['violation_after_first_chunk'] += bool(nontrivial(c, o))
    return d


def finding(case, o):
    if case['cls'] in ('ncols_more', 'ncols_less') and o.get('kind') == 'NoError':
        return 'C15-column-count-accepted'
    return None


def signature(case, o):
    return '%s:%s:%s' % (case['fmt'], case['cls'], o.get('kind'))


def explain(case, o):
    return ('%s file %r with violation %r at record %r read with k=%r lazy=%r via %s: observed %r, expected an error%s'
            % (case['fmt'], bytes.fromhex(case['data']), case['cls'], case['r'], case['k'], case['lazy'], case['route'], o,
               '' if case['expected'] is None else ' (FormatException line %d)' % case['expected']))

"""C02 — parsed columns mean what the file format says the text means.

A case is a *grammar-level* description of one text file: format tag, header/comment lines, records as lists of
field texts, line end, and (VCF) the INFO declarations.  The file bytes are derived from it here (`file_bytes`)
and, independently, inside Coq (`Corr.C02.file_ok` re-lays the records out and compares), so a generator slip
cannot make a case pass.  The implementation is observed through `bnp.open(path, buffer_type=...).read()`
(every dataclass field, one at a time, canonicalised) and cross-checked against the eager route.
"""
import json
import os
import random
import shutil
import tempfile

from harness.lib import hx, zl, cz, cbool, clist

ID = 'C02'
RULE = ('files generated from a per-format grammar (BED3/6/12, bedGraph, narrowPeak, chrom.sizes, GTF, GFF3 and wig with '
        'interior comments, pairs, SAM with optional tags, GFA S-lines, VCF with/without INFO declarations (key families, all value '
        'spellings of ints and floats: explicit +, .5, 5., exponents) and genotype columns of mixed cell shapes, FASTQ, two-line and '
        'wrapped FASTA), 1..N records, field widths 0..W, LF/CRLF; every file is observed in a SESSION: lazy read, eager read, the '
        'same table looked at again, after replace() of a column by itself, and get_data() twice on one buffer — all must give the '
        'same columns; and ROW SUBSETS taken BEFORE the first parse (4 per case: boolean mask with a kept row followed by a dropped one, index list '
        'with repeats / reorder / negative indices as list or array, slice with positive / negative step, chain of 2-3 of them; on the table '
        'returned by read() or on the buffer of the whole file followed by get_data(); columns first looked at in declaration / reversed / '
        'rotated / odd-first order) must give the selected rows of every column; non-trivial = at least two records and some column whose texts have unequal widths (or, for wrapped FASTA, '
        'a sequence spanning several lines)')
EXHAUSTIVE = {'quick': False, 'thorough': False}
TIE = ('translator+correspondence: translate/gen_c02.py regenerates 60 index/offset formulas (column count, buffer size, '
       'sentinel, field start/end, record ends before the CR adjustment, CR probe and adjustment, digit-matrix window and fill, '
       'keep_sep, VCF position shift, SAM rest-of-line, INFO key-length arithmetic and guard; wrapped FASTA: next-byte scan, cut, line starts / ends, CR window / probe / adjustment, '
       'header-line index, lines per entry, name offset; GFF3 / wig interior comments: probe after a line break, deleted end delimiter, sentinel, start offset, column count, CR adjustment applied) into Gen/C02.v; Bridge/C02.v proves '
       'them equal to the named helpers of Model/C02.v (theorems C02_source_tie, C02_fasta_source_tie, C02_ic_source_tie); and Model.C02.run is evaluated in Coq on the file '
       'bytes and compared with every parsed column')
ASSUMPTIONS = ['subsets: one row subset per case (the first) goes to Coq with the columns parsed from it and is compared there with Model.run_sel (model_ok); the other three are compared by the harness with the selected rows of the full observation and enter spec_ok through the observation flag. Theorems C02_typed_col_select / C02_int_col_select state that parsing a selection = selecting the parsed rows for the schema columns; for INFO keys and genotype matrices that equality is checked, not proved',
               'sessions: the Coq model is a function of the file bytes; that repeated parses of one table / buffer agree with the first one is checked by the harness (observe/_session) and enters spec_ok through the observation flag, it is not a Coq theorem',
               'A-IO: the reader delivers the whole file (after the leading comment block) as one chunk; chunking is C01',
               'floats: the model computes the exact decimal value; observed doubles are compared within relative 2^-50 (bit-exactness is C18)',
               'vcf_header.py regular-expression parsing is not modelled: the INFO declarations (key, type, scalar/list) are case inputs',
               'SequenceID columns are compared as text (NUL padding of the fixed-width string array is not modelled)',
               'missing values: the library represents a missing Optional[int] as 0 and a missing Optional[float] as NaN; the specification adopts that representation']
PARTIAL = ['C02_optint_refuted / C02_intlist_refuted / C02_info_short_refuted / C02_sid_all_empty_refuted record what was false of the code before the repairs now in /repo (the last one about sid_col_pinned); the positive theorems (C02_optint_fixed_correct, C02_intlist_fixed_correct, C02_info_*_correct, C02_sid_correct) are about the repaired code the model follows',
           'end-to-end theorems: BED3/6/12, chrom.sizes, pairs, GFA, GTF, VCF fixed columns with undeclared INFO (C02_delimited_end_to_end), SAM on LF and CRLF files (C02_sam_end_to_end), FASTQ and two-line FASTA (LF and CRLF); bedGraph / narrowPeak column-wise without the float columns (C02_delimited_columns); genotype string cells (C02_padded_cell_correct); INFO String / scalar Integer / Flag keys',
           'wrapped FASTA (MultiLineFastaBuffer): C02_fasta_lines_end_to_end (records with any list of sequence lines: none, empty, unequal widths; LF and CRLF with the final line break) and C02_fasta_wrapped_end_to_end (the generator layout at any width w >= 1), C02_fasta_spec_file_end_to_end (every layout of Spec.spec_file: LF / CRLF, with / without the final line break); its offset arithmetic is translated (C02_fasta_source_tie)',
           'GFF3 / wig interior comment lines (DelimitedBufferWithInernalComments, the repaired code): C02_ic_table_correct (one row per record, texts = fields; comments anywhere after the first record, consecutive, with TABs, last line; LF and CRLF), C02_ic_table_same_as_stripped (= the table of the file without the comment lines), C02_gff_end_to_end, C02_ic_columns (wig: every column but the float one). Not proved: files without the final line break',
           'list-valued INFO keys: C02_info_list_lookup_correct (keep_sep lookup + repaired split, any item parser), C02_info_intlist_col_correct / C02_info_intlist_spec (Integer lists = the Spec), C02_info_floatlist_col_correct (list structure; item values through the model decimal reader); genotype code matrices: C02_geno_col_correct, C02_delim_table_shape, C02_vcf_geno_end_to_end (whole VCF files with undeclared INFO, sample cells of >= 3 bytes)',
           'correspondence only: float VALUES (exact-rational model within 2^-50: bedGraph / narrowPeak / wig float columns, Float INFO scalars and list items), scalar Float INFO keys, whole VCF files with DECLARED INFO keys (the per-key column theorems are not yet composed into one run theorem), CRLF files without the final line break for GFF3 / wig (the end-to-end theorems of the delimited formats are stated for files with the final line break)',
           'not modelled (ill-formed input only): the reader\'s "incomplete entry at the end of the file" check (parser.py 03a5b64) and the order of FASTQ validation messages']
PER_FILE = 40

# ----------------------------------------------------------------------------- formats
# tag -> (suffix, buffer class path, comment byte for the leading header block)
FORMATS = {
    'bed3': ('.bed', 'bionumpy.io.delimited_buffers:BedBuffer'),
    'bed6': ('.bed', 'bionumpy.io.delimited_buffers:Bed6Buffer'),
    'bed12': ('.bed', 'bionumpy.io.delimited_buffers:Bed12Buffer'),
    'bdg': ('.bdg', None),
    'npk': ('.narrowPeak', None),
    'sizes': ('.sizes', None),
    'gtf': ('.gtf', None),
    'gff': ('.gff3', None),
    'wig': ('.wig', None),
    'pairs': ('.pairs', None),
    'sam': ('.sam', None),
    'gfa': ('.gfa', None),
    'vcf': ('.vcf', None),
    'vcfgt': ('.vcf', 'bionumpy.io.vcf_buffers:VCFMatrixBuffer'),
    'vcfph': ('.vcf', 'bionumpy.io.vcf_buffers:PhasedVCFMatrixBuffer'),
    'vcfhap': ('.vcf', 'bionumpy.io.vcf_buffers:PhasedHaplotypeVCFMatrixBuffer'),
    'vcf2': ('.vcf', 'bionumpy.io.vcf_buffers:VCFBuffer2'),
    'fastq': ('.fq', None),
    'fasta2': ('.fa', 'bionumpy.io.one_line_buffer:TwoLineFastaBuffer'),
    'fasta': ('.fa', None),
}
COQ_TAG = {k: 'F' + k for k in FORMATS}
INTERIOR = ('gff', 'wig')


def file_bytes(case):
    eol = b'\r\n' if case['crlf'] else b'\n'
    out = b''
    for h in case['header']:
        out += h.encode('latin1') + eol
    fmt = case['fmt']
    com = case.get('comments', {})
    for i, r in enumerate(case['recs']):
        for c in com.get(str(i), []):
            out += c.encode('latin1') + eol
        if fmt in ('fastq',):
            out += b'@' + r[0].encode('latin1') + eol + r[1].encode('latin1') + eol + b'+' + r[2].encode('latin1') + eol + r[3].encode('latin1') + eol
        elif fmt == 'fasta2':
            out += b'>' + r[0].encode('latin1') + eol + r[1].encode('latin1') + eol
        elif fmt == 'fasta':
            w = case['width']
            out += b'>' + r[0].encode('latin1') + eol
            for k in range(0, len(r[1]), w):
                out += r[1][k:k + w].encode('latin1') + eol
        else:
            out += '\t'.join(r).encode('latin1') + eol
    for c in com.get(str(len(case['recs'])), []):
        out += c.encode('latin1') + eol
    if not case['final_newline']:
        out = out[:-len(eol)]
    return out


# ----------------------------------------------------------------------------- generator
BOUNDARY = ['9', '10', '99', '100', '255', '256', '32767', '32768', '65535', '65536', '999999999', '1000000000',
            '2147483647', '2147483648', '4294967295', '4294967296', '9999999999', '10000000000',
            '99999999999999', '100000000000000', '999999999999999']
VCFS = ('vcf', 'vcfgt', 'vcfph', 'vcfhap', 'vcf2')
NAME = 'abcXYZ019_.:-'
SEQ = 'ACGTNacgtn'


class G:
    def __init__(self, rng, W):
        self.r = rng
        self.W = W
        self.p_empty_id = 0.1
        self.boundary = False

    def width(self, lo=0):
        r = self.r
        x = r.random()
        if x < 0.25:
            return max(lo, 1)
        if x < 0.35:
            return lo
        if x < 0.5:
            return max(lo, self.W)
        return r.randint(lo, max(lo, self.W))

    def text(self, lo=0, alph=NAME):
        return ''.join(self.r.choice(alph) for _ in range(self.width(lo)))

    def ident(self):
        # identifier columns: empty text is allowed by the quantifier but kept rare (a column in which every
        # identifier is empty is finding C02-sid-all-empty)
        return self.text(0 if self.r.random() < self.p_empty_id else 1)

    def uint(self, maxd=None):
        r = self.r
        if self.boundary and maxd is None and r.random() < 0.4:
            # values next to powers of two / ten, where a narrower accumulator or a lost digit would show
            return r.choice([b for b in BOUNDARY if len(b) <= max(self.W, 1)] or ['9'])
        d = max(1, self.width(1) if maxd is None else r.randint(1, maxd))
        d = min(d, 15)
        x = r.random()
        if d == 1:
            return r.choice('0123456789')
        if x < 0.15:
            return '9' * d
        if x < 0.3:
            return '1' + '0' * (d - 1)
        return r.choice('123456789') + ''.join(r.choice('0123456789') for _ in range(d - 1))

    def sint(self, p_neg=0.3, p_plus=0.1):
        x = self.r.random()
        u = self.uint()
        if x < p_neg:
            return '-' + u
        if x < p_neg + p_plus:
            return '+' + u
        return u

    def flt(self, signed=True, sci=True):
        """every spelling of the decimal grammar [+-]?(d+[.d*]?|.d+)(e[+-]?d+)? — integer, fraction, no leading digit
        (.5), trailing point (5.), explicit plus sign, exponent forms"""
        r = self.r
        x = r.random()
        a = self.uint(6)
        s = ''
        if signed:
            y = r.random()
            s = '-' if y < 0.25 else ('+' if y < 0.33 else '')
        b = ''.join(r.choice('0123456789') for _ in range(r.randint(1, 5)))
        if x < 0.25:
            m = a
        elif x < 0.6:
            m = a + '.' + b
        elif x < 0.75:
            m = '.' + b                   # no digit before the point
        elif x < 0.85:
            m = a + '.'                   # no digit after the point
        else:
            m = r.choice(['0', '0.0', '.0', '0.', '1', '.5'])
        if sci and r.random() < 0.25:
            m += r.choice(['e3', 'e-3', 'e0', 'e-10', 'e12', 'e+2', 'e+0', 'e-0'])
        return s + m

    def strand(self):
        return self.r.choice('+-.')

    def seq(self, lo=0):
        return self.text(lo, SEQ)

    def qual(self, n):
        return ''.join(chr(self.r.randint(33, 126)) for _ in range(n))

    def intlist(self, n, trailing, p_plus=0.0):
        return ','.join(('+' if self.r.random() < p_plus else '') + self.uint(4) for _ in range(n)) + (',' if trailing else '')


def _rec(g, fmt, opts):
    r = g.r
    if fmt == 'bed3':
        return [g.ident(), g.sint(opts['p_neg'], opts['p_plus']), g.uint()]
    if fmt in ('bed6', 'bed12', 'npk'):
        score = '.' if r.random() < opts['p_dot'] else (('+' if r.random() < opts['p_plus'] else '') + g.uint(4))
        base = [g.ident(), g.uint(), g.uint(), g.ident(), score, g.strand()]
        if fmt == 'bed12':
            n = r.randint(1, 3)
            base += [g.uint(), g.uint(), g.text(1, '0123456789,'), str(n), g.intlist(n, opts['trailing'], opts['p_plus']), g.intlist(n, opts['trailing'], opts['p_plus'])]
        if fmt == 'npk':
            base += [g.flt(False), g.flt(), g.flt(), ('-1' if r.random() < opts['p_neg'] else g.uint())]
        return base
    if fmt in ('bdg', 'wig'):
        return [g.ident(), g.uint(), g.uint(), g.flt()]
    if fmt == 'sizes':
        return [g.text(), g.uint()]
    if fmt in ('gtf', 'gff'):
        if fmt == 'gtf':
            att = ' '.join('%s "%s";' % (g.text(1, 'abc_'), g.text(0)) for _ in range(r.randint(0, 3)))
        else:
            att = ';'.join('%s=%s' % (g.text(1, 'abcID'), g.text(0)) for _ in range(r.randint(0, 3)))
        return [g.ident(), g.text(), g.ident(), g.uint(), g.uint(), r.choice(['.', g.flt(False, False)]), g.strand(), r.choice('.012'), att]
    if fmt == 'pairs':
        return [g.text(), g.ident(), g.uint(), g.ident(), g.uint(), r.choice('+-'), r.choice('+-')]
    if fmt == 'sam':
        s = g.seq(1)
        tags = ['%s:%s:%s' % (g.text(2, 'NMXSAZ')[:2].ljust(2, 'X'), r.choice('iZ'), g.text(1, 'abc019')) for _ in range(r.randint(0, 3) if r.random() < opts['p_tags'] else 0)]
        return [g.ident(), g.uint(4), g.ident(), g.uint(), g.uint(2), '%dM' % len(s), r.choice(['*', '=', g.text(1)]), g.uint(),
                g.sint(opts['p_neg'], 0), s, g.qual(len(s))] + tags
    if fmt == 'gfa':
        return ['S', g.ident(), g.seq()]
    if fmt in VCFS:
        info = _info_text(g, opts)
        rec = [g.ident(), g.uint(), r.choice(['.', g.text(1)]), g.seq(1), r.choice(['.', g.seq(1), g.seq(1) + ',' + g.seq(1)]),
               r.choice(['.', g.uint(3)]), r.choice(['.', 'PASS', g.text(1)]), info]
        ns = opts.get('n_samples', 0)
        if ns:
            # sample cells of mixed shapes, independently per cell: the GT sub-field alone ("./." next to "0/1:35:99":
            # trailing sub-fields may be dropped), or GT followed by 1..3 ':'-separated sub-fields, total width 3..12
            rec.append(r.choice(['GT', 'GT:DP', 'GT:DP:GQ']))
            for k in range(ns):
                if fmt == 'vcfph':
                    gt = r.choice('01') + '|' + r.choice('01')
                elif fmt == 'vcfhap':
                    gt = r.choice('01234.') + '|' + r.choice('01234.')
                elif r.random() < 0.25:
                    gt = './.'
                else:
                    gt = r.choice('012.') + r.choice('|/') + r.choice('012.')
                x = r.random()
                mode = opts.get('cell_shapes', 'mixed')
                if mode == 'plain' or (mode == 'mixed' and x < 0.45):
                    rec.append(gt)
                else:
                    subs = [g.uint(r.randint(1, 3)) for _ in range(r.randint(1, 3))]
                    cell = gt + ':' + ':'.join(subs)
                    rec.append(cell[:12].rstrip(':'))
        return rec
    if fmt == 'fastq':
        s = g.seq(opts.get('min_seq', 0))
        return [g.ident(), s, r.choice(['', '', g.text()]), g.qual(len(s))]
    if fmt == 'fasta2':
        return [g.ident(), g.seq()]
    if fmt == 'fasta':
        return [g.ident(), g.seq(1) + g.seq(0) * r.randint(0, 3)]
    raise ValueError(fmt)


def _info_text(g, opts):
    r = g.r
    decl = opts.get('decl')
    if decl is None:
        # undeclared INFO: free text
        return r.choice(['.', 'DP=%s' % g.uint(3), 'DP=%s;AF=%s' % (g.uint(2), g.flt(False, False)), g.text(1)])
    items = []
    for key, typ, lst in decl:
        if r.random() < opts.get('p_absent', 0.4):
            continue
        if typ == 'Flag':
            items.append(key)
        elif typ == 'Integer':
            pl = lambda: ('+' if r.random() < opts.get('p_plus', 0) else ('-' if r.random() < opts.get('p_neg', 0) else ''))
            v = ','.join(pl() + g.uint(4) for _ in range(r.randint(1, 3))) if lst else ('.' if r.random() < opts['p_dot'] else pl() + g.uint(5))
            items.append(key + '=' + v)
        elif typ == 'Float':
            v = ','.join(g.flt(True, False) for _ in range(r.randint(1, 3))) if lst else ('.' if r.random() < opts['p_dot'] else g.flt(True, True))
            items.append(key + '=' + v)
        else:
            items.append(key + '=' + g.text(0, 'abcXYZ019_.:-,' if lst else 'abcXYZ019_.:-'))
    if opts.get('neighbours', True):
        items += _neighbour_items(g, decl, items)
    r.shuffle(items)
    return ';'.join(items) if items else '.'


KEYS = ['DP', 'AF', 'DB', 'S', 'AC', 'F1', 'A', 'AA', 'DPX', 'END', 'H2', 'MQ0']
# families in which one key is a proper prefix / suffix / infix of another (dbSNP style: G5 / G5A, PM / PMC, DB / DBID)
FAMILIES = [['G5', 'G5A'], ['PM', 'PMC'], ['DB', 'DBID'], ['A', 'AA', 'AAA'], ['DP', 'XDP', 'DPX', 'XDPX'], ['AC', 'MAC'],
            ['ND', 'END', 'ENDS'], ['S', 'SS']]
TYPES = ['Integer', 'Integer', 'Float', 'Flag', 'Flag', 'String']


def _decl(g, fixed_keys=None):
    r = g.r
    if fixed_keys:
        out = []
        for k in fixed_keys:
            typ = r.choice(TYPES)
            out.append([k, typ, False if typ == 'Flag' else (r.random() < 0.4)])
        return out
    if r.random() < 0.5:
        # a whole family (or two), each member typed independently: Flag vs Flag, Flag vs valued, valued vs valued
        keys = []
        for fam in r.sample(FAMILIES, r.randint(1, 2)):
            keys += r.sample(fam, r.randint(2, len(fam)))
        keys = list(dict.fromkeys(keys))
        if r.random() < 0.4:
            keys += [k for k in r.sample(KEYS, 2) if k not in keys]
        r.shuffle(keys)
    else:
        keys = r.sample(KEYS, r.randint(1, 5))
    out = []
    for k in keys:
        typ = r.choice(TYPES)
        lst = False if typ == 'Flag' else (r.random() < 0.4)
        out.append([k, typ, lst])
    return out


def _neighbour_items(g, decl, present):
    """undeclared INFO items whose key extends / truncates a declared key (legal in VCF; never equal to a declared key)"""
    r = g.r
    declared = {k for k, _, _ in decl}
    out, used = [], set()
    for k, typ, lst in decl:
        if r.random() < 0.35:
            cand = r.choice([k + 'X', 'X' + k, 'X' + k + 'X', k + k, k[:-1] or 'Q', k[1:] or 'Q'])
            if cand in declared or cand in used or not cand:
                continue
            used.add(cand)
            out.append(cand if r.random() < 0.5 else cand + '=' + g.text(0, 'abc019'))
    return out


def _vcf_header(case_decl, samples, g):
    r = g.r
    h = ['##fileformat=VCFv4.2', '##source=case%d' % r.getrandbits(48)]
    if r.random() < 0.3:
        h.append('##contig=<ID=c,length=100>')
    if case_decl is not None:
        for k, typ, lst in case_decl:
            num = '0' if typ == 'Flag' else (r.choice(['A', 'R', 'G', '.', '2', '3']) if lst else '1')
            h.append('##INFO=<ID=%s,Number=%s,Type=%s,Description="d %s">' % (k, num, typ, k))
    if r.random() < 0.3:
        h.append('##FILTER=<ID=q10,Description="Quality below 10">')
    cols = '#CHROM POS ID REF ALT QUAL FILTER INFO'.split()
    if samples:
        cols += ['FORMAT'] + ['s%d' % i for i in range(samples)]
    h.append('\t'.join(cols))
    return h


def _mk(rng, fmt, n, W, crlf=False, final_newline=True, **kw):
    g = G(rng, W)
    g.boundary = bool(kw.pop('boundary', False))
    opts = dict(p_neg=0.0, p_plus=0.0, p_dot=0.0, trailing=False, p_tags=0.5)
    opts.update(kw)
    if n <= 2 and fmt.startswith('vcf') and rng.random() < 0.8:
        opts['p_absent'] = 0.05     # very short INFO columns are finding C02-info-short-buffer: keep them a minority
    case = dict(fmt=fmt, crlf=crlf, final_newline=final_newline, header=[], comments={}, decl=None, width=0)
    if fmt in VCFS:
        fixed_keys = opts.pop('decl_keys', None)
        decl = _decl(g, fixed_keys) if opts.pop('declared', True) else None
        opts['decl'] = decl
        case['decl'] = decl
        if fmt != 'vcf':
            opts['n_samples'] = rng.choice([1, 2, 3, 3, 4, 6])
        elif rng.random() < 0.3:
            opts['n_samples'] = rng.randint(1, 2)
        opts.setdefault('cell_shapes', rng.choice(['mixed', 'mixed', 'mixed', 'plain', 'wide']))
        case['header'] = _vcf_header(decl, opts.get('n_samples', 0), g)
    elif fmt == 'sam':
        if rng.random() < 0.7:
            case['header'] = ['@HD\tVN:1.6', '@SQ\tSN:%s\tLN:%s' % (g.text(1), g.uint(5))][:rng.randint(1, 2)]
    elif fmt == 'pairs':
        if rng.random() < 0.7:
            case['header'] = ['## pairs format v1.0', '#columns: readID chr1 pos1 chr2 pos2 strand1 strand2'][:rng.randint(1, 2)]
    elif fmt in ('gff',):
        if rng.random() < 0.7:
            case['header'] = ['##gff-version 3']
    elif fmt in ('bed3', 'bed6', 'bdg', 'gtf', 'wig') and rng.random() < 0.25:
        case['header'] = ['#' + g.text(0, NAME + ' \t') for _ in range(rng.randint(1, 2))]
    if fmt == 'fasta':
        case['width'] = rng.choice([1, 2, 3, 5, 8, 60])
    case['recs'] = [_rec(g, fmt, opts) for _ in range(n)]
    if fmt in INTERIOR and opts.get('interior', True):
        for i in range(1, n + 1):
            if rng.random() < 0.35:
                alph = NAME + ' ' + ('\t' if opts.get('comment_tabs') else '')
                case['comments'][str(i)] = ['#' + g.text(0, alph) for _ in range(rng.randint(1, 2))]
    if not case['final_newline']:
        # a file that ends in an empty line and lacks the final line break is, byte for byte, a file with one
        # line less and the break present: not a distinct well-formed input
        case['final_newline'] = True
        full = file_bytes(case)
        eol = b'\r\n' if crlf else b'\n'
        if not full.endswith(eol + eol) and full != eol:
            case['final_newline'] = False
    return case


def generate(tier, seed):
    rng = random.Random(seed * 104729 + 2)
    cases = []
    reps = 1 if tier == 'quick' else 8
    delimited = ['bed3', 'bed6', 'bed12', 'bdg', 'npk', 'sizes', 'gtf', 'gff', 'wig', 'pairs', 'sam', 'gfa']
    # small, regular cases first: 1..3 records, widths 0..3, LF and CRLF
    for fmt in delimited + ['vcf', 'vcfgt', 'vcfph', 'vcfhap', 'vcf2', 'fastq', 'fasta2', 'fasta']:
        for n in (1, 2, 3):
            for crlf in (False, True):
                for k in range(2 * reps):
                    if crlf and fmt in ('gff', 'wig') and (k or n > 1):
                        continue        # these readers do not handle CRLF at all (recorded findings): one case each
                    cases.append(_mk(rng, fmt, n, 3, crlf=crlf))
    # larger / very unequal widths; signs; placeholders; tags; no final newline
    for rep in range(8 * reps):
        for fmt in delimited:
            n = rng.randint(2, 7)
            W = rng.choice([1, 4, 9, 14])
            cases.append(_mk(rng, fmt, n, W, crlf=(rep % 4 == 3 and (fmt not in ('gff', 'wig') or rep == 3)), final_newline=(rep % 5 != 2),
                             p_neg=rng.choice([0, 0, 0.3]), p_plus=rng.choice([0, 0, 0.2]),
                             p_dot=rng.choice([0, 0, 1.0]), p_tags=rng.choice([0, 0.5, 1])))
        for fmt in ('vcf', 'vcf', 'vcfgt', 'vcfph', 'vcfhap', 'vcf2', 'vcf2'):
            cases.append(_mk(rng, fmt, rng.randint(1, 6), rng.choice([1, 4, 9]), crlf=(rep % 4 == 3), final_newline=(rep % 5 != 2),
                             declared=(rng.random() < 0.8), p_absent=rng.choice([0, 0.4, 0.8]), p_dot=0))
        for fmt in ('fastq', 'fasta2', 'fasta'):
            cases.append(_mk(rng, fmt, rng.randint(1, 6), rng.choice([1, 4, 9, 30]), crlf=(rep % 4 == 3), final_newline=(rep % 5 != 2)))
    # integer columns whose widest field has exactly 10 / 15 digits, with values next to 2^31, 2^32, 10^k
    for rep in range(reps):
        for fmt in ('bed3', 'sizes', 'bed6', 'bed12', 'bdg', 'npk', 'gtf', 'pairs', 'sam', 'vcf'):
            for W in (10, 15):
                cases.append(_mk(rng, fmt, rng.randint(2, 5), W, crlf=(rep % 2 == 1), boundary=True))
    # the same INFO key NAMES declared with different types / multiplicities in different files read by one process
    # (classes derived from the header must not be shared between such files)
    # (cases are dealt round-robin to 16 worker processes: 48 of them put three such files into every process)
    for rep in range(48 * (1 if tier == 'quick' else 2)):
        cases.append(_mk(rng, 'vcf', rng.randint(1, 2), 3, crlf=False, declared=True, decl_keys=['DP', 'AF', 'DB'], p_absent=0.2, p_dot=0))
    # wrapped FASTA with CRLF line ends whose last line has no line break (the reader appends a bare LF)
    for rep in range(4 * reps):
        cases.append(_mk(rng, 'fasta', rng.randint(1, 4), rng.choice([4, 9, 30]), crlf=True, final_newline=False))
    # wrapped FASTA boundary classes (round 6, theorem C02_fasta_wrapped_end_to_end): width 1, sequence length 0 / 1 / w-1 / w /
    # w+1 / exact multiples / more than 10 lines (the CR rule looks at the first 10 line ends), single-line records,
    # an empty sequence first / in the middle / last, LF and CRLF, with and without the final line break
    for rep in range(6 * reps):
        w = [1, 2, 3, 4, 7, 1][rep % 6]
        n = rng.randint(1, 5)
        case = _mk(rng, 'fasta', n, 4, crlf=(rep % 2 == 1), final_newline=(rep % 3 != 2))
        case['width'] = w
        lens = [rng.choice([0, 1, max(w - 1, 0), w, w + 1, 2 * w, 3 * w, 3 * w + 1, 11 * w + rng.randint(0, w)]) for _ in range(n)]
        for r_, L in zip(case['recs'], lens):
            r_[1] = ''.join(rng.choice(SEQ) for _ in range(L))
        if not case['final_newline'] and lens[-1] == 0 and not case['recs'][-1][0]:
            case['final_newline'] = True       # a bare '>' without line break is not a complete line
        cases.append(case)
    # GFF3 / wig interior comment lines (round 6, theorems C02_ic_table_correct / C02_gff_end_to_end / C02_ic_columns): comment
    # after the first / every / the last record, runs of consecutive comments, comments containing TABs (also a TAB as the
    # last byte and a bare '#'), a '#' header block in front, LF and CRLF, with and without the final line break
    for rep in range(10 * reps):
        fmt = INTERIOR[rep % 2]
        n = rng.randint(1, 5)
        case = _mk(rng, fmt, n, rng.choice([1, 3, 6]), crlf=(rep % 4 >= 2), final_newline=(rep % 5 != 4), interior=False)
        g = G(rng, 6)
        def comment(tabs):
            return '#' + g.text(0, NAME + ' ' + ('\t\t' if tabs else ''))
        pattern = rep % 5
        com = {}
        for i in range(1, n + 1):
            if pattern == 0 or (pattern == 1 and i == n) or (pattern == 2 and i == 1) or (pattern >= 3 and rng.random() < 0.6):
                k = 3 if pattern == 3 else rng.randint(1, 2)
                com[str(i)] = [comment(tabs=(pattern != 2 and rng.random() < 0.6)) for _ in range(k)]
        if pattern == 4 and com:
            first = sorted(com)[0]
            com[first] = ['#', '#\t', '#a\tb\t'] + com[first]
        case['comments'] = com
        if rep % 3 == 0:
            case['header'] = (case['header'] or []) + ['#' + g.text(0, NAME + ' \t')]
        if not case['final_newline']:
            case['final_newline'] = True
            full = file_bytes(case)
            eol = b'\r\n' if case['crlf'] else b'\n'
            if not full.endswith(eol + eol) and full != eol:
                case['final_newline'] = False
        cases.append(case)
    # SAM with CRLF line ends (repaired in /repo 6bbd290): with and without tags, last record with / without final line break
    for rep in range(4 * reps):
        for p_tags in (0, 0.5, 1):
            cases.append(_mk(rng, 'sam', rng.randint(1, 5), rng.choice([2, 4, 9]), crlf=True, final_newline=(rep % 2 == 0),
                             p_tags=p_tags, p_neg=0.3))
    # INFO key families: declared keys that are prefixes / suffixes / infixes of each other, records carrying only the
    # longer or only the shorter one, plus undeclared neighbour keys
    for rep in range(6 * reps):
        for fmt in ('vcf', 'vcf', 'vcf2'):
            cases.append(_mk(rng, fmt, rng.randint(1, 6), 4, crlf=(rep % 3 == 2), final_newline=(rep % 4 != 1),
                             declared=True, p_absent=rng.choice([0.3, 0.5, 0.7]), p_dot=0))
    # genotype matrices: many samples, mixed cell shapes, './.' next to wide cells, first / last sample, LF and CRLF
    for rep in range(6 * reps):
        for fmt in ('vcf2', 'vcf2', 'vcfgt', 'vcfph', 'vcfhap'):
            cases.append(_mk(rng, fmt, rng.randint(1, 6), 4, crlf=(rep % 3 == 2), final_newline=(rep % 4 != 1),
                             declared=(rep % 2 == 0), p_absent=0.3, cell_shapes='mixed'))
    # the input classes behind the recorded findings (kept rare so that other violations stay visible)
    for rep in range(2 * reps):
        cases.append(_mk(rng, 'bed6', rng.randint(2, 5), 4, p_dot=0.5))
        cases.append(_mk(rng, 'bed12', rng.randint(1, 4), 4, trailing=True))
        cases.append(_mk(rng, 'vcf', rng.randint(2, 5), 4, p_dot=0.5, p_absent=0.1))
        cases.append(_mk(rng, rng.choice(INTERIOR), rng.randint(2, 5), 4, comment_tabs=True))
    # every case also carries row subsets to be taken BEFORE the first parse (mask / index list / slice / chains; route; order
    # in which the columns are first looked at) — see _subset_session
    for k, c in enumerate(cases):
        c['subsets'] = _mk_subsets(random.Random(seed * 1000003 + 31 * k + 5), len(c['recs']))
    return cases


# ----------------------------------------------------------------------------- implementation runner
def _canon(v):
    """One parsed column -> ('str'|'int'|'float'|'ints'|'floats'|'bool', rows)."""
    import numpy as np
    from bionumpy.encoded_array import EncodedArray, EncodedRaggedArray
    from npstructures import RaggedArray

    def fl(x):
        x = float(x)
        if x != x:
            return 'nan'
        if x in (float('inf'), float('-inf')):
            return 'inf'
        a, b = x.as_integer_ratio()
        return [a, b]
    if isinstance(v, EncodedRaggedArray):
        return 'str', [r.to_string().encode('latin1').hex() for r in v]
    if isinstance(v, EncodedArray):
        if v.ndim == 1:     # one symbol per row (flat alphabet encoding)
            return 'str', [c.encode('latin1').hex() for c in v.to_string()]
        return 'ints', [[int(x) for x in row] for row in np.asarray(v.raw())]
    if type(v).__name__ == 'StringArray' and np.asarray(v.raw()).ndim == 2:
        return 'texts', [[bytes(x).hex() for x in row] for row in np.asarray(v.raw()).tolist()]
    if type(v).__name__ == 'StringArray':
        return 'str', [s.encode('latin1').hex() for s in v.tolist()]
    if isinstance(v, RaggedArray):
        rows = [list(r) for r in v.tolist()]
        if v.dtype.kind == 'f':
            return 'floats', [[fl(x) for x in r] for r in rows]
        return 'ints', [[int(x) for x in r] for r in rows]
    a = np.asarray(v)
    if a.dtype.kind == 'b':
        return 'bool', [bool(x) for x in a]
    if a.dtype.kind == 'f':
        return 'float', [fl(x) for x in a]
    if a.dtype.kind in 'iu':
        if a.ndim == 2:
            return 'ints', [[int(x) for x in r] for r in a]
        return 'int', [int(x) for x in a]
    raise TypeError('cannot canonicalise %s %s' % (type(v).__name__, a.dtype))


def _reorder(seq, order):
    """order of FIRST ACCESS of the columns: 0 = as declared, -1 = reversed, k > 0 = rotated by k, 'odd' = odd positions first"""
    seq = list(seq)
    if not order or not seq:
        return seq
    if order == -1:
        return seq[::-1]
    if order == 'odd':
        return seq[1::2] + seq[0::2]
    k = order % len(seq)
    return seq[k:] + seq[:k]


def _columns(data, order=0):
    """[(name, kind, rows) | (name, 'err', exception class)] for every field; INFO dataclass expanded per key.
    The columns are ACCESSED (= parsed, on a lazily read table) in the given order and reported in declaration order."""
    import dataclasses
    got = {}
    fields = list(dataclasses.fields(data))
    for f in _reorder(fields, order):
        out = []
        try:
            v = getattr(data, f.name)
            if dataclasses.is_dataclass(v) and not hasattr(v, 'raw') and f.name == 'info':
                sub = {}
                gs = list(dataclasses.fields(v))
                for g in _reorder(gs, order):
                    try:
                        k, rows = _canon(getattr(v, g.name))
                        sub[g.name] = ['info.' + g.name, k, rows]
                    except Exception as e:
                        sub[g.name] = ['info.' + g.name, 'err', type(e).__name__]
                got[f.name] = [sub[g.name] for g in gs]
                continue
            k, rows = _canon(v)
            out.append([f.name, k, rows])
        except Exception as e:
            out.append([f.name, 'err', type(e).__name__])
        got[f.name] = out
    return [c for f in fields for c in got[f.name]]


def _buffer_type(fmt):
    import importlib
    spec = FORMATS[fmt][1]
    if spec is None:
        return None
    m, c = spec.split(':')
    return getattr(importlib.import_module(m), c)


def _session(bnp, path, bt, table, first):
    import dataclasses
    try:
        if _columns(table) != first:
            return 'the table returned by read() differs when looked at again'
        name = dataclasses.fields(table)[0].name
        replaced = bnp.replace(table, **{name: getattr(table, name)})
        if _columns(replaced) != first:
            return 'columns differ after replace(%s=<same values>)' % name
        if _columns(table) != first:
            return 'the table returned by read() changed after replace()'
        f = bnp.open(path, buffer_type=bt)
        buf = f._reader.read()               # the buffer of the whole file (NumpyFileReader.read)
        f.close()
        t1 = buf.get_data()
        c1 = _columns(t1)
        t2 = buf.get_data()
        if _columns(t2) != first:
            return 'second get_data() on the same buffer differs'
        if _columns(t1) != c1 or c1 != first:
            return 'the table of the first get_data() differs / changed after the second one'
        return 'same'
    except Exception as e:
        return 'error:%s:%s' % (type(e).__name__, str(e)[:80])


# ----------------------------------------------------------------------------- row subsets taken BEFORE the first parse
def _np_selector(sel):
    import numpy as np
    if 'mask' in sel:
        return np.array(sel['mask'], dtype=bool)
    if 'idx' in sel:
        return np.array(sel['idx'], dtype=int) if sel.get('array') else list(sel['idx'])
    a, b, c = sel['slice']
    return slice(a, b, c)


def _selected_rows(n, chain):
    """the record numbers a chain of selectors keeps, by NumPy's own indexing rules on range(n)"""
    import numpy as np
    rows = np.arange(n)
    for sel in chain:
        rows = rows[_np_selector(sel)]
    return [int(i) for i in rows]


def _one_selector(rng, m, kind):
    """a selector on m >= 1 rows that keeps at least one row"""
    if kind == 'mask':
        mask = [rng.random() < 0.5 for _ in range(m)]
        if m >= 2 and rng.random() < 0.7:
            k = rng.randrange(m - 1)            # a kept row directly followed by a dropped one
            mask[k], mask[k + 1] = True, False
        if not any(mask):
            mask[rng.randrange(m)] = True
        return {'mask': [int(b) for b in mask]}
    if kind == 'idx':
        k = rng.randint(1, m + 1)
        idx = [rng.randrange(-m, m) if rng.random() < 0.2 else rng.randrange(m) for _ in range(k)]   # repeats, any order, negatives
        if rng.random() < 0.3:
            idx = sorted(set(i % m for i in idx))                                                     # increasing, distinct
        elif rng.random() < 0.3:
            idx = sorted(set(i % m for i in idx), reverse=True)                                       # reordered
        return {'idx': idx, 'array': rng.random() < 0.5}
    while True:
        a = rng.choice([None, None, 0, 1, m - 1, rng.randrange(m), -1, -2])
        b = rng.choice([None, None, m, m - 1, rng.randrange(m + 1), -1])
        c = rng.choice([None, 1, 2, 2, 3, -1, -2])
        if len(range(m)[slice(a, b, c)]) >= 1:
            return {'slice': [a, b, c]}


def _mk_subsets(rng, n):
    """row subsets of a table of n records: mask, index list, slice, and chains of them; which route (table returned by
    read() / the buffer of the whole file) and in which order the columns are looked at first"""
    out = []
    kinds = ['mask', 'idx', 'slice']
    rng.shuffle(kinds)
    for j, kind in enumerate(kinds + ['chain']):
        chain, m = [], n
        for step in range(1 if kind != 'chain' else rng.randint(2, 3)):
            sel = _one_selector(rng, m, kind if kind != 'chain' else rng.choice(['mask', 'idx', 'slice']))
            chain.append(sel)
            m = len(_selected_rows(n, chain))
        out.append({'chain': chain, 'route': rng.choice(['table', 'table', 'buffer']),
                    'order': rng.choice([0, -1, -1, 1, 2, 5, 'odd'])})
    return out


def _default_subsets(n):
    return _mk_subsets(random.Random(7919 * n + 13), n)


def _subset_session(bnp, path, bt, case, first, n):
    """A lazily read table (or the buffer of the whole file) is SUBSET before any of its columns has been parsed; every
    column of the subset — looked at in a varied order — must be the rows of the full table's column."""
    shipped = None
    for k, sub in enumerate(case.get('subsets') or _default_subsets(n)):
        what = 'subset %s' % json.dumps(sub, sort_keys=True)
        try:
            rows = _selected_rows(n, sub['chain'])
            want = [[name, kind, [col[i] for i in rows]] for name, kind, col in first]
            route = sub['route']
            f = bnp.open(path, buffer_type=bt)
            if route == 'buffer' and case['fmt'] != 'fasta':      # MultiLineFastaBuffer has no row access (SKIP_LAZY)
                obj = f._reader.read()
            else:
                route = 'table'
                obj = f.read()
            f.close()
            for one in sub['chain']:
                obj = obj[_np_selector(one)]
            data = obj.get_data() if route == 'buffer' else obj
            if len(data) != len(rows):
                return '%s: %d entries instead of %d' % (what, len(data), len(rows)), shipped
            got = _columns(data, sub['order'])
            if k == 0:
                shipped = dict(rows=rows, cols=got)      # goes to Coq: compared there with Model.run_sel on the same index list
            if got != want:
                bad = [g[0] for g, w in zip(got, want) if g != w]
                return '%s (%s): column(s) %s differ from the rows %s of the full table' % (what, route, ','.join(bad), rows), shipped
            if _columns(data) != want:
                return '%s (%s): columns changed when looked at again' % (what, route), shipped
        except Exception as e:
            return '%s: error:%s:%s' % (what, type(e).__name__, str(e)[:80]), shipped
    return 'same', shipped


def observe(case):
    import bionumpy as bnp
    d = tempfile.mkdtemp(prefix='c02_')
    try:
        path = os.path.join(d, 'x' + FORMATS[case['fmt']][0])
        open(path, 'wb').write(file_bytes(case))
        bt = _buffer_type(case['fmt'])
        out = {}
        try:
            f = bnp.open(path, buffer_type=bt)
            data = f.read()
            f.close()
            out['n'] = len(data)
            out['cols'] = _columns(data)
        except Exception as e:
            return dict(error=type(e).__name__, msg=str(e)[:200])
        # second route: eager parsing of the same file
        try:
            f = bnp.open(path, buffer_type=bt, lazy=False)
            data2 = f.read()
            f.close()
            cols2 = _columns(data2)
            out['eager'] = 'same' if (cols2 == out['cols'] and len(data2) == out['n']) else 'different'
        except Exception as e:
            out['eager'] = 'error:' + type(e).__name__
        # sessions: parsing is a function of the bytes — asking the same table / buffer again, or after replace(),
        # gives the same columns and changes nothing that was handed out before
        if not any(c[1] == 'err' for c in out['cols']):
            out['session'] = _session(bnp, path, bt, data, out['cols'])
            # subsets: a row selection taken BEFORE the first parse parses to the selected rows
            out['subsets'], sel = _subset_session(bnp, path, bt, case, out['cols'], out['n'])
            if sel is not None:
                out['sel'] = sel
        return out
    finally:
        shutil.rmtree(d, ignore_errors=True)


# ----------------------------------------------------------------------------- Coq terms
def _cell(kind, v):
    if kind == 'str':
        return 'CBytes %s' % hx(bytes.fromhex(v))
    if kind == 'int':
        return 'CInt %s' % cz(v)
    if kind == 'bool':
        return 'CBool %s' % cbool(v)
    if kind == 'float':
        return 'CNan' if v in ('nan', 'inf') else 'CRat %s %s' % (cz(v[0]), cz(v[1]))
    if kind == 'ints':
        return 'CInts %s' % zl(v)
    if kind == 'texts':
        return 'CTexts %s' % clist([hx(bytes.fromhex(x)) for x in v], 'list Z')
    if kind == 'floats':
        return 'CRats %s' % clist(['(%s, %s)' % (cz(a[0]), cz(a[1])) if a not in ('nan', 'inf') else '(0, 0)%Z' for a in v], '(Z*Z)')
    raise ValueError(kind)


def _eager_ok(o):
    """The eager route must deliver the same columns; it fails as a whole exactly when some lazily parsed column fails."""
    any_err = any(c[1] == 'err' for c in o['cols'])
    e = o.get('eager', 'same')
    if o.get('session', 'same') != 'same' or o.get('subsets', 'same') != 'same':
        return False
    if e == 'same':
        return True
    if e.startswith('error:'):
        return any_err
    return False


def to_coq(case, o):
    recs = clist([clist([hx(f.encode('latin1')) for f in r], 'list Z') for r in case['recs']], 'list (list Z)')
    hdr = clist([hx(h.encode('latin1')) for h in case['header']], 'list Z')
    n = len(case['recs'])
    com = clist([clist([hx(c.encode('latin1')) for c in case['comments'].get(str(i), [])], 'list Z') for i in range(n + 1)], 'list (list Z)')
    decl = 'None' if case.get('decl') is None else '(Some %s)' % clist(
        ['(%s, %s, %s)' % (hx(k.encode()), 'I' + t, cbool(l)) for k, t, l in case['decl']], '(list Z * itype * bool)')
    fb = file_bytes(case)
    if not case['final_newline']:
        fb += b'\n'        # the reader appends a bare LF when the file does not end with a line break (C01)
    if 'error' in o:
        obs = 'ObsErr'
    else:
        cols = []
        for name, kind, rows in o['cols']:
            if kind == 'err':
                cols.append('ColErr')
            else:
                cols.append('Col %s' % clist([_cell(kind, v) for v in rows], 'cell'))
        obs = 'Obs %s %s %s' % (cz(o['n']), clist(cols, 'colres'), cbool(_eager_ok(o)))
    sel = 'None'
    if 'sel' in o:
        scols = ['ColErr' if kind == 'err' else 'Col %s' % clist([_cell(kind, v) for v in rows], 'cell') for name, kind, rows in o['sel']['cols']]
        sel = '(Some (%s, Obs %s %s true))' % (zl(o['sel']['rows']), cz(len(o['sel']['rows'])), clist(scols, 'colres'))
    return ('{| k_fmt := %s; k_crlf := %s; k_final := %s; k_header := %s; k_recs := %s; k_comments := %s; k_decl := %s; k_width := %s; '
            'k_file := %s; k_obs := %s; k_sel := %s |}' % (COQ_TAG[case['fmt']], cbool(case['crlf']), cbool(case['final_newline']), hdr, recs, com, decl, cz(case.get('width', 0)),
                                              hx(fb), obs, sel))


# ----------------------------------------------------------------------------- evidence helpers
def _unequal(case):
    recs = case['recs']
    if len(recs) < 2:
        return False
    if case['fmt'] == 'fasta':
        return any(len(r[1]) > case['width'] for r in recs)
    m = min(len(r) for r in recs)
    return any(len(set(len(r[j]) for r in recs)) > 1 for j in range(m))


def nontrivial(case, o):
    return _unequal(case)


def describe(case, o):
    return dict(fmt=case['fmt'], crlf=case['crlf'], file=file_bytes(case).decode('latin1')[:300],
                observed={c[0]: (c[2] if c[1] == 'err' else '%s x%d' % (c[1], len(c[2]))) for c in o.get('cols', [])} if 'cols' in o else o)


def distribution(cases, obs):
    d = dict(formats={}, records={}, crlf=0, no_final_newline=0, with_header=0, with_interior_comments=0, errors={}, max_field_width=0)
    for c, o in zip(cases, obs):
        d['formats'][c['fmt']] = d['formats'].get(c['fmt'], 0) + 1
        k = str(len(c['recs']))
        d['records'][k] = d['records'].get(k, 0) + 1
        d['crlf'] += c['crlf']
        d['no_final_newline'] += not c['final_newline']
        d['with_header'] += bool(c['header'])
        d['with_interior_comments'] += bool(c['comments'])
        d['max_field_width'] = max([d['max_field_width']] + [len(f) for r in c['recs'] for f in r])
        if isinstance(o, dict):
            for col in o.get('cols', []):
                if col[1] == 'err':
                    key = '%s.%s:%s' % (c['fmt'], col[0], col[2])
                    d['errors'][key] = d['errors'].get(key, 0) + 1
            if 'error' in o:
                key = '%s:%s' % (c['fmt'], o['error'])
                d['errors'][key] = d['errors'].get(key, 0) + 1
    return d


# ----------------------------------------------------------------------------- findings (narrow signatures)
def _optint_mixed(texts):
    """an Optional[int] column in which '.' placeholders and numbers are mixed"""
    return any(t == '.' for t in texts) and any(t != '.' and t != '' for t in texts)


SID_COLS = {'bed3': {0: 'chromosome'}, 'bed6': {0: 'chromosome', 3: 'name'}, 'bed12': {0: 'chromosome', 3: 'name'},
            'npk': {0: 'chromosome', 3: 'name'}, 'bdg': {0: 'chromosome'}, 'wig': {0: 'chromosome'},
            'gtf': {0: 'chromosome', 2: 'feature_type'}, 'gff': {0: 'chromosome', 2: 'feature_type'},
            'pairs': {1: 'chrom1', 3: 'chrom2'}, 'sam': {0: 'name', 2: 'chromosome'}, 'gfa': {1: 'name'},
            'vcf': {0: 'chromosome'}, 'vcfgt': {0: 'chromosome'}, 'vcfph': {0: 'chromosome'}, 'vcfhap': {0: 'chromosome'},
            'vcf2': {0: 'chromosome'}}
# (FASTQ / FASTA names go through string_array(ragged text), which accepts only-empty names since /repo b1580f3)
EAGER = ('gtf', 'gff', 'fasta')


# python mirror of Model.C02.schema, used ONLY to make the finding matchers exact (never for a verdict)
_B3 = [(0, 'str'), (1, 'int'), (2, 'int')]
_B6 = _B3 + [(3, 'str'), (4, 'optint'), (5, 'str')]
_GTF = [(0, 'str'), (1, 'str'), (2, 'str'), (3, 'int'), (4, 'int'), (5, 'str'), (6, 'str'), (7, 'str'), (8, 'str')]
SCHEMA_PY = {
    'bed3': _B3, 'bed6': _B6,
    'bed12': _B6 + [(6, 'int'), (7, 'int'), (8, 'str'), (9, 'int'), (10, 'ints'), (11, 'ints')],
    'bdg': _B3 + [(3, 'float')], 'wig': _B3 + [(3, 'float')],
    'npk': _B6 + [(6, 'float'), (7, 'float'), (8, 'float'), (9, 'int')],
    'sizes': [(0, 'str'), (1, 'int')], 'gtf': _GTF, 'gff': _GTF,
    'pairs': [(0, 'str'), (1, 'str'), (2, 'int'), (3, 'str'), (4, 'int'), (5, 'str'), (6, 'str')],
    'sam': [(0, 'str'), (1, 'int'), (2, 'str'), (3, 'int'), (4, 'int'), (5, 'str'), (6, 'str'), (7, 'int'), (8, 'int'),
            (9, 'str'), (10, 'str'), (11, 'rest')],
    'gfa': [(1, 'str'), (2, 'str')],
}


def _expected_columns(case):
    """[(kind, rows)] in the order of the observed columns, or None when this mirror does not cover the format."""
    sch = SCHEMA_PY.get(case['fmt'])
    if sch is None:
        return None
    from fractions import Fraction
    out = []
    for j, kind in sch:
        rows = []
        for r in case['recs']:
            f = r[j] if j < len(r) else ''
            if kind == 'str':
                rows.append(f.encode('latin1').hex())
            elif kind == 'int':
                rows.append(int(f))
            elif kind == 'optint':
                rows.append(0 if f == '.' else int(f))
            elif kind == 'ints':
                rows.append([int(x) for x in f.split(',') if x != ''])
            elif kind == 'float':
                rows.append(Fraction(f))
            elif kind == 'rest':
                rows.append('\t'.join(r[11:]).encode('latin1').hex())
        out.append(('float' if kind == 'float' else ('ints' if kind == 'ints' else ('int' if kind in ('int', 'optint') else 'str')), rows))
    return out


def _col_equal(expected, observed, cr_suffix=False, last_plain=False):
    """is the observed column [name, kind, rows] the expected one (optionally: every text followed by CR)?"""
    from fractions import Fraction
    kind, rows = expected
    if observed[1] != kind or len(observed[2]) != len(rows):
        return False
    for i, (e, o) in enumerate(zip(rows, observed[2])):
        if kind == 'float':
            if o in ('nan', 'inf') or abs(Fraction(o[0], o[1]) - e) > abs(e) / 2 ** 40:
                return False
        elif cr_suffix and not (last_plain and i == len(rows) - 1):
            if o != e + '0d':
                return False
        elif o != e:
            return False
    return True


def _expected_failures(case):
    """columns that the recorded findings say fail for this input: {column name: finding id}"""
    out = {}
    if case['crlf'] and case['fmt'] == 'wig':
        out['value'] = 'C02-crlf-interior-comment-formats'
    return out


def finding(case, o):
    """id of the recorded finding whose EXACT failure mode this observation shows, else None.  Exact = the predicted
    columns fail (or the predicted exception is raised), the number of entries is right and every other column has the
    value the format assigns; so an observation that deviates in any other way is never attributed to a finding."""
    fmt = case['fmt']
    recs = case['recs']
    exp = _expected_failures(case)
    tab_comment = fmt in INTERIOR and any('\t' in c for cs in case['comments'].values() for c in cs)
    if 'error' in o:
        # whole-read failures: exactly the recorded exception class
        if tab_comment and o['error'] == 'ValueError':
            return 'C02-interior-comment-with-tab'
        return None
    if tab_comment:
        return None                          # only the recorded ValueError is this finding's mode
    bad = {c[0] for c in o['cols'] if c[1] == 'err'}
    if o.get('n') != len(recs):
        return None
    if fmt.startswith('vcf'):
        return None
    want = _expected_columns(case)
    if want is None or len(want) != len(o['cols']):
        return None
    gff_cr = case['crlf'] and fmt == 'gff'
    ids = set()
    for k, (w, c) in enumerate(zip(want, o['cols'])):
        if c[1] == 'err':
            if c[0] not in exp:
                return None
            ids.add(exp[c[0]])
        elif c[0] in exp:
            return None                      # predicted to fail but did not: not this finding's mode
        elif gff_cr and k == len(want) - 1:
            if not _col_equal(w, c, cr_suffix=True, last_plain=not case['final_newline']):
                return None
            ids.add('C02-crlf-interior-comment-formats')
        elif not _col_equal(w, c):
            return None
    return sorted(ids)[0] if ids else None


def search(tier, seed, disagreeing):
    """After a broken obligation: more files of the formats on which implementation and model disagree."""
    fmts = {c['fmt'] for c in disagreeing} or set(FORMATS)
    out = []
    for s2 in (seed + 101, seed + 202):
        out += [c for c in generate('thorough', s2) if c['fmt'] in fmts]
    return out[:800]


def signature(case, o):
    if 'error' in o:
        return '%s:%s' % (case['fmt'], o['error'])
    bad = [c[0] for c in o.get('cols', []) if c[1] == 'err']
    return '%s:%s:%s' % (case['fmt'], 'crlf' if case['crlf'] else 'lf', ','.join(bad) or 'value')
